"""C20 Smoothing / integrated priors and sufficient statistics match their densities.

(a) GMRF() == (N-1)/2 log tau - x^T Q x / 2 - (N-1)/2 log 2pi with Q = GMRF.precision_matrix()
    (plain, weighted, time-aware with symbolic heights -> argsort regions);
(b) GMRFGammaIntegrated() == closed form of the Gamma integral (symbolic shape / rate / field);
(c) ConstantCoalescentIntegrated.log_prob == closed form of the inverse-gamma integral;
(d) sufficient_statistics() of the piecewise-constant coalescents reproduce log_prob.
"""
from __future__ import annotations

import itertools
import math
import sys
import time

import torch

import common as cm
from symtorch import SymFloat, SymMath, SymTensor, cur, from_ids, new_vars
from symtorch.axioms import ground_axioms
from symtorch.explore import Explorer, Goal, triage
from symtorch.tensor import mkfloat
from vlib.core import main_for, pmap

PID = 'C20'
LOG2PI = 1.8378770664093453


class Heights:
    """minimal stand-in for the tree model the GMRF reads (node_heights, taxa_count)"""

    def __init__(self, node_heights, taxa_count):
        self.node_heights = node_heights
        self.taxa_count = taxa_count


def sid(x):
    return int(x._ids.reshape(-1)[0])


# ------------------------------------------------------------------ (a) GMRF
def gmrf_body(N, kind, rescale, batched):
    from torchtree.core.parameter import Parameter
    from torchtree.distributions.gmrf import GMRF

    B = 2 if batched else 1

    def body(t, V, W):
        d = t.dag
        rows = [[V[f'x{b}_{i}'] for i in range(N)] for b in range(B)]
        field = Parameter('field', from_ids(torch.tensor(rows if batched else rows[0], dtype=torch.int64)))
        prec = Parameter('prec', from_ids(torch.tensor([[V[f'tau{b}']] for b in range(B)] if batched else [V['tau0']],
                                                        dtype=torch.int64)))
        tree = None
        weights = None
        if kind == 'time-aware':
            n = N  # N-1 interior intervals need N internal heights + the zero
            hs = from_ids(torch.tensor([V[f's{i}'] for i in range(n + 1)] + [V[f'h{i}'] for i in range(N)], dtype=torch.int64))
            tree = Heights(hs, n + 1)
        elif kind == 'weighted':
            weights = from_ids(torch.tensor([V[f'w{i}'] for i in range(N - 1)], dtype=torch.int64))
        g = GMRF('gmrf', field, prec, tree, weights, rescale)
        val = g()
        Q = g.precision_matrix()
        goals = []
        for b in range(B):
            x = rows[b]
            tau = V[f'tau{b}']
            Qi = (Q[b] if batched else Q)._ids.tolist()
            quad = 0
            for i in range(N):
                for j in range(N):
                    quad = d.add(quad, d.mul(d.mul(x[i], Qi[i][j]), x[j]))
            dim = d.const(N - 1)
            orc = d.add(d.add(d.mul(d.mul(d.const(0.5), dim), d.log(tau)), d.mul(d.const(-0.5), quad)),
                        d.mul(d.mul(d.const(-0.5), dim), d.const(LOG2PI)))
            vi = int((val[b] if batched else val)._ids.reshape(-1)[0])
            goal = d.eq(vi, orc)
            goals.append(Goal(f'[sample {b}] GMRF() == Gaussian quadratic form with the published precision matrix', goal,
                              hyps=ground_axioms(d, [goal]), signature=f'GMRF:{kind}:density-vs-precision_matrix'))
            # precision matrix is symmetric with zero row sums (intrinsic first-order GMRF)
            sym = d.and_(*[d.eq(Qi[i][j], Qi[j][i]) for i in range(N) for j in range(i)])
            goals.append(Goal(f'[sample {b}] precision matrix symmetric', sym, signature=f'GMRF:{kind}:precision-symmetric'))
        return goals

    return body, [GMRF._call, GMRF.precision_matrix]


def gmrf_replay(N, kind, rescale, batched, vals):
    from torchtree.core.parameter import Parameter
    from torchtree.distributions.gmrf import GMRF

    B = 2 if batched else 1
    rows = [[vals.get(f'x{b}_{i}', 0.1 * i) for i in range(N)] for b in range(B)]
    field = Parameter('field', torch.tensor(rows if batched else rows[0], dtype=torch.float64))
    taus = [abs(vals.get(f'tau{b}', 1.5)) + 1e-3 for b in range(B)]
    prec = Parameter('prec', torch.tensor([[x] for x in taus] if batched else [taus[0]], dtype=torch.float64))
    tree = weights = None
    if kind == 'time-aware':
        hs = torch.tensor([vals.get(f's{i}', 0.0) for i in range(N + 1)] + [vals.get(f'h{i}', 1.0 + i) for i in range(N)],
                          dtype=torch.float64)
        tree = Heights(hs, N + 1)
    elif kind == 'weighted':
        weights = torch.tensor([abs(vals.get(f'w{i}', 1.0 + i)) + 1e-3 for i in range(N - 1)], dtype=torch.float64)
    g = GMRF('gmrf', field, prec, tree, weights, rescale)
    try:
        val = g().reshape(-1)
        Q = g.precision_matrix()
    except Exception as e:
        return True, f'raised {type(e).__name__}: {e}'
    for b in range(B):
        x = torch.tensor(rows[b], dtype=torch.float64)
        Qb = Q[b] if batched else Q
        want = 0.5 * (N - 1) * math.log(taus[b]) - 0.5 * float(x @ Qb @ x) - 0.5 * (N - 1) * math.log(2 * math.pi)
        if abs(float(val[b]) - want) > 1e-9 * max(1.0, abs(want)):
            return True, (f'GMRF() = {float(val[b])} but the quadratic form with precision_matrix() gives {want} '
                          f'(field {rows[b]}, precision {taus[b]})')
    return False, 'agree'


# ------------------------------------------------------------------ (b) GMRFGammaIntegrated
def integrated_body(N, time_aware=None):
    """time_aware: None (plain) or the value of the rescale flag (time-aware variant: must integrate the SAME weighted
    quadratic form as GMRF() with that flag)"""
    from torchtree.core.parameter import Parameter
    from torchtree.distributions import gmrf_integrated as gi
    from torchtree.distributions.gmrf import GMRF

    def body(t, V, W):
        d = t.dag
        saved = gi.math
        gi.math = SymMath()
        try:
            field = Parameter('field', cm.var_tensor(V, [f'x{i}' for i in range(N)]))
            a = mkfloat(V['alpha'])
            bta = mkfloat(V['beta'])
            tree = None
            if time_aware is not None:
                hs = from_ids(torch.tensor([V[f's{i}'] for i in range(N + 1)] + [V[f'h{i}'] for i in range(N)], dtype=torch.int64))
                tree = Heights(hs, N + 1)
            m = gi.GMRFGammaIntegrated('g', field, a, bta, tree, None, time_aware if time_aware is not None else True)
            val = m()
        finally:
            gi.math = saved
        x = [V[f'x{i}'] for i in range(N)]
        ss = 0
        if time_aware is None:
            for i in range(N - 1):
                df = d.sub(x[i + 1], x[i])
                ss = d.add(ss, d.mul(df, df))
        else:
            # the weighted sum of squares is taken from the (non-integrated) GMRF with the same flag and precision 1:
            # GMRF() = (N-1)/2 log 1 - ss/2 - (N-1)/2 log 2pi   =>   ss = -2 (GMRF() + (N-1)/2 log 2pi)
            one = Parameter('one', torch.ones(1, dtype=torch.float64))
            g = GMRF('gm', Parameter('f2', cm.var_tensor(V, [f'x{i}' for i in range(N)])), one, Heights(hs, N + 1), None, time_aware)
            gv = sid(g())
            ss = d.mul(d.const(-2), d.add(gv, d.mul(d.const((N - 1) / 2), d.const(LOG2PI))))
        al, be = V['alpha'], V['beta']
        half = d.const((N - 1) / 2)
        # log[(2pi)^-(N-1)/2 beta^alpha / Gamma(alpha) Gamma(alpha + (N-1)/2) (beta + ss/2)^-(alpha+(N-1)/2)]
        orc = d.add(d.mul(d.neg(half), d.const(math.log(2.0 * math.pi))), d.mul(al, d.log(be)))
        orc = d.add(orc, d.neg(d.uf('lgamma', al)))
        orc = d.add(orc, d.uf('lgamma', d.add(al, half)))
        orc = d.add(orc, d.neg(d.mul(d.add(al, half), d.log(d.add(be, d.mul(d.const(0.5), ss))))))
        goal = d.eq(sid(val), orc)
        return [Goal('GMRFGammaIntegrated() == log of the closed-form Gamma integral of GMRF x Gamma(precision)', goal,
                     hyps=ground_axioms(d, [goal]), signature='GMRFGammaIntegrated:closed-form')]

    return body, [gi.GMRFGammaIntegrated._call, gi.GMRFGammaIntegrated.__init__]


def integrated_time_replay(N, rescale, vals):
    from torchtree.core.parameter import Parameter
    from torchtree.distributions.gmrf import GMRF
    from torchtree.distributions.gmrf_integrated import GMRFGammaIntegrated

    x = torch.tensor([vals.get(f'x{i}', 0.3 * i) for i in range(N)], dtype=torch.float64)
    a = abs(vals.get('alpha', 1.2)) + 0.05
    b = abs(vals.get('beta', 0.7)) + 0.05
    hs = torch.tensor([0.0] * (N + 1) + sorted(abs(vals.get(f'h{i}', 1.0 + i)) + 0.1 * (i + 1) for i in range(N)), dtype=torch.float64)
    got = float(GMRFGammaIntegrated('g', Parameter('f', x), a, b, Heights(hs, N + 1), None, rescale)())
    gm = float(GMRF('gm', Parameter('f2', x.clone()), Parameter('one', torch.ones(1, dtype=torch.float64)), Heights(hs, N + 1), None, rescale)())
    ss = -2 * (gm + (N - 1) / 2 * math.log(2 * math.pi))
    want = (-(N - 1) / 2 * math.log(2 * math.pi) + a * math.log(b) - math.lgamma(a) + math.lgamma(a + (N - 1) / 2)
            - (a + (N - 1) / 2) * math.log(b + ss / 2))
    if abs(got - want) > 1e-9 * max(1.0, abs(want)):
        return True, (f'GMRFGammaIntegrated(tree_model, rescale={rescale}) = {got} but integrating the GMRF density with the same flag '
                      f'gives {want}')
    return False, 'agree'


def integrated_replay(N, vals):
    import mpmath as mp

    from torchtree.core.parameter import Parameter
    from torchtree.distributions.gmrf_integrated import GMRFGammaIntegrated

    x = [vals.get(f'x{i}', 0.3 * i) for i in range(N)]
    a = abs(vals.get('alpha', 1.2)) + 0.05
    b = abs(vals.get('beta', 0.7)) + 0.05
    m = GMRFGammaIntegrated('g', Parameter('f', torch.tensor(x, dtype=torch.float64)), a, b)
    got = float(m())
    ss = sum((x[i + 1] - x[i]) ** 2 for i in range(N - 1))

    def integrand(tau):
        return (mp.mpf(b) ** a / mp.gamma(a) * tau ** (a - 1) * mp.e ** (-b * tau)
                * (tau / (2 * mp.pi)) ** (mp.mpf(N - 1) / 2) * mp.e ** (-tau * ss / 2))

    want = float(mp.log(mp.quad(integrand, [0, 1, 10, mp.inf])))
    if abs(got - want) > 1e-7 * max(1.0, abs(want)):
        return True, f'GMRFGammaIntegrated() = {got} but numerical integration gives {want} (alpha={a}, beta={b}, x={x})'
    return False, 'agree with quadrature'


# ------------------------------------------------------------------ (c) ConstantCoalescentIntegrated
def coal_integrated_body(n):
    import C08
    from torchtree.evolution import coalescent as co

    def body(t, V, W):
        d = t.dag
        saved = co.math
        co.math = SymMath()
        try:
            h, S, C = C08._heights(V, W, n, t)
            dist = co.ConstantCoalescentIntegrated(mkfloat(V['alpha']), mkfloat(V['beta']), validate_args=False)
            val = dist.log_prob(h)
        finally:
            co.math = saved
        # sufficient statistic sum_i C(k_i,2) dt_i through the independent event-list evaluator (theta = 1, no log terms)
        stat = C08.kingman_oracle(S, C, [], lambda p, a, b: (b - a), lambda p, c: 0.0)
        stat_id = d.neg(SymFloat._id(stat))
        al, be = V['alpha'], V['beta']
        N = d.const(n - 1)
        orc = d.add(d.mul(al, d.log(be)), d.neg(d.uf('lgamma', al)))
        orc = d.add(orc, d.uf('lgamma', d.add(al, N)))
        orc = d.add(orc, d.neg(d.mul(d.add(al, N), d.log(d.add(be, stat_id)))))
        goal = d.eq(sid(val), orc)
        return [Goal('ConstantCoalescentIntegrated.log_prob == log of the closed-form inverse-gamma integral', goal,
                     hyps=ground_axioms(d, [goal]), signature='ConstantCoalescentIntegrated:closed-form')]

    return body, [co.ConstantCoalescentIntegrated.log_prob]


def coal_integrated_replay(n, vals):
    import mpmath as mp

    from torchtree.evolution.coalescent import ConstantCoalescent, ConstantCoalescentIntegrated

    a = abs(vals.get('alpha', 1.2)) + 0.05
    b = abs(vals.get('beta', 0.7)) + 0.05
    h = torch.tensor([vals.get(f's{i}', 0.0) for i in range(n)] + [vals.get(f'c{j}', 1.0 + j) for j in range(n - 1)],
                     dtype=torch.float64)
    got = float(ConstantCoalescentIntegrated(a, b).log_prob(h))

    def integrand(theta):
        lp = float(ConstantCoalescent(torch.tensor([float(theta)], dtype=torch.float64)).log_prob(h))
        return mp.mpf(b) ** a / mp.gamma(a) * theta ** (-a - 1) * mp.e ** (-b / theta) * mp.e ** lp

    want = float(mp.log(mp.quad(integrand, [0, 0.5, 2, 10, mp.inf])))
    if abs(got - want) > 1e-6 * max(1.0, abs(want)):
        return True, f'ConstantCoalescentIntegrated.log_prob = {got} but numerical integration gives {want}'
    return False, 'agree with quadrature'


# ------------------------------------------------------------------ (d) sufficient statistics
def suffstat_body(model, n, G):
    import C08
    from torchtree.evolution import coalescent as co

    def body(t, V, W):
        d = t.dag
        h, S, C = C08._heights(V, W, n, t)
        if model == 'skyride':
            theta = cm.var_tensor(V, [f'theta{k}' for k in range(n - 1)])
            dist = co.PiecewiseConstantCoalescent(theta, validate_args=False)
        else:
            theta = cm.var_tensor(V, [f'theta{k}' for k in range(G + 1)])
            grid = cm.var_tensor(V, [f'g{k}' for k in range(G)])
            dist = co.PiecewiseConstantCoalescentGrid(theta, grid, validate_args=False)
        lp = dist.log_prob(h)
        ss, counts = dist.sufficient_statistics(h)
        ssi = ss._ids.reshape(-1).tolist() if isinstance(ss, SymTensor) else [d.const(float(v)) for v in ss.reshape(-1).tolist()]
        ci = counts._ids.reshape(-1).tolist() if isinstance(counts, SymTensor) else [d.const(float(v)) for v in counts.reshape(-1).tolist()]
        th = theta._ids.tolist()
        if not (len(ssi) == len(ci) == len(th)):
            return [Goal(f'{model}: one sufficient statistic and one count per population size', d.FALSE,
                         signature=f'{model}:sufficient_statistics-shape')]
        rec = 0
        for s_, c_, t_ in zip(ssi, ci, th):
            rec = d.sub(rec, d.div(s_, t_))
            rec = d.sub(rec, d.mul(c_, d.log(t_)))
        goal = d.eq(sid(lp), rec)
        return [Goal(f'{model}: -sum ss_k/theta_k - sum c_k log theta_k == log_prob', goal, hyps=ground_axioms(d, [goal]),
                     signature=f'{model}:sufficient_statistics')]

    cls = co.PiecewiseConstantCoalescent if model == 'skyride' else co.PiecewiseConstantCoalescentGrid
    return body, [cls.sufficient_statistics, cls.log_prob]


def suffstat_replay(model, n, G, vals):
    from torchtree.evolution import coalescent as co

    h = torch.tensor([vals.get(f's{i}', 0.0) for i in range(n)] + [vals.get(f'c{j}', 1.0 + j) for j in range(n - 1)],
                     dtype=torch.float64)
    if model == 'skyride':
        th = torch.tensor([abs(vals.get(f'theta{k}', 1.5)) + 1e-3 for k in range(n - 1)], dtype=torch.float64)
        dist = co.PiecewiseConstantCoalescent(th)
    else:
        th = torch.tensor([abs(vals.get(f'theta{k}', 1.5)) + 1e-3 for k in range(G + 1)], dtype=torch.float64)
        gr = torch.tensor([vals.get(f'g{k}', 1.0 + k) for k in range(G)], dtype=torch.float64)
        dist = co.PiecewiseConstantCoalescentGrid(th, gr)
    try:
        lp = float(dist.log_prob(h))
        ss, cnt = dist.sufficient_statistics(h)
    except Exception as e:
        return True, f'raised {type(e).__name__}: {e}'
    if ss.shape != th.shape or cnt.shape != th.shape:
        return True, f'sufficient statistics shapes {tuple(ss.shape)}, {tuple(cnt.shape)} vs {tuple(th.shape)} population sizes'
    rec = float(-(ss.to(torch.float64) / th).sum() - (cnt.to(torch.float64) * th.log()).sum())
    if abs(rec - lp) > 1e-9 * max(1.0, abs(lp)):
        return True, f'log_prob = {lp} but the sufficient statistics give {rec}'
    return False, 'agree'


def ss_batched_task(task, tr):
    """batched sufficient statistics: row b of the statistics of a batch equals the statistics of row b alone
    (two trees whose rows interleave sampling and coalescent events differently)"""
    from symtorch import tracing
    from torchtree.evolution import coalescent as co

    _, n = task
    label = f'sufficient statistics skyride, batch of 2 trees, n={n}'
    tr.fn(co.PiecewiseConstantCoalescent.sufficient_statistics)
    with tracing() as t:
        d = t.dag
        # row 0: all samples at 0; row 1: one tip sampled after the first coalescence
        # (>= 2 lineages are alive in the interval whose position differs between the rows)
        rows = [[0.0, 0.0, 0.0, 0.0, 1.0, 2.0, 3.0], [0.0, 0.0, 0.0, 1.5, 1.0, 2.0, 3.0]]
        assert n == 4
        hv = [new_vars(f'h{b}', torch.tensor(rows[b], dtype=torch.float64)) for b in range(2)]
        th = [new_vars(f'theta{b}', torch.tensor([1.5 + b, 2.5 + b, 3.5 + b], dtype=torch.float64)) for b in range(2)]
        H = from_ids(torch.stack([x._ids for x in hv]))
        TH = from_ids(torch.stack([x._ids for x in th]))
        try:
            ssb, cb = co.PiecewiseConstantCoalescent(TH, validate_args=False).sufficient_statistics(H)
        except Exception as e:
            tr.notes.append(f'{label}: raises {type(e).__name__} (accepted: fails loudly)')
            tr.obligation('raises:' + label, nontrivial=False)
            tr.regions += 1
            return
        goals = []
        for b in range(2):
            s1, c1 = co.PiecewiseConstantCoalescent(th[b], validate_args=False).sufficient_statistics(hv[b])
            a_ = ssb[b]._ids.reshape(-1).tolist() if isinstance(ssb, SymTensor) else [d.const(float(v)) for v in ssb[b].reshape(-1).tolist()]
            b_ = s1._ids.reshape(-1).tolist() if isinstance(s1, SymTensor) else [d.const(float(v)) for v in s1.reshape(-1).tolist()]
            goals.append((f'row {b}: batched sufficient statistics == statistics of that tree alone',
                          d.and_(*[d.eq(x, y) for x, y in zip(a_, b_)]) if len(a_) == len(b_) else d.FALSE, [],
                          'skyride:sufficient_statistics:batched'))
        tr.witness_runs += 1
        tr.regions += 1
        V = {d.args[i][0]: i for g in goals for i in d.topo([g[1]]) if d.ops[i] == 'var'}

        def rp(vals):
            Hh = torch.tensor([[vals.get(f'h{b}[{i}]', rows[b][i]) for i in range(2 * n - 1)] for b in range(2)], dtype=torch.float64)
            Tt = torch.tensor([[abs(vals.get(f'theta{b}[{i}]', 1.5 + b + i)) + 1e-3 for i in range(n - 1)] for b in range(2)], dtype=torch.float64)
            sb, _ = co.PiecewiseConstantCoalescent(Tt).sufficient_statistics(Hh)
            for b in range(2):
                s1, _ = co.PiecewiseConstantCoalescent(Tt[b]).sufficient_statistics(Hh[b])
                if not torch.allclose(sb[b].to(torch.float64), s1.to(torch.float64), rtol=1e-9, atol=1e-12):
                    return True, f'row {b}: batched statistics {sb[b].tolist()} but that tree alone gives {s1.tolist()}'
            return False, 'agree'

        cm.discharge(tr, d, list(t.pcs), goals, label, replay=rp, varnodes=V, defined=False, timeout=30, parallel=True)


# ------------------------------------------------------------------ driver
def run_task(task, tr):
    import C08

    kind = task[0]
    if kind == 'gmrf':
        _, N, gk, rescale, batched = task
        body, fns = gmrf_body(N, gk, rescale, batched)
        label = f'GMRF N={N} {gk} rescale={rescale} batched={batched}'
        B = 2 if batched else 1
        W = {}
        for b in range(B):
            W.update({f'x{b}_{i}': 0.3 * i * i - 0.2 * b + 0.1 for i in range(N)})
            W[f'tau{b}'] = 1.7 + b
        if gk == 'time-aware':
            W.update({f's{i}': 0.0 for i in range(N + 1)})
            W.update({f'h{i}': 0.8 + 0.9 * i for i in range(N)})
        if gk == 'weighted':
            W.update({f'w{i}': 0.6 + 0.5 * i for i in range(N - 1)})

        def domain(d, V):
            cs = [d.lt(0, V[k]) for k in V if k.startswith(('tau', 'w'))]
            if gk == 'time-aware':
                cs += [d.eq(V[f's{i}'], 0) for i in range(N + 1)]
                cs += [d.lt(0, V[f'h{i}']) for i in range(N)]
                # distinct coalescent times (durations appear as denominators)
                cs += [d.not_(d.eq(V[f'h{i}'], V[f'h{j}'])) for i in range(N) for j in range(i)]
            return cs

        rp = lambda vals: gmrf_replay(N, gk, rescale, batched, vals)  # noqa
        extra = {'N': N, 'kind': gk}
    elif kind == 'integrated':
        _, N = task
        body, fns = integrated_body(N)
        label = f'GMRFGammaIntegrated N={N}'
        W = {f'x{i}': 0.3 * i * i + 0.1 for i in range(N)}
        W.update({'alpha': 1.3, 'beta': 0.7})
        domain = lambda d, V: [d.lt(0, V['alpha']), d.lt(0, V['beta'])]  # noqa
        rp = lambda vals: integrated_replay(N, vals)  # noqa
        extra = {'N': N}
    elif kind == 'integrated-time':
        _, N, rescale = task
        body, fns = integrated_body(N, rescale)
        label = f'GMRFGammaIntegrated time-aware N={N} rescale={rescale}'
        W = {f'x{i}': 0.3 * i * i + 0.1 for i in range(N)}
        W.update({'alpha': 1.3, 'beta': 0.7})
        W.update({f's{i}': 0.0 for i in range(N + 1)})
        W.update({f'h{i}': 0.8 + 0.9 * i for i in range(N)})

        def domain(d, V):
            cs = [d.lt(0, V['alpha']), d.lt(0, V['beta'])]
            cs += [d.eq(V[f's{i}'], 0) for i in range(N + 1)]
            cs += [d.lt(0, V[f'h{i}']) for i in range(N)]
            cs += [d.not_(d.eq(V[f'h{i}'], V[f'h{j}'])) for i in range(N) for j in range(i)]
            return cs

        rp = lambda vals: integrated_time_replay(N, rescale, vals)  # noqa
        extra = {'N': N, 'rescale': rescale}
    elif kind == 'ss-batched':
        return ss_batched_task(task, tr)
    elif kind == 'coalint':
        _, n, perm = task
        body, fns = coal_integrated_body(n)
        label = f'ConstantCoalescentIntegrated n={n} sampling-order={perm}'
        W = C08.initial_witness(n, perm, 0, 0)
        W.update({'alpha': 1.3, 'beta': 0.7})
        domain = lambda d, V: C08.coalescent_domain(d, V, n, C08.order_constraint(d, V, perm) + [d.lt(0, V['alpha']), d.lt(0, V['beta'])])  # noqa
        rp = lambda vals: coal_integrated_replay(n, vals)  # noqa
        extra = {'n': n}
    else:
        _, model, n, G, perm = task
        body, fns = suffstat_body(model, n, G)
        label = f'sufficient statistics {model} n={n} G={G} sampling-order={perm}'
        W = C08.initial_witness(n, perm, G if model == 'skygrid' else 0, (n - 1) if model == 'skyride' else G + 1)

        def domain(d, V):
            ex = C08.order_constraint(d, V, perm)
            for g in range(G if model == 'skygrid' else 0):
                ex.append(d.lt(0, V[f'g{g}']))
                if g:
                    ex.append(d.le(V[f'g{g-1}'], V[f'g{g}']))
            return C08.coalescent_domain(d, V, n, ex)

        rp = lambda vals: suffstat_replay(model, n, G, vals)  # noqa
        extra = {'model': model, 'n': n, 'G': G}
    tr.fn(*fns)
    ex = Explorer(W, domain, body, tr, max_regions=300, timeout=40.0, label=label, deadline=time.time() + 900)
    out = ex.run()
    for s in out.region_samples[:1]:
        s['case'] = label
        tr.sample(s)
    triage(out, rp, tr, label, extra)


def tasks_for(tier):
    ts = []
    Ns = (2, 3, 4) if tier == 'quick' else (2, 3, 4, 5)
    for N in Ns:
        ts.append(('gmrf', N, 'plain', True, False))
        ts.append(('gmrf', N, 'plain', True, True))
        ts.append(('integrated', N))
    for N in ((3,) if tier == 'quick' else (3, 4)):
        ts.append(('gmrf', N, 'weighted', True, False))
        if N == 3:
            ts.append(('gmrf', N, 'time-aware', True, False))
            ts.append(('gmrf', N, 'time-aware', False, False))
    ts += [('integrated-time', 3, True), ('integrated-time', 3, False), ('ss-batched', 4)]
    n = 3
    for perm in itertools.permutations(range(n)):
        ts.append(('coalint', n, perm))
        ts.append(('ss', 'skyride', n, 0, perm))
        ts.append(('ss', 'skygrid', n, 1, perm))
    if tier == 'thorough':
        for perm in itertools.permutations(range(4)):
            ts.append(('ss', 'skyride', 4, 0, perm))
            ts.append(('ss', 'skygrid', 4, 1, perm))
            ts.append(('coalint', 4, perm))
        for perm in itertools.permutations(range(3)):
            ts.append(('ss', 'skygrid', 3, 2, perm))
    return ts


def body(chk):
    chk.explanation = ('symbolic execution of GMRF / precision_matrix / integrated priors / sufficient statistics; the three '
                       'separately written code paths are compared as expressions by the solver for all field vectors, '
                       'precisions, hyper-parameters, heights and population sizes; event orderings are path regions')
    chk.total.assumptions |= {'Gamma-integral lemma (trusted): int_0^inf t^(a-1) e^(-b t) dt = Gamma(a)/b^a; lgamma/log uninterpreted',
                              'numerical quadrature (mpmath) is used only in replays'}
    chk.total.bounds['sizes'] = 'field length 2..4 (5 thorough), n=3 taxa (4 thorough), grid <= 1 (2 thorough), shapes [] and [2]'
    pmap(run_task, tasks_for(chk.tier), chk.total)


if __name__ == '__main__':
    if '--replay' in sys.argv:
        import json

        r = json.load(open(sys.argv[sys.argv.index('--replay') + 1]))
        print('replay:', r['what'])
        sys.exit(1)
    sys.exit(main_for(PID, body))
