"""C20 Smoothing / integrated priors and sufficient statistics match their densities.

(a) GMRF() == (N-1)/2 log tau - x^T Q x / 2 - (N-1)/2 log 2pi with Q = GMRF.precision_matrix()
    (plain, weighted, time-aware with symbolic heights -> argsort regions);
(a') the weighted / time-aware branches of GMRF._call and GMRFGammaIntegrated._call against the INTENDED structure matrix
    (built per sample from the weights / the sorted coalescent times and the root height of THAT sample), unbatched and
    for batches whose trees have different root heights and different orders of the internal nodes, real TimeTreeModel
    with symbolic internal heights.  (a) cannot decide these branches: precision_matrix() ignores weights and durations
    (known finding), so every weighted / time-aware run of (a) ends in the same known signature;
(a'') GMRFCovariate (built by its from_json; field, precision, covariates and effect sizes symbolic): density == quadratic form
    of (field - covariates x beta) with the published precision matrix and == the intrinsic first-order GMRF density of that
    residual, one value per sample for every way of batching the class documents (field [...,N], covariates [N,P] or
    [...,N,P], beta [...,P] or shared);
(b) GMRFGammaIntegrated() == closed form of the Gamma integral (symbolic shape / rate / field);
(c) ConstantCoalescentIntegrated.log_prob == closed form of the inverse-gamma integral: alpha / beta as python floats, as
    one-element tensors, through ConstantCoalescentIntegratedModel.from_json on a real TimeTreeModel, and for a batch of
    two trees; stated once with lgamma (decides the lgamma arguments) and once lgamma-free as the rising factorial
    alpha (alpha+1) .. (alpha+n-2) (connected to the implementation by instances of the Gamma recurrence only);
(d) sufficient_statistics() of the piecewise-constant coalescents reproduce log_prob;
(d') the same on exact ties (one symbol for a grid point and a sampling / coalescent time, for a sampling and a coalescent time,
    for two grid points), for grids entirely beyond the root, and per interval against an event-list oracle (statistic of
    interval k == int C(lineages,2) dt over it, count == number of coalescent events in it);
(e) the consumer: the real GMRFPiecewiseCoalescentBlockUpdatingOperator (_step and __call__) runs on the real coalescent model
    / GMRF wired like the CLI (theta = exp(field)); what it hands to its Newton iteration as (numCoalEv, wNative, gamma,
    precision matrix) - the quantities its Gaussian proposal is built from - must reproduce the coalescent density, the
    per-interval oracle and the GMRF density at the proposed precision, per sample of a batch.
(e') the consumer for two consecutive rounds on the SAME objects: step() -> chain evaluation -> reject() / accept() -> chain
    evaluation (-> another operator moves the field) -> step(); every precision matrix the operator asks for (before and
    after its proposal) must be the matrix of the precision the parameter holds at that moment, every statistic it hands over
    must reproduce the coalescent density of the state the chain is in.
(f) read / write histories on ONE object: every published quantity (gmrf(), precision_matrix(), the coalescent model call,
    sufficient_statistics(), GMRFGammaIntegrated(), GMRFCovariate(), ConstantCoalescentIntegratedModel()) is read repeatedly
    between parameter updates (assign fresh symbols; in place + fire_parameter_changed; restore the saved clone as
    MCMCOperator.reject does) of field, precision, node heights, population sizes, covariates and effect sizes: every order of
    the reads followed by every sequence of <= 3 (thorough 4) operations; after every read the value is the one of the symbols
    the parameters hold NOW (fresh object, quadratic form of the matrix published now, event-list oracle at the current heights).
"""
from __future__ import annotations

import contextlib
import functools
import itertools
import math
import sys
import time

import torch

import common as cm
from symtorch import SymFloat, SymMath, SymTensor, cur, from_ids, new_vars
from symtorch.axioms import ground_axioms
from symtorch.explore import Explorer, Goal, triage
from symtorch.tensor import mkfloat
from vlib.core import main_for, pmap

PID = 'C20'
LOG2PI = 1.8378770664093453


class Heights:
    """minimal stand-in for the tree model the GMRF reads (node_heights, taxa_count)"""

    def __init__(self, node_heights, taxa_count):
        self.node_heights = node_heights
        self.taxa_count = taxa_count


def sid(x):
    return int(x._ids.reshape(-1)[0])


# ------------------------------------------------------------------ (a) GMRF
def gmrf_body(N, kind, rescale, batched):
    from torchtree.core.parameter import Parameter
    from torchtree.distributions.gmrf import GMRF

    B = 2 if batched else 1

    def body(t, V, W):
        d = t.dag
        rows = [[V[f'x{b}_{i}'] for i in range(N)] for b in range(B)]
        field = Parameter('field', from_ids(torch.tensor(rows if batched else rows[0], dtype=torch.int64)))
        prec = Parameter('prec', from_ids(torch.tensor([[V[f'tau{b}']] for b in range(B)] if batched else [V['tau0']],
                                                        dtype=torch.int64)))
        tree = None
        weights = None
        if kind == 'time-aware':
            n = N  # N-1 interior intervals need N internal heights + the zero
            hs = from_ids(torch.tensor([V[f's{i}'] for i in range(n + 1)] + [V[f'h{i}'] for i in range(N)], dtype=torch.int64))
            tree = Heights(hs, n + 1)
        elif kind == 'weighted':
            weights = from_ids(torch.tensor([V[f'w{i}'] for i in range(N - 1)], dtype=torch.int64))
        g = GMRF('gmrf', field, prec, tree, weights, rescale)
        val = g()
        Q = g.precision_matrix()
        goals = []
        for b in range(B):
            x = rows[b]
            tau = V[f'tau{b}']
            Qi = (Q[b] if batched else Q)._ids.tolist()
            quad = 0
            for i in range(N):
                for j in range(N):
                    quad = d.add(quad, d.mul(d.mul(x[i], Qi[i][j]), x[j]))
            dim = d.const(N - 1)
            orc = d.add(d.add(d.mul(d.mul(d.const(0.5), dim), d.log(tau)), d.mul(d.const(-0.5), quad)),
                        d.mul(d.mul(d.const(-0.5), dim), d.const(LOG2PI)))
            vi = int((val[b] if batched else val)._ids.reshape(-1)[0])
            goal = d.eq(vi, orc)
            goals.append(Goal(f'[sample {b}] GMRF() == Gaussian quadratic form with the published precision matrix', goal,
                              hyps=ground_axioms(d, [goal]), signature=f'GMRF:{kind}:density-vs-precision_matrix'))
            # precision matrix is symmetric with zero row sums (intrinsic first-order GMRF)
            sym = d.and_(*[d.eq(Qi[i][j], Qi[j][i]) for i in range(N) for j in range(i)])
            goals.append(Goal(f'[sample {b}] precision matrix symmetric', sym, signature=f'GMRF:{kind}:precision-symmetric'))
        return goals

    return body, [GMRF._call, GMRF.precision_matrix]


def gmrf_replay(N, kind, rescale, batched, vals):
    from torchtree.core.parameter import Parameter
    from torchtree.distributions.gmrf import GMRF

    B = 2 if batched else 1
    rows = [[vals.get(f'x{b}_{i}', 0.1 * i) for i in range(N)] for b in range(B)]
    field = Parameter('field', torch.tensor(rows if batched else rows[0], dtype=torch.float64))
    taus = [abs(vals.get(f'tau{b}', 1.5)) + 1e-3 for b in range(B)]
    prec = Parameter('prec', torch.tensor([[x] for x in taus] if batched else [taus[0]], dtype=torch.float64))
    tree = weights = None
    if kind == 'time-aware':
        hs = torch.tensor([vals.get(f's{i}', 0.0) for i in range(N + 1)] + [vals.get(f'h{i}', 1.0 + i) for i in range(N)],
                          dtype=torch.float64)
        tree = Heights(hs, N + 1)
    elif kind == 'weighted':
        weights = torch.tensor([abs(vals.get(f'w{i}', 1.0 + i)) + 1e-3 for i in range(N - 1)], dtype=torch.float64)
    g = GMRF('gmrf', field, prec, tree, weights, rescale)
    try:
        val = g().reshape(-1)
        Q = g.precision_matrix()
    except Exception as e:
        return True, f'raised {type(e).__name__}: {e}'
    for b in range(B):
        x = torch.tensor(rows[b], dtype=torch.float64)
        Qb = Q[b] if batched else Q
        want = 0.5 * (N - 1) * math.log(taus[b]) - 0.5 * float(x @ Qb @ x) - 0.5 * (N - 1) * math.log(2 * math.pi)
        if abs(float(val[b]) - want) > 1e-9 * max(1.0, abs(want)):
            return True, (f'GMRF() = {float(val[b])} but the quadratic form with precision_matrix() gives {want} '
                          f'(field {rows[b]}, precision {taus[b]})')
    return False, 'agree'


# ------------------------------------------------------------------ (a') GMRF / GMRFGammaIntegrated vs the INTENDED form
# The published precision matrix ignores weights / durations (known finding), so the obligations above never say
# anything about the weighted and time-aware branches of _call: every run ends in the same known signature.  The
# obligations below decide those branches against an oracle that is written independently of the implementation:
#   time-aware:  K_b = D' diag(c_b) D,  c_b,i = [root_b] * 2 / (t_b,i+1 - t_b,i-1)   (t_b = 0 and the sorted internal
#                heights of tree b; the order statistics are an ite sorting network, not the implementation's argsort)
#   weighted:    K_b = D' diag(1 / w_b) D
# for every sample b of a batch, with the REAL TimeTreeModel (symbolic internal heights) as the tree model.
VARIANTS = {
    # name: (batch size, tree/weights batched, precision batched)
    'single': (1, False, False),
    'batch': (2, True, True),
    'batch3': (3, True, True),
    'shared-tree': (2, False, True),  # one tree / one weight vector for the whole batch
    'shared-precision': (2, True, False),
}


def _defined_goals(t, d, sig):
    """well-definedness of everything the run computed (implementation and oracle), one obligation per denominator and
    per log / sqrt argument instead of the Explorer's single conjunction: the sign of every denominator is proved first
    (linear arithmetic for durations / weights), then the sign of its inverse, and these facts are the lemmas for the
    positivity of the log arguments (sums of squares times inverses).  The lemma goals are optional (alternative TRUE);
    the required obligations are denominator != 0 and argument in domain."""
    goals, lemmas = [], []
    for b in dict.fromkeys(t.denominators):
        pos = d.vals[b] > 0
        gb = Goal('a denominator is non-zero (keeps the sign it has at the witness)', d.lt(0, b) if pos else d.lt(b, 0),
                  alts=[d.not_(d.eq(b, 0))], signature=sig + ':well-defined')
        inv = d.div(d.const(1), b)
        li = Goal('lemma: the inverse of a denominator has the sign of the denominator', d.lt(0, inv) if pos else d.lt(inv, 0),
                  alts=[d.TRUE], signature=sig + ':well-defined')
        li.hyp_goals = [gb]
        goals += [gb, li]
        lemmas += [gb, li]
    for kind, x in dict.fromkeys(t.domains):
        node = d.lt(0, x) if kind == 'pos' else d.le(0, x)
        g = Goal('a log / sqrt argument is inside its domain', node, hyps=ground_axioms(d, [node]), signature=sig + ':well-defined')
        g.hyp_goals = list(lemmas)
        goals.append(g)
    return goals


def _witness_order(wvals):
    """the permutation that sorts the witness values of one sample's internal heights (the oracle's own sort)"""
    return sorted(range(len(wvals)), key=lambda i: (wvals[i], i))


def _structure_coefficients(d, kind, N, aux, rescale, order=None):
    """c_i (i = 0..N-2): coefficient of (x_i - x_i+1)^2 in the intended quadratic form.
    time-aware: `order` is a permutation of the internal nodes; the coefficients are those of the coalescent times
    t = (0, aux[order[0]], ..., aux[order[N-1]]), which are the order statistics wherever that sequence is
    non-decreasing (separate obligation, see intended_body)"""
    if kind == 'weighted':
        return [d.div(d.const(1), w) for w in aux]
    ts = [d.const(0)] + [aux[k] for k in order]
    dur = [d.sub(ts[k], ts[k - 1]) for k in range(1, N + 1)]  # N inter-coalescent intervals
    cs = []
    for i in range(N - 1):
        mean = d.div(d.add(dur[i], dur[i + 1]), d.const(2))
        cs.append(d.div(ts[-1] if rescale else d.const(1), mean))
    return cs


def _quadratic_form(d, x, cs):
    """x' K x with K = D' diag(cs) D written out entry by entry (tridiagonal, zero row sums)"""
    N = len(x)
    K = [[d.const(0)] * N for _ in range(N)]
    for i in range(N):
        diag = d.const(0)
        if i > 0:
            diag = d.add(diag, cs[i - 1])
        if i < N - 1:
            diag = d.add(diag, cs[i])
            K[i][i + 1] = K[i + 1][i] = d.neg(cs[i])
        K[i][i] = diag
    quad = d.const(0)
    for i in range(N):
        for j in range(N):
            if abs(i - j) <= 1:
                quad = d.add(quad, d.mul(d.mul(x[i], K[i][j]), x[j]))
    return quad


def _tree_shapes(N):
    """rooted tree shapes with N internal nodes (N+1 taxa) as nested tuples: they differ in which pairs of internal
    nodes are unordered, i.e. in the argsort regions a tree can reach"""
    n = N + 1
    if n == 3:
        return [cm.caterpillar(3)]
    if n == 4:
        return [cm.caterpillar(4), cm.balanced(4)]
    if n == 5:
        return [cm.caterpillar(5), (cm.balanced(4), 4), (((0, 1), 2), (3, 4))]
    if n == 6:
        return [cm.caterpillar(6), ((cm.balanced(4), 4), 5), ((((0, 1), 2), (3, 4)), 5), (cm.caterpillar(4), (4, 5)),
                (cm.balanced(4), (4, 5)), (((0, 1), 2), ((3, 4), 5))]
    raise ValueError(n)


def _tip_dates(N, hetero):
    n = N + 1
    return [0.0] * n if not hetero else [0.0] + [0.125 * (i % 3) for i in range(1, n)]


def _real_tree(N, shape, hetero):
    import torchtree.evolution.taxa  # noqa (registers the short type names)
    import torchtree.evolution.tree_model  # noqa

    dic = {}
    cm.build(cm.taxa_json(N + 1, _tip_dates(N, hetero)), dic)
    tree, _ = cm.build(cm.time_tree_json(shape, N + 1), dic)
    return tree, dic['tree.heights']


def _tree_order(tree):
    """(parent, child) pairs of node indices of the real tree model"""
    return [(int(p), int(c)) for p, c in tree.preorder.tolist()]


def intended_names(model, N, kind, variant):
    B, aux_batched, prec_batched = VARIANTS[variant]
    names = {'x': [[f'x{b}_{i}' for i in range(N)] for b in range(B)]}
    if model == 'gmrf':
        names['tau'] = [f'tau{b}' for b in range(B if prec_batched else 1)]
    else:
        names['tau'] = []
    A = B if aux_batched else 1
    if kind == 'time-aware':
        names['aux'] = [[f'h{b}_{i}' for i in range(N)] for b in range(A)]
    else:
        names['aux'] = [[f'w{b}_{i}' for i in range(N - 1)] for b in range(A)]
    return names


def intended_body(model, N, kind, rescale, variant, shape, hetero):
    from torchtree.core.parameter import Parameter
    from torchtree.distributions import gmrf_integrated as gi
    from torchtree.distributions.gmrf import GMRF

    B, aux_batched, prec_batched = VARIANTS[variant]
    nm = intended_names(model, N, kind, variant)
    batched = B > 1

    def body(t, V, W):
        d = t.dag

        def sym(rows, squeeze):
            ids = [[V[k] for k in r] for r in rows]
            return from_ids(torch.tensor(ids[0] if squeeze else ids, dtype=torch.int64))

        field = Parameter('field', sym(nm['x'], not batched))
        tree = weights = None
        if kind == 'time-aware':
            tree, hp = _real_tree(N, shape, hetero)
            hp.tensor = sym(nm['aux'], not aux_batched)
        else:
            weights = sym(nm['aux'], not aux_batched)
        if model == 'gmrf':
            prec = Parameter('prec', from_ids(torch.tensor([[V[k]] for k in nm['tau']] if (batched and prec_batched) else [V[nm['tau'][0]]],
                                                           dtype=torch.int64)))
            val = GMRF('gmrf', field, prec, tree, weights, rescale)()
        else:
            saved = gi.math
            gi.math = SymMath()
            try:
                val = gi.GMRFGammaIntegrated('g', field, mkfloat(V['alpha']), mkfloat(V['beta']), tree, weights, rescale)()
            finally:
                gi.math = saved
        goals = []
        if tuple(val.shape) != ((B, 1) if batched else (1,)):
            return [Goal(f'{model}: one log density per sample', d.FALSE, signature=f'{SIG[model]}:{kind}:sample-shape')]
        vids = val._ids.reshape(-1).tolist()
        half = d.const((N - 1) / 2)
        for b in range(B):
            x = [V[k] for k in nm['x'][b]]
            auxn = nm['aux'][b if aux_batched else 0]
            aux = [V[k] for k in auxn]
            order = None
            if kind == 'time-aware':
                # the oracle sorts the witness itself; that this order is the sorted one on the whole region (and not only
                # at the witness) is an obligation of its own: it must follow from the domain and the decisions the
                # implementation took (linear arithmetic).  Where it does not, the implementation did not sort this sample.
                order = _witness_order([W[k] for k in auxn])
                chain = [d.le(aux[p], aux[q]) for p, q in zip(order, order[1:])]
                goals.append(Goal(f'[sample {b} of {B}] the decisions taken by the implementation fix the order of the coalescent '
                                  f'times of THIS sample (oracle order {order})', d.and_(*chain) if chain else d.TRUE,
                                  signature=f'{SIG[model]}:{kind}:coalescent-times-not-ordered-per-sample' + (':batched' if batched else '')))
            cs = _structure_coefficients(d, kind, N, aux, rescale, order)
            if model == 'gmrf':
                quad = _quadratic_form(d, x, cs)
            else:
                # x'Kx = sum_i c_i (x_i - x_i+1)^2 (K = D' diag(c) D); the matrix form itself is decided for GMRF() above.
                # Inside the uninterpreted log the solvers need the two arguments in comparable shape.
                quad = d.const(0)
                for i in range(N - 1):
                    df = d.sub(x[i], x[i + 1])
                    quad = d.add(quad, d.mul(cs[i], d.mul(df, df)))
            if model == 'gmrf':
                tau = V[nm['tau'][b if prec_batched else 0]]
                orc = d.add(d.add(d.mul(half, d.log(tau)), d.mul(d.const(-0.5), d.mul(tau, quad))),
                            d.mul(d.neg(half), d.const(LOG2PI)))
                what = 'GMRF() == (N-1)/2 log tau - tau/2 x\'Kx - (N-1)/2 log 2pi'
            else:
                al, be = V['alpha'], V['beta']
                orc = d.add(d.mul(d.neg(half), d.const(math.log(2.0 * math.pi))), d.mul(al, d.log(be)))
                orc = d.add(orc, d.neg(d.uf('lgamma', al)))
                orc = d.add(orc, d.uf('lgamma', d.add(al, half)))
                orc = d.add(orc, d.neg(d.mul(d.add(al, half), d.log(d.add(be, d.mul(d.const(0.5), quad))))))
                what = 'GMRFGammaIntegrated() == closed-form Gamma integral with x\'Kx'
            goal = d.eq(vids[b], orc)
            goals.append(Goal(f'[sample {b} of {B}] {what}, K = intended {kind} structure matrix of THIS sample',
                              goal, hyps=ground_axioms(d, [goal]),
                              signature=f'{SIG[model]}:{kind}:density-vs-intended-structure-matrix' + (':batched' if batched else '')))
        return goals + _defined_goals(t, d, f'{SIG[model]}:{kind}')

    fns = [GMRF._call] if model == 'gmrf' else [gi.GMRFGammaIntegrated._call, gi.GMRFGammaIntegrated.__init__]
    return body, fns


SIG = {'gmrf': 'GMRF', 'integrated': 'GMRFGammaIntegrated'}


def intended_witness(model, N, kind, variant, shape, hetero):
    nm = intended_names(model, N, kind, variant)
    W = {}
    for b, r in enumerate(nm['x']):
        W.update({k: 0.3 * i * i - 0.2 * b + 0.1 * (1 + b) * i + 0.1 for i, k in enumerate(r)})
    for b, k in enumerate(nm['tau']):
        W[k] = 1.7 + b
    if model == 'integrated':
        W.update({'alpha': 1.3, 'beta': 0.7})
    if kind == 'time-aware':
        # heights that respect the tree: a node sits above its children; different root heights per sample
        tree, _ = _real_tree(N, shape, hetero)
        tc = N + 1
        for b, r in enumerate(nm['aux']):
            hv = {}
            tips = tree.sampling_times.tolist()
            for node in tree.tree.postorder_node_iter():
                if node.is_leaf():
                    hv[node.index] = float(tips[node.index])
                else:
                    hv[node.index] = max(hv[c.index] for c in node.child_node_iter()) + 0.5 + 0.25 * ((node.index + b) % 3) + 0.75 * b
            for i, k in enumerate(r):
                W[k] = hv[tc + i]
    else:
        for b, r in enumerate(nm['aux']):
            W.update({k: 0.6 + 0.5 * i + 0.3 * b for i, k in enumerate(r)})
    return W


def intended_domain(model, N, kind, variant, shape, hetero):
    nm = intended_names(model, N, kind, variant)
    order = tips = None
    if kind == 'time-aware':
        tree, _ = _real_tree(N, shape, hetero)
        order = _tree_order(tree)
        tips = [float(v) for v in tree.sampling_times.tolist()]
    tc = N + 1

    def domain(d, V):
        cs = [d.lt(0, V[k]) for k in nm['tau']]
        if model == 'integrated':
            cs += [d.lt(0, V['alpha']), d.lt(0, V['beta'])]
        for r in nm['aux']:
            if kind == 'weighted':
                cs += [d.lt(0, V[k]) for k in r]
                continue
            for p, c in order:  # the heights are those of a tree: every node is older than its children
                cs.append(d.lt(V[r[c - tc]] if c >= tc else d.const(tips[c]), V[r[p - tc]]))
            cs += [d.lt(0, V[k]) for k in r]
            # three coalescent events at the same time make an interval pair of length zero (needs >= 6 taxa)
            for i, j, k in itertools.combinations(range(N), 3):
                cs.append(d.not_(d.and_(d.eq(V[r[i]], V[r[j]]), d.eq(V[r[j]], V[r[k]]))))
        return cs

    return domain


def intended_replay(model, N, kind, rescale, variant, shape, hetero, vals, W):
    """the real classes on plain tensors (real TimeTreeModel) against a float oracle written with sorted() and an explicit
    tridiagonal matrix"""
    from torchtree.core.parameter import Parameter
    from torchtree.distributions.gmrf import GMRF
    from torchtree.distributions.gmrf_integrated import GMRFGammaIntegrated

    B, aux_batched, prec_batched = VARIANTS[variant]
    nm = intended_names(model, N, kind, variant)
    batched = B > 1
    get = lambda k: float(vals[k]) if vals.get(k) is not None else float(W[k])  # noqa
    X = [[get(k) for k in r] for r in nm['x']]
    A = [[get(k) for k in r] for r in nm['aux']]
    taus = [get(k) for k in nm['tau']]
    field = Parameter('field', torch.tensor(X if batched else X[0], dtype=torch.float64))
    tree = weights = None
    if kind == 'time-aware':
        tree, hp = _real_tree(N, shape, hetero)
        hp.tensor = torch.tensor(A if aux_batched else A[0], dtype=torch.float64)
    else:
        weights = torch.tensor(A if aux_batched else A[0], dtype=torch.float64)
    try:
        if model == 'gmrf':
            prec = Parameter('prec', torch.tensor([[v] for v in taus] if (batched and prec_batched) else [taus[0]], dtype=torch.float64))
            val = GMRF('gmrf', field, prec, tree, weights, rescale)()
        else:
            al, be = get('alpha'), get('beta')
            val = GMRFGammaIntegrated('g', field, al, be, tree, weights, rescale)()
    except Exception as e:
        return True, f'raised {type(e).__name__}: {e}'
    if tuple(val.shape) != ((B, 1) if batched else (1,)):
        return True, f'value has shape {tuple(val.shape)} for a batch of {B}'
    val = val.reshape(-1).tolist()
    for b in range(B):
        x = X[b]
        a = A[b if aux_batched else 0]
        if kind == 'weighted':
            cs = [1.0 / w for w in a]
        else:
            ts = [0.0] + sorted(a)
            cs = [(ts[-1] if rescale else 1.0) / ((ts[i + 1] - ts[i - 1]) / 2.0) for i in range(1, N)]
        K = torch.zeros(N, N, dtype=torch.float64)
        for i, c in enumerate(cs):
            K[i, i] += c
            K[i + 1, i + 1] += c
            K[i, i + 1] -= c
            K[i + 1, i] -= c
        xt = torch.tensor(x, dtype=torch.float64)
        quad = float(xt @ K @ xt)
        if model == 'gmrf':
            tau = taus[b if prec_batched else 0]
            want = 0.5 * (N - 1) * math.log(tau) - 0.5 * tau * quad - 0.5 * (N - 1) * math.log(2 * math.pi)
        else:
            want = (-(N - 1) / 2 * math.log(2 * math.pi) + al * math.log(be) - math.lgamma(al) + math.lgamma(al + (N - 1) / 2)
                    - (al + (N - 1) / 2) * math.log(be + quad / 2))
        if not abs(val[b] - want) <= 1e-9 * max(1.0, abs(want)):
            desc = f'internal heights {a}' if kind == 'time-aware' else f'weights {a}'
            return True, (f'sample {b} of {B}: {SIG[model]}() = {val[b]} but the Gaussian quadratic form with the {kind} structure '
                          f'matrix of that sample gives {want} (field {x}, {desc}, rescale={rescale}; all samples: {A})')
    return False, 'agree'


# ------------------------------------------------------------------ (a'') GMRFCovariate
# GMRFCovariate(field, precision, covariates Z [N,P], beta [...,P]): the field minus Z beta is the intrinsic GMRF.  The class
# forwards neither tree model nor weights to GMRF.__init__, so the plain variant is the only one it supports.
COV_VARIANTS = {
    # name: (batch size B or 'N' (= field length: the sample axis collides with the field axis), field batched,
    #        precision batched, beta batched, covariates batched)
    'single': (1, False, False, False, False),
    'batch': (2, True, True, True, False),  # the documented batch shapes: field [B,N], covariates [N,P], beta [B,P]
    'batch-covariates': (2, True, True, True, True),  # covariates [B,N,P]: first branch of the shape test in _call
    'shared-beta': (2, True, True, False, False),  # fixed effect sizes, field / precision sampled
    'shared-beta-square': ('N', True, True, False, False),  # same, as many samples as field entries
    'shared-precision': (2, True, False, True, False),
}
COV_SIG = 'GMRFCovariate'


def cov_names(N, P, variant):
    B, fb, pb, bb, cb = COV_VARIANTS[variant]
    B = N if B == 'N' else B
    return {
        'B': B,
        'x': [[f'x{b}_{i}' for i in range(N)] for b in range(B if fb else 1)],
        'tau': [f'tau{b}' for b in range(B if pb else 1)],
        'beta': [[f'beta{b}_{p}' for p in range(P)] for b in range(B if bb else 1)],
        'z': [[[f'z{b}_{i}_{p}' for p in range(P)] for i in range(N)] for b in range(B if cb else 1)],
    }


def cov_witness(N, P, variant):
    nm = cov_names(N, P, variant)
    W = {}
    for b, r in enumerate(nm['x']):
        W.update({k: 0.3 * i * i - 0.2 * b + 0.1 * (1 + b) * i + 0.1 for i, k in enumerate(r)})
    for b, k in enumerate(nm['tau']):
        W[k] = 1.7 + b
    for b, r in enumerate(nm['beta']):
        W.update({k: 0.4 - 0.7 * p + 0.15 * b for p, k in enumerate(r)})
    for b, m in enumerate(nm['z']):
        for i, r in enumerate(m):
            W.update({k: 0.5 + 0.25 * i * (p + 1) - 0.35 * p + 0.1 * b for p, k in enumerate(r)})
    return W


def _cov_build(N, P, variant, json_list, tensors):
    """the real class through its real from_json (covariates given as a nested list or as a Parameter), then the tensors
    of its four parameters are replaced through the public setter.  tensors: dict x / tau / beta / z -> tensor"""
    import torchtree.core.parameter  # noqa (registers Parameter)
    from torchtree.distributions.gmrf import GMRFCovariate

    zc = [[0.5 + i + 0.1 * p for p in range(P)] for i in range(N)]
    data = {'id': 'gmrfcov', 'type': 'GMRFCovariate',
            'field': {'id': 'field', 'type': 'Parameter', 'tensor': [0.1 * i for i in range(N)]},
            'precision': {'id': 'prec', 'type': 'Parameter', 'tensor': [1.5]},
            'covariates': zc if json_list else {'id': 'covariates', 'type': 'Parameter', 'tensor': zc},
            'beta': {'id': 'beta', 'type': 'Parameter', 'tensor': [0.2] * P}}
    g = GMRFCovariate.from_json(data, {})
    g.field.tensor = tensors['x']
    g.precision.tensor = tensors['tau']
    g.covariates.tensor = tensors['z']
    g.beta.tensor = tensors['beta']
    return g


def covariate_body(N, P, variant, json_list):
    from torchtree.distributions.gmrf import GMRF, GMRFCovariate

    B0, fb, pb, bb, cb = COV_VARIANTS[variant]
    nm = cov_names(N, P, variant)
    B = nm['B']
    batched = B > 1
    bsig = ':batched' if batched else ''

    def body(t, V, W):
        d = t.dag

        def sym(rows):
            return from_ids(torch.tensor(rows, dtype=torch.int64))

        tens = {
            'x': sym([[V[k] for k in r] for r in nm['x']] if fb else [V[k] for k in nm['x'][0]]),
            'tau': sym([[V[k]] for k in nm['tau']] if pb else [V[nm['tau'][0]]]),
            'beta': sym([[V[k] for k in r] for r in nm['beta']] if bb else [V[k] for k in nm['beta'][0]]),
            'z': sym([[[V[k] for k in r] for r in m] for m in nm['z']] if cb else [[V[k] for k in r] for r in nm['z'][0]]),
        }
        g = _cov_build(N, P, variant, json_list, tens)
        try:
            val = g()
            Q = g.precision_matrix()
        except Exception:
            # an exception of the engine stands for the error real torch raises on these shapes only if the real code on plain
            # tensors raises at this very point; otherwise it is a gap of the engine (inconclusive)
            bad, detail = covariate_replay(N, P, variant, json_list, {}, W)
            if not (bad and 'raises' in detail):
                raise
            return [Goal(f'GMRFCovariate() returns a log density ({detail[:160]})', d.FALSE, signature=f'{COV_SIG}{bsig}:raises')]
        if not isinstance(val, SymTensor) or tuple(val.shape) != ((B, 1) if batched else (1,)):
            return [Goal(f'GMRFCovariate(): one log density per sample (value of shape {tuple(val.shape)} for sample shape '
                         f'{[B] if batched else []})', d.FALSE, signature=f'{COV_SIG}{bsig}:sample-shape')]
        vids = val._ids.reshape(-1).tolist()
        half = d.const((N - 1) / 2)
        goals = []
        for b in range(B):
            x = [V[k] for k in nm['x'][b if fb else 0]]
            be = [V[k] for k in nm['beta'][b if bb else 0]]
            Z = [[V[k] for k in r] for r in nm['z'][b if cb else 0]]
            tau = V[nm['tau'][b if pb else 0]]
            # residual field r = x - Z beta, written out by the oracle
            r = []
            for i in range(N):
                zb = d.const(0)
                for p in range(P):
                    zb = d.add(zb, d.mul(Z[i][p], be[p]))
                r.append(d.sub(x[i], zb))
            Qi = (Q[b] if batched else Q)._ids.tolist()
            quad = d.const(0)
            for i in range(N):
                for j in range(N):
                    quad = d.add(quad, d.mul(d.mul(r[i], Qi[i][j]), r[j]))
            orc = d.add(d.add(d.mul(half, d.log(tau)), d.mul(d.const(-0.5), quad)), d.mul(d.neg(half), d.const(LOG2PI)))
            goal = d.eq(vids[b], orc)
            goals.append(Goal(f'[sample {b} of {B}] GMRFCovariate() == Gaussian quadratic form of (field - covariates x beta) with the '
                              f'published precision matrix', goal, hyps=ground_axioms(d, [goal]),
                              signature=f'{COV_SIG}{bsig}:density-vs-precision_matrix'))
            ss = d.const(0)
            for i in range(N - 1):
                df = d.sub(r[i], r[i + 1])
                ss = d.add(ss, d.mul(df, df))
            orc2 = d.add(d.add(d.mul(half, d.log(tau)), d.mul(d.const(-0.5), d.mul(tau, ss))), d.mul(d.neg(half), d.const(LOG2PI)))
            goal2 = d.eq(vids[b], orc2)
            goals.append(Goal(f'[sample {b} of {B}] GMRFCovariate() == (N-1)/2 log tau - tau/2 sum_i (r_i - r_i+1)^2 - (N-1)/2 log 2pi, '
                              f'r = field - covariates x beta of THIS sample (intended first-order structure matrix)', goal2,
                              hyps=ground_axioms(d, [goal2]), signature=f'{COV_SIG}{bsig}:density-vs-intended-structure-matrix'))
            symz = d.and_(*([d.eq(Qi[i][j], Qi[j][i]) for i in range(N) for j in range(i)]
                            + [d.eq(functools.reduce(d.add, Qi[i]), d.const(0)) for i in range(N)]))
            goals.append(Goal(f'[sample {b} of {B}] published precision matrix symmetric with zero row sums', symz,
                              signature=f'{COV_SIG}{bsig}:precision-structure'))
        return goals

    return body, [GMRFCovariate._call, GMRFCovariate.from_json, GMRF.precision_matrix]


def covariate_replay(N, P, variant, json_list, vals, W):
    """the real class on plain tensors against a float oracle (explicit tridiagonal matrix, residuals by python loops)"""
    B0, fb, pb, bb, cb = COV_VARIANTS[variant]
    nm = cov_names(N, P, variant)
    B = nm['B']
    batched = B > 1
    get = lambda k: float(vals[k]) if vals.get(k) is not None else float(W[k])  # noqa
    X = [[get(k) for k in r] for r in nm['x']]
    T = [abs(get(k)) + 1e-9 for k in nm['tau']]
    BE = [[get(k) for k in r] for r in nm['beta']]
    Z = [[[get(k) for k in r] for r in m] for m in nm['z']]
    f64 = lambda v: torch.tensor(v, dtype=torch.float64)  # noqa
    tens = {'x': f64(X if fb else X[0]), 'tau': f64([[v] for v in T] if pb else [T[0]]), 'beta': f64(BE if bb else BE[0]),
            'z': f64(Z if cb else Z[0])}
    shapes = {k: list(v.shape) for k, v in tens.items()}
    try:
        val = _cov_build(N, P, variant, json_list, tens)()
    except Exception as e:
        return True, (f'GMRFCovariate() raises {type(e).__name__}: {str(e)[:120]} (shapes: field {shapes["x"]}, precision '
                      f'{shapes["tau"]}, covariates {shapes["z"]}, beta {shapes["beta"]})')
    if tuple(val.shape) != ((B, 1) if batched else (1,)):
        return True, (f'GMRFCovariate() returns a tensor of shape {list(val.shape)} for sample shape {[B] if batched else []} '
                      f'(shapes: field {shapes["x"]}, precision {shapes["tau"]}, covariates {shapes["z"]}, beta {shapes["beta"]})')
    val = val.reshape(-1).tolist()
    for b in range(B):
        x, be, z, tau = X[b if fb else 0], BE[b if bb else 0], Z[b if cb else 0], T[b if pb else 0]
        r = [x[i] - sum(z[i][p] * be[p] for p in range(P)) for i in range(N)]
        ss = sum((r[i] - r[i + 1]) ** 2 for i in range(N - 1))
        want = 0.5 * (N - 1) * math.log(tau) - 0.5 * tau * ss - 0.5 * (N - 1) * math.log(2 * math.pi)
        if not abs(val[b] - want) <= 1e-9 * max(1.0, abs(want)):
            return True, (f'sample {b} of {B}: GMRFCovariate() = {val[b]} but the intrinsic GMRF density of field - covariates x beta '
                          f'is {want} (field {x}, covariates {z}, beta {be}, precision {tau})')
    return False, 'agree'


# ------------------------------------------------------------------ (b) GMRFGammaIntegrated
def integrated_body(N, time_aware=None):
    """time_aware: None (plain) or the value of the rescale flag (time-aware variant: must integrate the SAME weighted
    quadratic form as GMRF() with that flag)"""
    from torchtree.core.parameter import Parameter
    from torchtree.distributions import gmrf_integrated as gi
    from torchtree.distributions.gmrf import GMRF

    def body(t, V, W):
        d = t.dag
        saved = gi.math
        gi.math = SymMath()
        try:
            field = Parameter('field', cm.var_tensor(V, [f'x{i}' for i in range(N)]))
            a = mkfloat(V['alpha'])
            bta = mkfloat(V['beta'])
            tree = None
            if time_aware is not None:
                hs = from_ids(torch.tensor([V[f's{i}'] for i in range(N + 1)] + [V[f'h{i}'] for i in range(N)], dtype=torch.int64))
                tree = Heights(hs, N + 1)
            m = gi.GMRFGammaIntegrated('g', field, a, bta, tree, None, time_aware if time_aware is not None else True)
            val = m()
        finally:
            gi.math = saved
        x = [V[f'x{i}'] for i in range(N)]
        ss = 0
        if time_aware is None:
            for i in range(N - 1):
                df = d.sub(x[i + 1], x[i])
                ss = d.add(ss, d.mul(df, df))
        else:
            # the weighted sum of squares is taken from the (non-integrated) GMRF with the same flag and precision 1:
            # GMRF() = (N-1)/2 log 1 - ss/2 - (N-1)/2 log 2pi   =>   ss = -2 (GMRF() + (N-1)/2 log 2pi)
            one = Parameter('one', torch.ones(1, dtype=torch.float64))
            g = GMRF('gm', Parameter('f2', cm.var_tensor(V, [f'x{i}' for i in range(N)])), one, Heights(hs, N + 1), None, time_aware)
            gv = sid(g())
            ss = d.mul(d.const(-2), d.add(gv, d.mul(d.const((N - 1) / 2), d.const(LOG2PI))))
        al, be = V['alpha'], V['beta']
        half = d.const((N - 1) / 2)
        # log[(2pi)^-(N-1)/2 beta^alpha / Gamma(alpha) Gamma(alpha + (N-1)/2) (beta + ss/2)^-(alpha+(N-1)/2)]
        orc = d.add(d.mul(d.neg(half), d.const(math.log(2.0 * math.pi))), d.mul(al, d.log(be)))
        orc = d.add(orc, d.neg(d.uf('lgamma', al)))
        orc = d.add(orc, d.uf('lgamma', d.add(al, half)))
        orc = d.add(orc, d.neg(d.mul(d.add(al, half), d.log(d.add(be, d.mul(d.const(0.5), ss))))))
        goal = d.eq(sid(val), orc)
        return [Goal('GMRFGammaIntegrated() == log of the closed-form Gamma integral of GMRF x Gamma(precision)', goal,
                     hyps=ground_axioms(d, [goal]), signature='GMRFGammaIntegrated:closed-form')]

    return body, [gi.GMRFGammaIntegrated._call, gi.GMRFGammaIntegrated.__init__]


def integrated_time_replay(N, rescale, vals):
    from torchtree.core.parameter import Parameter
    from torchtree.distributions.gmrf import GMRF
    from torchtree.distributions.gmrf_integrated import GMRFGammaIntegrated

    x = torch.tensor([vals.get(f'x{i}', 0.3 * i) for i in range(N)], dtype=torch.float64)
    a = abs(vals.get('alpha', 1.2)) + 0.05
    b = abs(vals.get('beta', 0.7)) + 0.05
    hs = torch.tensor([0.0] * (N + 1) + sorted(abs(vals.get(f'h{i}', 1.0 + i)) + 0.1 * (i + 1) for i in range(N)), dtype=torch.float64)
    got = float(GMRFGammaIntegrated('g', Parameter('f', x), a, b, Heights(hs, N + 1), None, rescale)())
    gm = float(GMRF('gm', Parameter('f2', x.clone()), Parameter('one', torch.ones(1, dtype=torch.float64)), Heights(hs, N + 1), None, rescale)())
    ss = -2 * (gm + (N - 1) / 2 * math.log(2 * math.pi))
    want = (-(N - 1) / 2 * math.log(2 * math.pi) + a * math.log(b) - math.lgamma(a) + math.lgamma(a + (N - 1) / 2)
            - (a + (N - 1) / 2) * math.log(b + ss / 2))
    if abs(got - want) > 1e-9 * max(1.0, abs(want)):
        return True, (f'GMRFGammaIntegrated(tree_model, rescale={rescale}) = {got} but integrating the GMRF density with the same flag '
                      f'gives {want}')
    return False, 'agree'


def integrated_replay(N, vals):
    import mpmath as mp

    from torchtree.core.parameter import Parameter
    from torchtree.distributions.gmrf_integrated import GMRFGammaIntegrated

    x = [vals.get(f'x{i}', 0.3 * i) for i in range(N)]
    a = abs(vals.get('alpha', 1.2)) + 0.05
    b = abs(vals.get('beta', 0.7)) + 0.05
    m = GMRFGammaIntegrated('g', Parameter('f', torch.tensor(x, dtype=torch.float64)), a, b)
    got = float(m())
    ss = sum((x[i + 1] - x[i]) ** 2 for i in range(N - 1))

    def integrand(tau):
        return (mp.mpf(b) ** a / mp.gamma(a) * tau ** (a - 1) * mp.e ** (-b * tau)
                * (tau / (2 * mp.pi)) ** (mp.mpf(N - 1) / 2) * mp.e ** (-tau * ss / 2))

    want = float(mp.log(mp.quad(integrand, [0, 1, 10, mp.inf])))
    if abs(got - want) > 1e-7 * max(1.0, abs(want)):
        return True, f'GMRFGammaIntegrated() = {got} but numerical integration gives {want} (alpha={a}, beta={b}, x={x})'
    return False, 'agree with quadrature'


# ------------------------------------------------------------------ (c) ConstantCoalescentIntegrated
def _coalint_goals(d, vid, al, be, stat_id, n, who, sig='ConstantCoalescentIntegrated:closed-form'):
    """vid: node of the value; stat_id: node of sum_i C(k_i,2) dt_i.  Two statements of the closed form:
    (1) a log b - lgamma(a) + lgamma(a + n-1) - (a + n-1) log(b + stat)            (lgamma uninterpreted: decides its arguments)
    (2) a log b + sum_{i<n-1} log(a + i) - (a + n-1) log(b + stat)                 (no lgamma: Gamma(a+n-1)/Gamma(a) written as
        the rising factorial; the implementation's two lgamma terms are connected to it by the n-1 instances
        lgamma(a+i+1) = lgamma(a+i) + log(a+i) of the Gamma recurrence, which are the only hypotheses about lgamma)"""
    N = d.const(n - 1)
    orc = d.add(d.mul(al, d.log(be)), d.neg(d.uf('lgamma', al)))
    orc = d.add(orc, d.uf('lgamma', d.add(al, N)))
    orc = d.add(orc, d.neg(d.mul(d.add(al, N), d.log(d.add(be, stat_id)))))
    goal = d.eq(vid, orc)
    goals = [Goal(f'{who} == log of the closed-form inverse-gamma integral', goal, hyps=ground_axioms(d, [goal]), signature=sig)]
    rec = []
    rising = d.const(0)
    for i in range(n - 1):
        ai = d.add(al, d.const(i)) if i else al
        rec.append(d.eq(d.uf('lgamma', d.add(al, d.const(i + 1))), d.add(d.uf('lgamma', ai), d.log(ai))))
        rising = d.add(rising, d.log(ai))
    orc2 = d.add(d.add(d.mul(al, d.log(be)), rising), d.neg(d.mul(d.add(al, N), d.log(d.add(be, stat_id)))))
    goal2 = d.eq(vid, orc2)
    goals.append(Goal(f'{who} == a log b + sum_(i<{n - 1}) log(a+i) - (a+{n - 1}) log(b + sum C(k,2) dt)  (rising-factorial form, Gamma '
                      f'recurrence instances as the only facts about lgamma)', goal2, hyps=rec + ground_axioms(d, [goal2]),
                      signature=sig + ':rising-factorial'))
    return goals


def coal_integrated_body(n, mode='float'):
    """mode: how the prior parameters reach the distribution: 'float' (python floats, as the model class / the CLI pass them),
    'tensor' (one-element tensors: math.log / math.lgamma convert them like .item()), 'batched' (python floats, node heights of
    shape [2, 2n-1]: one density per tree)"""
    import C08
    from symtorch.ext_c15 import SymMath15
    from torchtree.evolution import coalescent as co

    B = 2 if mode == 'batched' else 1

    def body(t, V, W):
        d = t.dag
        saved = co.math
        co.math = SymMath15() if mode == 'tensor' else SymMath()
        try:
            rows = []
            for b in range(B):
                Vb = {k: V[_row(b, k)] for k in [f's{i}' for i in range(n)] + [f'c{j}' for j in range(n - 1)]}
                rows.append(C08._heights(Vb, W, n, t))
            h = rows[0][0] if B == 1 else from_ids(torch.stack([r[0]._ids for r in rows]))
            if mode == 'tensor':
                a_, b_ = from_ids(torch.tensor([V['alpha']], dtype=torch.int64)), from_ids(torch.tensor([V['beta']], dtype=torch.int64))
            else:
                a_, b_ = mkfloat(V['alpha']), mkfloat(V['beta'])
            dist = co.ConstantCoalescentIntegrated(a_, b_, validate_args=False)
            val = dist.log_prob(h)
        finally:
            co.math = saved
        if tuple(val.shape) != ((B, 1) if B > 1 else (1,)):
            return [Goal(f'ConstantCoalescentIntegrated.log_prob: one log density per tree (shape {list(val.shape)})', d.FALSE,
                         signature='ConstantCoalescentIntegrated:sample-shape')]
        goals = []
        for b in range(B):
            # sufficient statistic sum_i C(k_i,2) dt_i through the independent event-list evaluator (theta = 1, no log terms)
            stat = C08.kingman_oracle(rows[b][1], rows[b][2], [], lambda p, a, b: (b - a), lambda p, c: 0.0)
            stat_id = d.neg(SymFloat._id(stat))
            who = 'ConstantCoalescentIntegrated.log_prob' + (f' [tree {b} of {B}]' if B > 1 else '') + \
                  (' (alpha, beta one-element tensors)' if mode == 'tensor' else '')
            goals += _coalint_goals(d, int(val._ids.reshape(-1)[b]), V['alpha'], V['beta'], stat_id, n, who)
        return goals

    return body, [co.ConstantCoalescentIntegrated.log_prob]


def coalint_model_body(N, shape, hetero, batched):
    """ConstantCoalescentIntegratedModel built by its from_json on a real TimeTreeModel (symbolic internal heights, concrete
    tip dates); alpha / beta arrive as the JSON numbers and are then replaced by symbols (public attributes)"""
    from torchtree.evolution import coalescent as co

    n = N + 1
    B = 2 if batched else 1

    def body(t, V, W):
        d = t.dag
        import torchtree.evolution.taxa  # noqa
        import torchtree.evolution.tree_model  # noqa

        dic = {}
        cm.build(cm.taxa_json(n, _tip_dates(N, hetero)), dic)
        model, _ = cm.build({'id': 'coalescent', 'type': 'ConstantCoalescentIntegratedModel', 'alpha': 3, 'beta': 0.003,
                             'tree_model': cm.time_tree_json(shape, n)}, dic)
        rows = [[V[f'h{b}_{i}'] for i in range(N)] for b in range(B)]
        dic['tree.heights'].tensor = from_ids(torch.tensor(rows if batched else rows[0], dtype=torch.int64))
        tips = [float(v) for v in model.tree_model.sampling_times.tolist()]
        saved = co.math
        co.math = SymMath()
        try:
            model.alpha, model.beta = mkfloat(V['alpha']), mkfloat(V['beta'])
            val = model()
        finally:
            co.math = saved
        if tuple(val.shape) != ((B, 1) if batched else (1,)) or tuple(model.sample_shape) != ((B,) if batched else ()):
            return [Goal(f'ConstantCoalescentIntegratedModel(): one log density per tree (shape {list(val.shape)})', d.FALSE,
                         signature='ConstantCoalescentIntegrated:sample-shape')]
        goals = []
        for b in range(B):
            oss, _ = interval_oracle(tips, [mkfloat(x) for x in rows[b]], [], 1, False)
            who = f'ConstantCoalescentIntegratedModel() [tree {b} of {B}]'
            goals += _coalint_goals(d, int(val._ids.reshape(-1)[b]), V['alpha'], V['beta'], SymFloat._id(oss[0]), n, who)
        return goals

    return body, [co.ConstantCoalescentIntegrated.log_prob, co.ConstantCoalescentIntegratedModel._call,
                  co.ConstantCoalescentIntegratedModel.from_json]


def coalint_model_replay(N, shape, hetero, batched, vals, W):
    import mpmath as mp

    n = N + 1
    B = 2 if batched else 1
    get = lambda k: float(vals[k]) if vals.get(k) is not None else float(W[k])  # noqa
    a, be = abs(get('alpha')) + 1e-9, abs(get('beta')) + 1e-9
    rows = [[get(f'h{b}_{i}') for i in range(N)] for b in range(B)]
    dic = {}
    cm.build(cm.taxa_json(n, _tip_dates(N, hetero)), dic)
    try:
        model, _ = cm.build({'id': 'coalescent', 'type': 'ConstantCoalescentIntegratedModel', 'alpha': a, 'beta': be,
                             'tree_model': cm.time_tree_json(shape, n)}, dic)
        dic['tree.heights'].tensor = torch.tensor(rows if batched else rows[0], dtype=torch.float64)
        val = model()
    except Exception as e:
        return True, f'raised {type(e).__name__}: {str(e)[:160]}'
    if tuple(val.shape) != ((B, 1) if batched else (1,)):
        return True, f'value of shape {list(val.shape)} for {B} tree(s)'
    tips = [float(v) for v in model.tree_model.sampling_times.tolist()]
    for b in range(B):
        oss, _ = interval_oracle(tips, rows[b], [], 1, False)
        stat = oss[0]
        # int_0^inf InvGamma(theta; a, b) theta^-(n-1) exp(-stat/theta) dtheta by quadrature
        f = lambda th: mp.mpf(be) ** a / mp.gamma(a) * th ** (-a - 1) * mp.e ** (-be / th) * th ** (-(n - 1)) * mp.e ** (-stat / th)  # noqa
        want = float(mp.log(mp.quad(f, [0, 0.5, 2, 10, mp.inf])))
        got = float(val.reshape(-1)[b])
        if abs(got - want) > 1e-6 * max(1.0, abs(want)):
            return True, (f'tree {b}: ConstantCoalescentIntegratedModel() = {got} but numerical integration of inverse-gamma x constant '
                          f'coalescent gives {want} (alpha={a}, beta={be}, internal heights {rows[b]}, tip dates {tips})')
    return False, 'agree with quadrature'


def coal_integrated_replay(n, vals, mode='float'):
    import mpmath as mp

    from torchtree.evolution.coalescent import ConstantCoalescent, ConstantCoalescentIntegrated

    a = abs(vals.get('alpha', 1.2)) + 0.05
    b = abs(vals.get('beta', 0.7)) + 0.05
    if mode == 'batched':
        H = torch.tensor([[vals.get(_row(r, f's{i}'), 0.0) for i in range(n)] + [vals.get(_row(r, f'c{j}'), 1.0 + j + 0.5 * r) for j in range(n - 1)]
                          for r in range(2)], dtype=torch.float64)
        try:
            both = ConstantCoalescentIntegrated(a, b).log_prob(H)
        except Exception as e:
            return True, f'raised {type(e).__name__}: {str(e)[:160]}'
        if tuple(both.shape) != (2, 1):
            return True, f'log_prob of a batch of 2 trees has shape {list(both.shape)}'
        for r in range(2):
            one = float(ConstantCoalescentIntegrated(a, b).log_prob(H[r]))
            if abs(float(both[r]) - one) > 1e-9 * max(1.0, abs(one)):
                return True, f'tree {r} of the batch: log_prob = {float(both[r])} but that tree alone gives {one}'
        vals = {k: v for k, v in vals.items() if not k.startswith('b1.')}
    h = torch.tensor([vals.get(f's{i}', 0.0) for i in range(n)] + [vals.get(f'c{j}', 1.0 + j) for j in range(n - 1)],
                     dtype=torch.float64)
    if mode == 'tensor':
        got = float(ConstantCoalescentIntegrated(torch.tensor([a], dtype=torch.float64), torch.tensor([b], dtype=torch.float64)).log_prob(h))
    else:
        got = float(ConstantCoalescentIntegrated(a, b).log_prob(h))

    def integrand(theta):
        lp = float(ConstantCoalescent(torch.tensor([float(theta)], dtype=torch.float64)).log_prob(h))
        return mp.mpf(b) ** a / mp.gamma(a) * theta ** (-a - 1) * mp.e ** (-b / theta) * mp.e ** lp

    want = float(mp.log(mp.quad(integrand, [0, 0.5, 2, 10, mp.inf])))
    if abs(got - want) > 1e-6 * max(1.0, abs(want)):
        return True, f'ConstantCoalescentIntegrated.log_prob = {got} but numerical integration gives {want}'
    return False, 'agree with quadrature'


# ------------------------------------------------------------------ (d) sufficient statistics
def suffstat_body(model, n, G):
    import C08
    from torchtree.evolution import coalescent as co

    def body(t, V, W):
        d = t.dag
        h, S, C = C08._heights(V, W, n, t)
        if model == 'skyride':
            theta = cm.var_tensor(V, [f'theta{k}' for k in range(n - 1)])
            dist = co.PiecewiseConstantCoalescent(theta, validate_args=False)
        else:
            theta = cm.var_tensor(V, [f'theta{k}' for k in range(G + 1)])
            grid = cm.var_tensor(V, [f'g{k}' for k in range(G)])
            dist = co.PiecewiseConstantCoalescentGrid(theta, grid, validate_args=False)
        lp = dist.log_prob(h)
        ss, counts = dist.sufficient_statistics(h)
        ssi = ss._ids.reshape(-1).tolist() if isinstance(ss, SymTensor) else [d.const(float(v)) for v in ss.reshape(-1).tolist()]
        ci = counts._ids.reshape(-1).tolist() if isinstance(counts, SymTensor) else [d.const(float(v)) for v in counts.reshape(-1).tolist()]
        th = theta._ids.tolist()
        if not (len(ssi) == len(ci) == len(th)):
            return [Goal(f'{model}: one sufficient statistic and one count per population size', d.FALSE,
                         signature=f'{model}:sufficient_statistics-shape')]
        rec = 0
        for s_, c_, t_ in zip(ssi, ci, th):
            rec = d.sub(rec, d.div(s_, t_))
            rec = d.sub(rec, d.mul(c_, d.log(t_)))
        goal = d.eq(sid(lp), rec)
        return [Goal(f'{model}: -sum ss_k/theta_k - sum c_k log theta_k == log_prob', goal, hyps=ground_axioms(d, [goal]),
                     signature=f'{model}:sufficient_statistics')]

    cls = co.PiecewiseConstantCoalescent if model == 'skyride' else co.PiecewiseConstantCoalescentGrid
    return body, [cls.sufficient_statistics, cls.log_prob]


def suffstat_replay(model, n, G, vals):
    from torchtree.evolution import coalescent as co

    h = torch.tensor([vals.get(f's{i}', 0.0) for i in range(n)] + [vals.get(f'c{j}', 1.0 + j) for j in range(n - 1)],
                     dtype=torch.float64)
    if model == 'skyride':
        th = torch.tensor([abs(vals.get(f'theta{k}', 1.5)) + 1e-3 for k in range(n - 1)], dtype=torch.float64)
        dist = co.PiecewiseConstantCoalescent(th)
    else:
        th = torch.tensor([abs(vals.get(f'theta{k}', 1.5)) + 1e-3 for k in range(G + 1)], dtype=torch.float64)
        gr = torch.tensor([vals.get(f'g{k}', 1.0 + k) for k in range(G)], dtype=torch.float64)
        dist = co.PiecewiseConstantCoalescentGrid(th, gr)
    try:
        lp = float(dist.log_prob(h))
        ss, cnt = dist.sufficient_statistics(h)
    except Exception as e:
        return True, f'raised {type(e).__name__}: {e}'
    if ss.shape != th.shape or cnt.shape != th.shape:
        return True, f'sufficient statistics shapes {tuple(ss.shape)}, {tuple(cnt.shape)} vs {tuple(th.shape)} population sizes'
    rec = float(-(ss.to(torch.float64) / th).sum() - (cnt.to(torch.float64) * th.log()).sum())
    if abs(rec - lp) > 1e-9 * max(1.0, abs(lp)):
        return True, f'log_prob = {lp} but the sufficient statistics give {rec}'
    return False, 'agree'


def ss_batched_task(task, tr):
    """batched sufficient statistics: row b of the statistics of a batch equals the statistics of row b alone
    (two trees whose rows interleave sampling and coalescent events differently)"""
    from symtorch import tracing
    from torchtree.evolution import coalescent as co

    _, n = task
    label = f'sufficient statistics skyride, batch of 2 trees, n={n}'
    tr.fn(co.PiecewiseConstantCoalescent.sufficient_statistics)
    with tracing() as t:
        d = t.dag
        # row 0: all samples at 0; row 1: one tip sampled after the first coalescence
        # (>= 2 lineages are alive in the interval whose position differs between the rows)
        rows = [[0.0, 0.0, 0.0, 0.0, 1.0, 2.0, 3.0], [0.0, 0.0, 0.0, 1.5, 1.0, 2.0, 3.0]]
        assert n == 4
        hv = [new_vars(f'h{b}', torch.tensor(rows[b], dtype=torch.float64)) for b in range(2)]
        th = [new_vars(f'theta{b}', torch.tensor([1.5 + b, 2.5 + b, 3.5 + b], dtype=torch.float64)) for b in range(2)]
        H = from_ids(torch.stack([x._ids for x in hv]))
        TH = from_ids(torch.stack([x._ids for x in th]))
        try:
            ssb, cb = co.PiecewiseConstantCoalescent(TH, validate_args=False).sufficient_statistics(H)
        except Exception as e:
            tr.notes.append(f'{label}: raises {type(e).__name__} (accepted: fails loudly)')
            tr.obligation('raises:' + label, nontrivial=False)
            tr.regions += 1
            return
        goals = []
        for b in range(2):
            s1, c1 = co.PiecewiseConstantCoalescent(th[b], validate_args=False).sufficient_statistics(hv[b])
            a_ = ssb[b]._ids.reshape(-1).tolist() if isinstance(ssb, SymTensor) else [d.const(float(v)) for v in ssb[b].reshape(-1).tolist()]
            b_ = s1._ids.reshape(-1).tolist() if isinstance(s1, SymTensor) else [d.const(float(v)) for v in s1.reshape(-1).tolist()]
            goals.append((f'row {b}: batched sufficient statistics == statistics of that tree alone',
                          d.and_(*[d.eq(x, y) for x, y in zip(a_, b_)]) if len(a_) == len(b_) else d.FALSE, [],
                          'skyride:sufficient_statistics:batched'))
        tr.witness_runs += 1
        tr.regions += 1
        V = {d.args[i][0]: i for g in goals for i in d.topo([g[1]]) if d.ops[i] == 'var'}

        def rp(vals):
            Hh = torch.tensor([[vals.get(f'h{b}[{i}]', rows[b][i]) for i in range(2 * n - 1)] for b in range(2)], dtype=torch.float64)
            Tt = torch.tensor([[abs(vals.get(f'theta{b}[{i}]', 1.5 + b + i)) + 1e-3 for i in range(n - 1)] for b in range(2)], dtype=torch.float64)
            sb, _ = co.PiecewiseConstantCoalescent(Tt).sufficient_statistics(Hh)
            for b in range(2):
                s1, _ = co.PiecewiseConstantCoalescent(Tt[b]).sufficient_statistics(Hh[b])
                if not torch.allclose(sb[b].to(torch.float64), s1.to(torch.float64), rtol=1e-9, atol=1e-12):
                    return True, f'row {b}: batched statistics {sb[b].tolist()} but that tree alone gives {s1.tolist()}'
            return False, 'agree'

        cm.discharge(tr, d, list(t.pcs), goals, label, replay=rp, varnodes=V, defined=False, timeout=30, parallel=True)


# ------------------------------------------------------------------ (d') ties, grids beyond the root, the consumer
# Task ('ss2', model, n, G, perm, opts); opts is a tuple of (key, value) pairs:
#   alias   ((a, b), ...)   input a IS input b (one symbol): a grid point equal to a sampling time / a coalescent time, a
#                           sampling time equal to a coalescent time.  torch's own tie-breaking then runs on exactly equal
#                           values (regions are closed sets, so without aliasing the behaviour AT the tie is never executed)
#   beyond  True            every grid point lies beyond the root (all statistics fall into the first interval)
#   iso     True            all tips share one symbolic sampling time (aliases s_i = s_0)
#   via     'direct' | 'operator' | 'operator-batched'
#                           direct: sufficient_statistics() is called by the harness
#                           operator: the real GMRFPiecewiseCoalescentBlockUpdatingOperator (_step and __call__) runs on the
#                           real models (theta = exp(field) through the real TransformedParameter, as the CLI wires it) and the
#                           arguments it hands to its Newton iteration (counts, statistics, field, precision matrix: the
#                           quantities it builds the Gaussian proposal from) are captured
#   gmrf    'plain' | 'time-aware'      (operator routes; time-aware = the CLI's default for skyride)
#   cfg     int             operator-batched: which pair of trees (see SS2_BATCH_CONFIGS)
class _Captured(Exception):
    pass


GAMMA_BOUND = 20


def interval_oracle(samp, coal, breaks, K, by_rank):
    """per-interval sufficient statistic  int C(k(t),2) dt  and number of coalescent events, by one pass over the merged
    event list (ties: sampling, then coalescent, then break: a coalescence exactly on a break belongs to the interval
    that ends there - N(t) = theta[#breaks < t], the convention C08 validates log_prob against).  by_rank (skyride):
    the j-th coalescence ends interval j."""
    ev = [(t, 0, i, +1) for i, t in enumerate(samp)] + [(t, 1, i, -1) for i, t in enumerate(coal)] + \
         [(t, 2, i, 0) for i, t in enumerate(breaks)]

    def cmp(x, y):
        if (x[1], x[2]) <= (y[1], y[2]):
            return -1 if x[0] <= y[0] else 1
        return 1 if y[0] <= x[0] else -1

    ev.sort(key=functools.cmp_to_key(cmp))
    ss = [0.0] * K
    cnt = [0] * K
    k = piece = rank = 0
    for pos, (t, kind, i, mark) in enumerate(ev):
        if kind == 1:
            cnt[min(rank if by_rank else piece, K - 1)] += 1
            rank += 1
        k += mark
        if kind == 2:
            piece += 1
        if pos + 1 < len(ev) and k >= 2:
            ss[min(piece, K - 1)] = ss[min(piece, K - 1)] + (k * (k - 1) / 2.0) * (ev[pos + 1][0] - t)
    return ss, cnt


# operator-batched: (sampling order of tree 0, of tree 1, factor applied to the heights of tree 1, grid points)
SS2_BATCH_CONFIGS = [
    ((0, 1, 2), (2, 0, 1), 0.5, (1.3, 2.6)),  # grid inside both trees, different interleavings
    ((0, 1, 2), (1, 2, 0), 0.2, (1.3, 2.6)),  # grid inside tree 0, entirely beyond the root of tree 1
    ((2, 1, 0), (0, 2, 1), 1.5, (2.2, 6.5)),  # last grid point beyond both roots
    ((0, 1, 2, 3), (3, 1, 0, 2), 0.4, (1.3, 2.9)),
    ((1, 0, 3, 2), (0, 1, 2, 3), 0.15, (1.3, 2.9)),
]


def ss2_opts(opts, n=0):
    o = dict(opts)
    o.setdefault('via', 'direct')
    o.setdefault('alias', ())
    o.setdefault('gmrf', 'plain')
    if o.get('iso'):  # all tips sampled at the same (symbolic) time
        o['alias'] = tuple(o['alias']) + tuple((f's{i}', 's0') for i in range(1, n))
    return o


def ss2_rows(o):
    return 2 if o['via'] == 'operator-batched' else 1


def _row(b, name):
    return name if b == 0 else f'b{b}.{name}'


def ss2_expand(V, o):
    """name -> node (or value) including the aliased names"""
    V2 = dict(V)
    for a, b in o['alias']:
        V2[a] = V2[b]
    return V2


def ss2_witness(model, n, G, perm, o):
    import C08

    K = (n - 1) if model == 'skyride' else G + 1
    Gm = G if model == 'skygrid' else 0
    W = {}
    if o['via'] == 'operator-batched':
        p0, p1, f1, gv = SS2_BATCH_CONFIGS[o['cfg']]
        for b, (pp, f) in enumerate(((p0, 1.0), (p1, f1))):
            Wb = C08.initial_witness(n, pp, 0, 0)
            W.update({_row(b, k): v * f for k, v in Wb.items()})
        W.update({f'g{k}': gv[k] for k in range(Gm)})
    else:
        W = C08.initial_witness(n, perm, Gm, K if o['via'] == 'direct' else 0)
        if o.get('beyond'):
            for k in range(Gm):
                W[f'g{k}'] = W[f'c{n - 2}'] + 0.7 + 1.1 * k
    if o['via'] != 'direct':
        for b in range(ss2_rows(o)):
            W.update({_row(b, f'gamma{k}'): 0.4 + 0.35 * k - 0.2 * ((k + b) % 2) + 0.3 * b for k in range(K)})
            W[_row(b, 'tau')] = 1.7 + b
            W[_row(b, 'taunew')] = 2.3 + 0.5 * b
    for a, _ in o['alias']:
        del W[a]
    full = ss2_expand(W, o)
    for k in range(1, Gm):  # keep the grid increasing after aliasing
        if f'g{k}' in W and full[f'g{k}'] < full[f'g{k - 1}'] + 0.3:
            W[f'g{k}'] = full[f'g{k}'] = full[f'g{k - 1}'] + 0.45
    return W


def ss2_domain(model, n, G, perm, o):
    import C08

    Gm = G if model == 'skygrid' else 0

    def domain(d, V0):
        V = ss2_expand(V0, o)
        cs = []
        for b in range(ss2_rows(o)):
            Vb = {k: V[_row(b, k)] for k in [f's{i}' for i in range(n)] + [f'c{j}' for j in range(n - 1)]}
            pp = perm if o['via'] != 'operator-batched' else SS2_BATCH_CONFIGS[o['cfg']][b]
            cs += C08.coalescent_domain(d, Vb, n, C08.order_constraint(d, Vb, pp))
            if o['via'] != 'direct':
                cs += [d.lt(0, V[_row(b, 'tau')]), d.lt(0, V[_row(b, 'taunew')])]
                # theta = exp(field) must stay a positive double in the witness run (the distributions validate theta > 0)
                for k in range((n - 1) if model == 'skyride' else G + 1):
                    cs += [d.le(d.const(-GAMMA_BOUND), V[_row(b, f'gamma{k}')]), d.le(V[_row(b, f'gamma{k}')], d.const(GAMMA_BOUND))]
            if o['gmrf'] == 'time-aware':
                # durations of the time-aware GMRF are denominators: distinct coalescent times, first one after time 0
                cj = [Vb[f'c{j}'] for j in range(n - 1)]
                cs += [d.lt(0, c) for c in cj] + [d.not_(d.eq(cj[i], cj[j])) for i in range(n - 1) for j in range(i)]
        for k in range(Gm):
            cs.append(d.lt(0, V[f'g{k}']))
            if k:
                cs.append(d.le(V[f'g{k - 1}'], V[f'g{k}']))
        if o['via'] == 'direct':
            cs += [d.lt(0, V[k]) for k in V if k.startswith('theta')]
        if o.get('beyond'):
            cs += [d.lt(V[f'c{j}'], V['g0']) for j in range(n - 1)]
        return cs

    return domain


def _consumer_build(model, n, tens, gmrf_kind, B):
    """the real models and the real operator, wired as the CLI wires them: theta = exp(field) (TransformedParameter), the
    GMRF on the field, skyride optionally time-aware.  tens: H (node heights), gamma, tau, taunew, grid"""
    from torchtree.core.parameter import Parameter, TransformedParameter
    from torchtree.distributions.gmrf import GMRF
    from torchtree.evolution import coalescent as co
    from torchtree.inference.mcmc.gmrf_block_updating import GMRFPiecewiseCoalescentBlockUpdatingOperator as Op

    gamma_p = Parameter('coalescent.theta.log', tens['gamma'])
    theta_p = TransformedParameter('coalescent.theta', gamma_p, torch.distributions.ExpTransform())
    tree = co.FakeTreeModel(Parameter('heights', tens['H']))
    if model == 'skygrid':
        cmodel = co.PiecewiseConstantCoalescentGridModel('coalescent', theta_p, Parameter('grid', tens['grid']), tree)
    else:
        cmodel = co.PiecewiseConstantCoalescentModel('coalescent', theta_p, tree)
    prec = Parameter('gmrf.precision', tens['tau'])
    gm = GMRF('gmrf', gamma_p, prec, Heights(tens['H'], n) if gmrf_kind == 'time-aware' else None, None, True)
    op = Op('op', cmodel, gm, 1.0, 0.24, 2.0)
    op.propose_precision = lambda: tens['taunew']
    return op, cmodel, gm, theta_p, gamma_p, prec


def _consumer_capture(op, route, B, restore):
    """run the real _step / __call__ until it has handed its B Newton problems over; returns the captured argument tuples
    (numCoalEv, wNative, gamma, precision_matrix) in the order of the parameters of newton_raphson"""
    captured = []

    def rec(numCoalEv, wNative, gamma, precision_matrix):
        captured.append((numCoalEv, wNative, gamma, precision_matrix))
        if len(captured) >= B:
            raise _Captured()
        return gamma

    op.newton_raphson = rec
    restore()
    try:
        op._step() if route == '_step' else op()
    except _Captured:
        pass
    return captured


def ss2_body(model, n, G, perm, o):
    import C08
    from torchtree.distributions.gmrf import GMRF
    from torchtree.evolution import coalescent as co
    from torchtree.inference.mcmc.gmrf_block_updating import GMRFPiecewiseCoalescentBlockUpdatingOperator as Op

    K = (n - 1) if model == 'skyride' else G + 1
    Gm = G if model == 'skygrid' else 0
    B = ss2_rows(o)
    batched = B > 1
    cls = co.PiecewiseConstantCoalescent if model == 'skyride' else co.PiecewiseConstantCoalescentGrid
    tag = '' if not o['alias'] else ':tie'

    def flat(d, x):
        return x._ids.reshape(-1).tolist() if isinstance(x, SymTensor) else [d.const(float(v)) for v in x.reshape(-1).tolist()]

    def reproduce(d, ssi, ci, th):
        rec = 0
        for s_, c_, t_ in zip(ssi, ci, th):
            rec = d.sub(rec, d.div(s_, t_))
            rec = d.sub(rec, d.mul(c_, d.log(t_)))
        return rec

    def oracle_goals(d, who, ssi, ci, S, C, gr, sig):
        """per-interval statistics and counts against the event-list oracle (one obligation: the conjunction over the intervals)"""
        oss, ocnt = interval_oracle(S, C, list(C) if model == 'skyride' else gr, K, model == 'skyride')
        node = d.and_(*([d.eq(ssi[k], SymFloat._id(oss[k])) for k in range(K)] + [d.eq(ci[k], d.const(ocnt[k])) for k in range(K)]))
        return [Goal(f'{who}: for each of the {K} intervals, sufficient statistic == int C(lineages,2) dt over that interval and '
                     f'coalescent count == number of coalescent events in it', node, signature=sig + ':per-interval')]

    def body(t, V0, W):
        d = t.dag
        V = ss2_expand(V0, o)
        rows = []
        for b in range(B):
            Vb = {k: V[_row(b, k)] for k in [f's{i}' for i in range(n)] + [f'c{j}' for j in range(n - 1)]}
            rows.append(C08._heights(Vb, None, n, t))
        gridt = cm.var_tensor(V, [f'g{k}' for k in range(Gm)]) if Gm else None
        gr = [mkfloat(V[f'g{k}']) for k in range(Gm)]
        if o['via'] == 'direct':
            h, S, C = rows[0]
            theta = cm.var_tensor(V, [f'theta{k}' for k in range(K)])
            dist = cls(theta, validate_args=False) if model == 'skyride' else cls(theta, gridt, validate_args=False)
            lp = dist.log_prob(h)
            ss, counts = dist.sufficient_statistics(h)
            ssi, ci, th = flat(d, ss), flat(d, counts), theta._ids.tolist()
            if not (len(ssi) == len(ci) == len(th)):
                return [Goal(f'{model}: one sufficient statistic and one count per population size', d.FALSE,
                             signature=f'{model}:sufficient_statistics-shape')]
            goal = d.eq(sid(lp), reproduce(d, ssi, ci, th))
            goals = [Goal(f'{model}: -sum ss_k/theta_k - sum c_k log theta_k == log_prob', goal, hyps=ground_axioms(d, [goal]),
                          signature=f'{model}:sufficient_statistics{tag}')]
            return goals + oracle_goals(d, model, ssi, ci, S, C, gr, f'{model}:sufficient_statistics{tag}')
        # ---- the consumer
        H = from_ids(torch.stack([r[0]._ids for r in rows])) if batched else rows[0][0]
        gam = [[V[_row(b, f'gamma{k}')] for k in range(K)] for b in range(B)]
        tens = {'H': H, 'grid': gridt,
                'gamma': from_ids(torch.tensor(gam if batched else gam[0], dtype=torch.int64)),
                'tau': from_ids(torch.tensor([[V[_row(b, 'tau')]] for b in range(B)] if batched else [V['tau']], dtype=torch.int64)),
                'taunew': from_ids(torch.tensor([[V[_row(b, 'taunew')]] for b in range(B)] if batched else [V['taunew']],
                                                dtype=torch.int64))}
        op, cmodel, gm, theta_p, gamma_p, prec = _consumer_build(model, n, tens, o['gmrf'], B)
        bsig = ':batched' if batched else ''
        if batched:
            # the statistics of a batch must be those of each tree alone (the operator indexes them by sample)
            try:
                ssb, cb = cmodel.distribution().sufficient_statistics(H)
            except Exception as e:
                bad, detail = ss2_replay(model, n, G, perm, o, {}, W)
                if not (bad and 'raised' in detail):
                    raise
                # same convention as for the batched skyride statistics above: refusing a batch loudly is not a wrong density
                t.notes20 = f'{model}: sufficient_statistics() of a batch raises {type(e).__name__} (accepted: fails loudly)'
                return []
            if tuple(ssb.shape) != (B, K) or tuple(cb.shape) != (B, K):
                return [Goal(f'{model}: sufficient statistics / counts of a batch of {B} trees have shape [{B}, {K}] '
                             f'(got {list(ssb.shape)}, {list(cb.shape)})', d.FALSE, signature=f'{model}:sufficient_statistics:batched')]
        goals = []

        def restore():
            prec.tensor = tens['tau']
            gamma_p.tensor = tens['gamma']

        for route in (('__call__',) if batched else ('_step', '__call__')):
            try:
                caps = _consumer_capture(op, route, B, restore)
            except Exception as e:
                bad, detail = ss2_replay(model, n, G, perm, o, {}, W)
                if not (bad and 'raised' in detail):
                    raise
                if batched:
                    t.notes20 = f'{model}: the operator called on a batch raises {type(e).__name__} (accepted: fails loudly)'
                    return []
                return [Goal(f'{route}: the operator reads the statistics of every sample ({type(e).__name__}; {detail[:160]})', d.FALSE,
                             signature=f'GMRFBlockUpdating:{model}{bsig}:reads')]
            if len(caps) != B:
                return [Goal(f'{route}: one Newton problem per sample', d.FALSE, signature=f'GMRFBlockUpdating:{model}{bsig}:reads')]
            lpc = flat(d, cmodel())
            lpg = flat(d, gm())  # the precision is the proposed one now, like the precision matrix the operator read
            th = theta_p.tensor._ids.reshape(B, K).tolist()
            for b in range(B):
                who = f'{route} [sample {b} of {B}]'
                c_, w_, g_, Q_ = caps[b]
                if not (tuple(c_.shape) == tuple(w_.shape) == tuple(g_.shape) == (K,) and tuple(Q_.shape) == (K, K)):
                    return [Goal(f'{who}: counts, statistics, field of length {K} and a {K}x{K} precision matrix are handed to the Newton '
                                 f'iteration (got {list(c_.shape)}, {list(w_.shape)}, {list(g_.shape)}, {list(Q_.shape)})', d.FALSE,
                                 signature=f'GMRFBlockUpdating:{model}{bsig}:reads')]
                ci, wi, gi, Qi = flat(d, c_), flat(d, w_), flat(d, g_), Q_._ids.tolist() if isinstance(Q_, SymTensor) else None
                goals.append(Goal(f'{who}: the field handed over is the GMRF field of that sample', d.bconst(gi == gam[b] and Qi is not None),
                                  signature=f'GMRFBlockUpdating:{model}{bsig}:reads'))
                if Qi is None:
                    continue
                goal = d.eq(lpc[b], reproduce(d, wi, ci, th[b]))
                goals.append(Goal(f'{who}: -sum w_k/theta_k - sum c_k log theta_k == coalescent log density of that sample, with (c, w) = '
                                  f'(numCoalEv, wNative) as the operator hands them over and theta = exp(field)', goal,
                                  hyps=ground_axioms(d, [goal]), signature=f'GMRFBlockUpdating:{model}{bsig}:reads:coalescent-density'))
                S, C = rows[b][1], rows[b][2]
                goals += oracle_goals(d, who, wi, ci, S, C, gr, f'GMRFBlockUpdating:{model}{bsig}:reads')
                quad = d.const(0)
                for i in range(K):
                    for j in range(K):
                        quad = d.add(quad, d.mul(d.mul(gi[i], Qi[i][j]), gi[j]))
                half = d.const((K - 1) / 2)
                tn = V[_row(b, 'taunew')]
                orc = d.add(d.add(d.mul(half, d.log(tn)), d.mul(d.const(-0.5), quad)), d.mul(d.neg(half), d.const(LOG2PI)))
                goal = d.eq(lpg[b], orc)
                goals.append(Goal(f'{who}: GMRF() at the proposed precision == Gaussian quadratic form of the field with the precision matrix '
                                  f'the operator read', goal, hyps=ground_axioms(d, [goal]),
                                  signature=(f'GMRF:{o["gmrf"]}:density-vs-precision_matrix' if o['gmrf'] != 'plain'
                                             else f'GMRFBlockUpdating:{model}{bsig}:reads:gmrf-density')))
        # _step and __call__ hand over the same expressions on the unchanged tree: one query per distinct obligation
        seen, uniq = set(), []
        for g_ in goals:
            if (g_.node, g_.signature) not in seen:
                seen.add((g_.node, g_.signature))
                uniq.append(g_)
        return uniq

    return body, [cls.sufficient_statistics, cls.log_prob] + ([Op._step, Op.__call__, GMRF.precision_matrix, GMRF._call]
                                                              if o['via'] != 'direct' else [])


def ss2_replay(model, n, G, perm, o, vals, W):
    """plain tensors, float oracles (python event list, explicit loops)"""
    from torchtree.evolution import coalescent as co

    K = (n - 1) if model == 'skyride' else G + 1
    Gm = G if model == 'skygrid' else 0
    B = ss2_rows(o)
    batched = B > 1
    full = ss2_expand({k: (float(vals[k]) if vals.get(k) is not None else float(W[k])) for k in W}, o)
    f64 = lambda v: torch.tensor(v, dtype=torch.float64)  # noqa
    S = [[full[_row(b, f's{i}')] for i in range(n)] for b in range(B)]
    C = [[full[_row(b, f'c{j}')] for j in range(n - 1)] for b in range(B)]
    gr = [full[f'g{k}'] for k in range(Gm)]
    close = lambda a, b: abs(a - b) <= 1e-9 * max(1.0, abs(a), abs(b))  # noqa

    def against_oracle(who, b, ss, cnt, th, lp):
        ss = [float(v) for v in ss]
        cnt = [float(v) for v in cnt]
        rec = -sum(s_ / t_ for s_, t_ in zip(ss, th)) - sum(c_ * math.log(t_) for c_, t_ in zip(cnt, th))
        if not close(rec, lp):
            return f'{who}: log density {lp} but the statistics {ss} / counts {cnt} give {rec} (heights {S[b] + C[b]}, grid {gr})'
        oss, ocnt = interval_oracle(S[b], C[b], list(C[b]) if model == 'skyride' else gr, K, model == 'skyride')
        if not all(close(a, b_) for a, b_ in zip(ss, oss)) or not all(close(a, b_) for a, b_ in zip(cnt, ocnt)):
            return (f'{who}: statistics {ss} / counts {cnt} but the intervals hold {oss} / {ocnt} '
                    f'(sampling times {S[b]}, coalescent times {C[b]}, grid {gr})')
        return None

    try:
        if o['via'] == 'direct':
            th = [abs(full[f'theta{k}']) + 1e-9 for k in range(K)]
            dist = co.PiecewiseConstantCoalescent(f64(th)) if model == 'skyride' else co.PiecewiseConstantCoalescentGrid(f64(th), f64(gr))
            h = f64(S[0] + C[0])
            lp = float(dist.log_prob(h))
            ss, cnt = dist.sufficient_statistics(h)
            if tuple(ss.shape) != (K,) or tuple(cnt.shape) != (K,):
                return True, f'sufficient statistics shapes {tuple(ss.shape)}, {tuple(cnt.shape)} vs {K} population sizes'
            msg = against_oracle(model, 0, ss.tolist(), cnt.tolist(), th, lp)
            return (True, msg) if msg else (False, 'agree')
        gam = [[full[_row(b, f'gamma{k}')] for k in range(K)] for b in range(B)]
        tau = [abs(full[_row(b, 'tau')]) + 1e-9 for b in range(B)]
        taun = [abs(full[_row(b, 'taunew')]) + 1e-9 for b in range(B)]
        Hh = [S[b] + C[b] for b in range(B)]
        tens = {'H': f64(Hh if batched else Hh[0]), 'grid': f64(gr) if Gm else None, 'gamma': f64(gam if batched else gam[0]),
                'tau': f64([[v] for v in tau] if batched else [tau[0]]), 'taunew': f64([[v] for v in taun] if batched else [taun[0]])}
        op, cmodel, gm, theta_p, gamma_p, prec = _consumer_build(model, n, tens, o['gmrf'], B)
        if batched:
            ssb, cb = cmodel.distribution().sufficient_statistics(tens['H'])
            if tuple(ssb.shape) != (B, K) or tuple(cb.shape) != (B, K):
                return True, (f'{model}: sufficient_statistics() of a batch of {B} trees ({K} population sizes each) returns statistics '
                              f'{ssb.tolist()} and counts {cb.tolist()} (shapes {list(ssb.shape)}, {list(cb.shape)}); each tree alone gives '
                              + str([[x.tolist() for x in type(cmodel.distribution())(theta_p.tensor[b], *([tens["grid"]] if Gm else [])).sufficient_statistics(tens["H"][b])] for b in range(B)]))

        def restore():
            prec.tensor = tens['tau']
            gamma_p.tensor = tens['gamma']

        for route in (('__call__',) if batched else ('_step', '__call__')):
            caps = _consumer_capture(op, route, B, restore)
            if len(caps) != B:
                return True, f'{route}: {len(caps)} Newton problems for {B} samples'
            lpc = cmodel().reshape(-1).tolist()
            lpg = gm().reshape(-1).tolist()
            th = theta_p.tensor.reshape(B, K).tolist()
            for b in range(B):
                c_, w_, g_, Q_ = caps[b]
                if not (tuple(c_.shape) == tuple(w_.shape) == tuple(g_.shape) == (K,) and tuple(Q_.shape) == (K, K)):
                    return True, (f'{route} sample {b}: shapes handed to the Newton iteration {list(c_.shape)}, {list(w_.shape)}, '
                                  f'{list(g_.shape)}, {list(Q_.shape)}')
                if not all(close(a, b_) for a, b_ in zip(g_.tolist(), gam[b])):
                    return True, f'{route} sample {b}: field handed over {g_.tolist()} but the GMRF field of that sample is {gam[b]}'
                msg = against_oracle(f'{route} sample {b} (numCoalEv, wNative as handed to newton_raphson)', b, w_.tolist(), c_.tolist(), th[b], lpc[b])
                if msg:
                    return True, msg
                x = f64(gam[b])
                want = 0.5 * (K - 1) * math.log(taun[b]) - 0.5 * float(x @ Q_.to(torch.float64) @ x) - 0.5 * (K - 1) * math.log(2 * math.pi)
                if not close(lpg[b], want):
                    return True, (f'{route} sample {b}: GMRF() = {lpg[b]} but the quadratic form with the precision matrix the operator '
                                  f'read gives {want} (field {gam[b]}, proposed precision {taun[b]}, {o["gmrf"]} GMRF)')
    except Exception as e:
        return True, f'raised {type(e).__name__}: {str(e)[:160]}'
    return False, 'agree'


def ss2_task(task, tr):
    _, model, n, G, perm, opts = task
    o = ss2_opts(opts, n)
    body, fns = ss2_body(model, n, G, perm, o)
    desc = ', '.join(f'{k}={v}' for k, v in sorted(o.items()) if v not in ((), 'plain') or k == 'via')
    label = f'sufficient statistics {model} n={n} G={G if model == "skygrid" else 0} sampling-order={perm} [{desc}]'
    W = ss2_witness(model, n, G, perm, o)
    W0 = dict(W)
    rp = lambda vals: ss2_replay(model, n, G, perm, o, vals, W0)  # noqa
    tr.fn(*fns)
    if o['via'] != 'direct':
        tr.stubs.add('consumer tasks: GMRFPiecewiseCoalescentBlockUpdatingOperator.propose_precision -> a fresh symbolic proposed '
                     'precision > 0 (its randomness; the proposal itself is C15\'s), newton_raphson -> recorder of its arguments '
                     '(the run stops once every sample\'s Newton problem has been handed over)')
        tr.bounds['consumer (block-update operator)'] = (
            'real _step and __call__ on the real coalescent models / GMRF wired like the CLI (theta = exp(field)); skygrid with 1-2 '
            'symbolic grid points (inside / beyond the tree: all interleavings, coverage certificate) and skyride (plain and '
            'time-aware GMRF), n = 3 (quick: three of the six sampling orders for one grid point, two grid points with the tips '
            'sampled together or the grid beyond the root; thorough: all orders, and n = 4 for one sampling order), '
            f'heterochronous symbolic sampling times, field entries in [-{GAMMA_BOUND}, {GAMMA_BOUND}] '
            '(exp(field) has to be a positive double in the witness runs); batches of 2 trees (__call__): explored '
            'regions around hand-picked pairs of trees only, no coverage certificate')
    batched = o['via'] == 'operator-batched'
    body0 = body

    def body(t, V, W_):
        goals = body0(t, V, W_)
        note = getattr(t, 'notes20', None)
        if note and f'{label}: {note}' not in tr.notes:
            tr.notes.append(f'{label}: {note}')
        return goals

    ex = Explorer(W, ss2_domain(model, n, G, perm, o), body, tr, max_regions=(3 if batched else 1500), timeout=40.0, label=label,
                  deadline=time.time() + 1500, require_closure=not batched)
    out = ex.run()
    for s in out.region_samples[:1]:
        s['case'] = label
        tr.sample(s)
    triage(out, rp, tr, label, {'model': model, 'n': n, 'G': G, 'opts': [list(x) if isinstance(x, tuple) else x for x in opts]})


# ------------------------------------------------------------------ (e') the consumer driven for two consecutive rounds
# The real operator inside the MCMC loop: step() (saves its parameters, _step() asks for the statistics and for the precision
# matrix BEFORE and AFTER it proposes a precision), the chain evaluates prior and coalescent at the proposed state, then
# accept() or reject() (restores the saved tensors), the chain evaluates again (loggers / the next joint), optionally another
# operator moves the field, and the NEXT step() asks for everything again from the same objects.  Every precision_matrix() the
# operator asks for is recorded together with the precision the parameter holds at that moment; the run of _step stops where
# it hands its first Newton problem over (as in (e)).  Task ('rounds', model, n, G, perm, opts); opts as for 'ss2' plus
#   decision 'reject' | 'accept'      what the chain does with the first proposal
#   between  True                     the field is assigned fresh symbols between the two rounds
def rounds_extra_names(K):
    return ['taunew2'] + [f'gammab{k}' for k in range(K)]


def rounds_flow(model, n, tens, o, proposals, gam_between, on):
    """the flow above on symbolic or plain tensors; on(event, round, ...) receives what the chain / the operator saw"""
    op, cmodel, gm, theta_p, gamma_p, prec = _consumer_build(model, n, tens, o['gmrf'], 1)
    it = iter(proposals)
    op.propose_precision = lambda: next(it)
    pm_log, caps = [], []
    real_pm = gm.precision_matrix

    def rec_pm():
        Q = real_pm()
        pm_log.append((Q, prec.tensor))
        return Q

    def rec_newton(numCoalEv, wNative, gamma, precision_matrix):
        caps.append((numCoalEv, wNative, gamma, precision_matrix))
        raise _Captured()

    gm.precision_matrix = rec_pm
    op.newton_raphson = rec_newton
    cur = {'gamma': tens['gamma'], 'tau': tens['tau']}
    for r in range(len(proposals)):
        on('current', r, cur, gm(), cmodel())
        del pm_log[:], caps[:]
        try:
            op.step()
        except _Captured:
            pass
        prop = dict(cur, tau=proposals[r])
        on('asked', r, cur, prop, list(pm_log), list(caps))
        on('proposed', r, prop, gm(), cmodel())
        if o['decision'] == 'reject':
            op.reject()
        else:
            op.accept()
            cur = prop
        on('decided', r, cur, gm(), cmodel())
        if r == 0 and gam_between is not None:
            gamma_p.tensor = gam_between
            cur = dict(cur, gamma=gam_between)


def rounds_body(model, n, G, perm, o):
    import C08
    from torchtree.distributions.gmrf import GMRF
    from torchtree.evolution import coalescent as co
    from torchtree.inference.mcmc.gmrf_block_updating import GMRFPiecewiseCoalescentBlockUpdatingOperator as Op
    from torchtree.inference.mcmc.operator import MCMCOperator

    K = (n - 1) if model == 'skyride' else G + 1
    Gm = G if model == 'skygrid' else 0
    cls = co.PiecewiseConstantCoalescent if model == 'skyride' else co.PiecewiseConstantCoalescentGrid
    sig = f'GMRFBlockUpdating:{model}:rounds'
    plain = o['gmrf'] == 'plain'

    def body(t, V0, W):
        d = t.dag
        V = ss2_expand(V0, o)
        Vb = {k: V[k] for k in [f's{i}' for i in range(n)] + [f'c{j}' for j in range(n - 1)]}
        H, S, C = C08._heights(Vb, None, n, t)
        gridt = cm.var_tensor(V, [f'g{k}' for k in range(Gm)]) if Gm else None
        gr = [mkfloat(V[f'g{k}']) for k in range(Gm)]
        vec = lambda names: from_ids(torch.tensor([V[k] for k in names], dtype=torch.int64))  # noqa
        tens = {'H': H, 'grid': gridt, 'gamma': vec([f'gamma{k}' for k in range(K)]), 'tau': vec(['tau']), 'taunew': None}
        proposals = [vec(['taunew']), vec(['taunew2'])]
        gam_between = vec([f'gammab{k}' for k in range(K)]) if o.get('between') else None
        goals, memo = {}, {}

        def add(label, node, sg, hyps=()):
            if (node, sg) not in goals:
                goals[(node, sg)] = Goal(label, node, hyps=list(hyps), signature=sg)

        def fresh(state):
            key = (tuple(_flat_ids(d, state['gamma'])), tuple(_flat_ids(d, state['tau'])))
            if key not in memo:
                out = []
                for what in range(3):  # one freshly built object graph per quantity
                    _, cmodel, gm, theta_p, _, _ = _consumer_build(model, n, dict(tens, gamma=from_ids(state['gamma']._ids.clone()),
                                                                              tau=from_ids(state['tau']._ids.clone())), o['gmrf'], 1)
                    out.append([lambda: _flat_ids(d, gm())[0], lambda: _flat_ids(d, cmodel())[0],
                                lambda: (_flat_ids(d, gm.precision_matrix()), _flat_ids(d, theta_p.tensor))][what]())
                memo[key] = out
            return memo[key]

        def on(event, r, *a):
            who = f'round {r + 1}'
            if event in ('current', 'proposed', 'decided'):
                state, lpg, lpc = a
                when = {'current': 'before step()', 'proposed': 'at the proposed precision', 'decided': f'after {o["decision"]}()'}[event]
                fg, fc, _ = fresh(state)
                add(f'{who}, {when}: GMRF() == value of a freshly built object at the state the chain is in', d.eq(_flat_ids(d, lpg)[0], fg),
                    sig + ':gmrf-density')
                add(f'{who}, {when}: the coalescent model call == value of a freshly built object at the state the chain is in',
                    d.eq(_flat_ids(d, lpc)[0], fc), sig + ':coalescent-density')
                return
            cur, prop, pms, caps = a
            if len(pms) != 2 or len(caps) != 1:
                add(f'{who}: step() asks for the precision matrix before and after the proposal and hands one Newton problem over '
                    f'(got {len(pms)} matrices, {len(caps)} problems)', d.FALSE, sig + ':reads')
                return
            for (Q, held), state, when in zip(pms, (cur, prop), ('before the proposal (current precision)', 'after the proposal (proposed precision)')):
                fg, _, (Qf, _) = fresh(state)
                gam, tau = _flat_ids(d, state['gamma']), _flat_ids(d, state['tau'])[0]
                if _flat_ids(d, held) != [tau] or tuple(Q.shape) != (K, K):
                    add(f'{who}: the precision matrix asked for {when} is a {K}x{K} matrix asked while the parameter holds that precision',
                        d.FALSE, sig + ':reads')
                    continue
                Qi = _flat_ids(d, Q)
                add(f'{who}: the precision matrix the operator gets {when} == the matrix a freshly built GMRF publishes for the precision '
                    f'the parameter holds at that moment', d.and_(*[d.eq(u, v) for u, v in zip(Qi, Qf)]), sig + ':precision-matrix-vs-fresh-object')
                if plain:
                    node = d.eq(fg, _gauss_node(d, gam, _nest(Qi, (K, K)), tau, K))
                    add(f'{who}: GMRF density at the field / precision the parameters hold {when} == Gaussian quadratic form with the matrix '
                        f'the operator gets at that moment', node, sig + ':gmrf-density-vs-precision-matrix', ground_axioms(d, [node]))
            c_, w_, g_, Q_ = caps[0]
            _, fc, (_, th) = fresh(prop)
            ok = (tuple(c_.shape) == tuple(w_.shape) == tuple(g_.shape) == (K,)) and Q_ is pms[1][0] and \
                _flat_ids(d, g_) == _flat_ids(d, cur['gamma'])
            add(f'{who}: counts, statistics and the current field (length {K}) and the proposed precision matrix are handed to the Newton '
                f'iteration', d.bconst(ok), sig + ':reads')
            if not ok:
                return
            ci, wi = _flat_ids(d, c_), _flat_ids(d, w_)
            rec = 0
            for s_, cc, t_ in zip(wi, ci, th):
                rec = d.sub(rec, d.div(s_, t_))
                rec = d.sub(rec, d.mul(cc, d.log(t_)))
            node = d.eq(fc, rec)
            add(f'{who}: -sum w_k/theta_k - sum c_k log theta_k == coalescent log density at the state the chain is in, (c, w) as handed over',
                node, sig + ':coalescent-density-vs-statistics', ground_axioms(d, [node]))
            oss, ocnt = interval_oracle(S, C, list(C) if model == 'skyride' else gr, K, model == 'skyride')
            add(f'{who}: for each of the {K} intervals, statistic handed over == int C(lineages,2) dt and count == number of coalescent events',
                d.and_(*([d.eq(wi[k], SymFloat._id(oss[k])) for k in range(K)] + [d.eq(ci[k], d.const(ocnt[k])) for k in range(K)])),
                sig + ':per-interval')

        rounds_flow(model, n, tens, o, proposals, gam_between, on)
        return list(goals.values())

    return body, [cls.sufficient_statistics, cls.log_prob, Op._step, MCMCOperator.step, MCMCOperator.reject, MCMCOperator.accept,
                  GMRF.precision_matrix, GMRF._call]


def rounds_replay(model, n, G, perm, o, vals, W):
    K = (n - 1) if model == 'skyride' else G + 1
    Gm = G if model == 'skygrid' else 0
    full = ss2_expand({k: (float(vals[k]) if vals.get(k) is not None else float(W[k])) for k in W}, o)
    f64 = lambda v: torch.tensor(v, dtype=torch.float64)  # noqa
    S = [full[f's{i}'] for i in range(n)]
    C = [full[f'c{j}'] for j in range(n - 1)]
    gr = [full[f'g{k}'] for k in range(Gm)]
    pos = lambda k: abs(full[k]) + 1e-9  # noqa
    tens = {'H': f64(S + C), 'grid': f64(gr) if Gm else None, 'gamma': f64([full[f'gamma{k}'] for k in range(K)]), 'tau': f64([pos('tau')]),
            'taunew': None}
    proposals = [f64([pos('taunew')]), f64([pos('taunew2')])]
    gam_between = f64([full[f'gammab{k}'] for k in range(K)]) if o.get('between') else None
    oss, ocnt = interval_oracle(S, C, list(C) if model == 'skyride' else gr, K, model == 'skyride')
    found = []

    def fresh(state):
        _, cmodel, gm, _, _, _ = _consumer_build(model, n, dict(tens, gamma=state['gamma'].clone(), tau=state['tau'].clone()), o['gmrf'], 1)
        return float(gm()), gm.precision_matrix()

    def coal_want(state):
        th = [math.exp(v) for v in state['gamma'].tolist()]
        return -sum(s_ / t_ for s_, t_ in zip(oss, th)) - sum(c_ * math.log(t_) for c_, t_ in zip(ocnt, th)), th

    def gmrf_want(state):
        x, tau = state['gamma'].tolist(), float(state['tau'])
        if o['gmrf'] == 'plain':
            return sum(0.5 * math.log(tau) - 0.5 * math.log(2 * math.pi) - 0.5 * tau * (x[i + 1] - x[i]) ** 2 for i in range(K - 1))
        return fresh(state)[0]

    def on(event, r, *a):
        who = f'round {r + 1}'
        if event in ('current', 'proposed', 'decided'):
            state, lpg, lpc = a
            when = {'current': 'before step()', 'proposed': 'at the proposed precision', 'decided': f'after {o["decision"]}()'}[event]
            if not _close(float(lpg), gmrf_want(state)):
                found.append(f'{who}, {when}: GMRF() = {float(lpg)} but the density at the field {state["gamma"].tolist()} / precision '
                             f'{float(state["tau"])} the parameters hold is {gmrf_want(state)}')
            cw, th = coal_want(state)
            if not _close(float(lpc), cw):
                found.append(f'{who}, {when}: the coalescent model call = {float(lpc)} but the event-list oracle at the population sizes {th} gives {cw}')
            return
        cur, prop, pms, caps = a
        if len(pms) != 2 or len(caps) != 1:
            found.append(f'{who}: step() asked for {len(pms)} precision matrices and handed {len(caps)} Newton problems over')
            return
        for (Q, held), state, when in zip(pms, (cur, prop), ('before the proposal', 'after the proposal')):
            x, tau = state['gamma'], float(state['tau'])
            if not _close(float(held), tau):
                found.append(f'{who}: the parameter holds the precision {float(held)} {when}, expected {tau}')
                continue
            Qf = fresh(state)[1]
            qf = 0.5 * (K - 1) * math.log(tau) - 0.5 * float(x @ Q.to(torch.float64) @ x) - 0.5 * (K - 1) * math.log(2 * math.pi)
            bad = (not _close(qf, gmrf_want(state))) if o['gmrf'] == 'plain' else not torch.allclose(Q.to(torch.float64), Qf, rtol=1e-9, atol=1e-12)
            if bad:
                found.append(f'{who} of step() / {o["decision"]}() on the same objects: the precision matrix the operator gets {when} has Q[0,0] = '
                             f'{float(Q[0, 0])} while the precision parameter holds {tau}'
                             + (f'; its quadratic form gives {qf} but GMRF density at the current field is {gmrf_want(state)}' if o['gmrf'] == 'plain' else ''))
        c_, w_, g_, Q_ = caps[0]
        cw, th = coal_want(prop)
        ss, cnt = [float(v) for v in w_.reshape(-1)], [float(v) for v in c_.reshape(-1)]
        rec = -sum(s_ / t_ for s_, t_ in zip(ss, th)) - sum(cc * math.log(t_) for cc, t_ in zip(cnt, th))
        if len(ss) != K or not _close(rec, cw) or not all(_close(u, v) for u, v in zip(ss + cnt, list(oss) + list(ocnt))):
            found.append(f'{who}: statistics {ss} / counts {cnt} handed to the Newton iteration reproduce {rec}, the coalescent log density at '
                         f'the population sizes {th} is {cw} (the intervals hold {oss} / {ocnt})')
        if not all(_close(u, v) for u, v in zip(g_.tolist(), cur['gamma'].tolist())):
            found.append(f'{who}: field handed over {g_.tolist()} but the chain is at {cur["gamma"].tolist()}')

    try:
        rounds_flow(model, n, tens, o, proposals, gam_between, on)
    except Exception as e:
        return True, f'raised {type(e).__name__}: {str(e)[:160]}'
    return (True, found[0]) if found else (False, 'agree')


def rounds_task(task, tr):
    _, model, n, G, perm, opts = task
    o = ss2_opts(opts, n)
    o['via'] = 'operator'
    o.setdefault('decision', 'reject')
    K = (n - 1) if model == 'skyride' else G + 1
    body, fns = rounds_body(model, n, G, perm, o)
    desc = ', '.join(f'{k}={v}' for k, v in sorted(o.items()) if v not in ((), 'plain', 'operator'))
    label = f'two rounds of step() on the same objects: {model} n={n} G={G if model == "skygrid" else 0} sampling-order={perm} [{desc}]'
    W = ss2_witness(model, n, G, perm, o)
    W['taunew2'] = 3.4
    W.update({f'gammab{k}': -0.3 + 0.45 * k + 0.25 * (k % 2) for k in range(K)})
    dom0 = ss2_domain(model, n, G, perm, o)

    def domain(d, V):
        cs = dom0(d, V) + [d.lt(0, V['taunew2'])]
        for k in range(K):
            cs += [d.le(d.const(-GAMMA_BOUND), V[f'gammab{k}']), d.le(V[f'gammab{k}'], d.const(GAMMA_BOUND))]
        return cs

    W0 = dict(W)
    rp = lambda vals: rounds_replay(model, n, G, perm, o, vals, W0)  # noqa
    tr.fn(*fns)
    tr.stubs.add('consumer tasks: GMRFPiecewiseCoalescentBlockUpdatingOperator.propose_precision -> a fresh symbolic proposed '
                 'precision > 0 (its randomness; the proposal itself is C15\'s), newton_raphson -> recorder of its arguments '
                 '(the run stops once every sample\'s Newton problem has been handed over)')
    tr.stubs.add('two-round consumer tasks: gmrf.precision_matrix wrapped by a recorder (returns what the real method returns)')
    tr.bounds['consumer, two consecutive rounds'] = (
        'real MCMCOperator.step() -> _step() (up to the first Newton hand-over), chain evaluation of GMRF() and the coalescent at the '
        'proposed state, reject() or accept(), evaluation, optional assignment of a fresh field, second step(): skygrid (1 grid point, '
        'plain GMRF) and skyride (plain and time-aware GMRF), n = 3, tips sampled together at one symbolic time, skyride also one '
        'heterochronous sampling order (thorough: all six, skygrid two of them, and two grid points), coverage certificate over heights / grid / field / '
        'precisions')
    ex = Explorer(W, domain, body, tr, max_regions=400, timeout=40.0, label=label, deadline=time.time() + 1500)
    out = ex.run()
    for s in out.region_samples[:1]:
        s['case'] = label
        tr.sample(s)
    triage(out, rp, tr, label, {'model': model, 'n': n, 'G': G, 'opts': [list(x) if isinstance(x, tuple) else x for x in opts]})


# ------------------------------------------------------------------ (f) read / write histories on ONE object
# Every obligation above reads a published quantity ONCE from a freshly built object.  The consumers (the block-update
# operator inside MCMC: propose / evaluate / reject / restore / next step) read them again and again from the SAME object
# across parameter updates.  A history is a sequence of operations on one object graph:
#   reads   r:<name>      gmrf(), gmrf.precision_matrix(), the coalescent model call,
#                         coalescent.distribution().sufficient_statistics(tree.node_heights), GMRFGammaIntegrated(), ...
#   writes  w:<p>:assign   parameter.tensor = FRESH symbols (the previous tensor is cloned first, as MCMCOperator.step does)
#           w:<p>:inplace  one element of parameter.tensor overwritten in place with a fresh symbol, then
#                          parameter.fire_parameter_changed() (a clone is saved first)
#           w:<p>:restore  parameter.tensor = the clone saved by the last write to p (MCMCOperator.reject)
# Version v of parameter p is its own set of symbols p{v}_{k}; what a read returns after any history must be the value
# for the symbols the parameters hold NOW: a stale quantity still mentions the symbols of an earlier version, which the
# solver separates.  After every read:
#   density reads    value == value of a FRESHLY BUILT object holding the current symbols
#   matrix reads     density of a fresh object at the current symbols == Gaussian quadratic form of the matrix published
#                    NOW (and the matrix == the one a fresh object publishes, entry by entry)
#   statistics reads (statistics, counts) reproduce the log density of a fresh object at the current heights / population
#                    sizes, and each of them equals the event-list oracle at the current heights
# All histories of one task run in ONE trace: equal states give identical DAG nodes, so the unchanged tree needs one query
# per distinct state; the comparisons with the fresh object are mostly closed by hash-consing - each task therefore
# carries solver vacuity guards (every kind of write CAN change a read value: `sat` expected).
HIST_MAXVER = 4  # a history of <= 4 operations ending in a read makes <= 3 writes (+ version 0)


def _nest(flat, shape):
    flat = list(flat)
    if len(shape) <= 1:
        return flat
    step = len(flat) // shape[0]
    return [_nest(flat[i * step:(i + 1) * step], shape[1:]) for i in range(shape[0])]


def _numel(shape):
    return int(math.prod(shape))


def _unravel(k, shape):
    idx = []
    for s in reversed(shape):
        idx.append(k % s)
        k //= s
    return tuple(reversed(idx))


def _flat_ids(d, x):
    return x._ids.reshape(-1).tolist() if isinstance(x, SymTensor) else [d.const(float(v)) for v in torch.as_tensor(x).reshape(-1).tolist()]


def _gauss_node(d, x, Q, tau, N):
    quad = d.const(0)
    for i in range(N):
        for j in range(N):
            quad = d.add(quad, d.mul(d.mul(x[i], Q[i][j]), x[j]))
    half = d.const((N - 1) / 2)
    return d.add(d.add(d.mul(half, d.log(tau)), d.mul(d.const(-0.5), quad)), d.mul(d.neg(half), d.const(LOG2PI)))


def _close(a, b, tol=1e-9):
    return abs(a - b) <= tol * max(1.0, abs(a), abs(b))


def _linear_extensions(N, shape):
    """orders of the internal nodes (by index 0..N-1 into the heights parameter) compatible with parent > child"""
    tree, _ = _real_tree(N, shape, False)
    tc = N + 1
    pairs = [(p - tc, c - tc) for p, c in _tree_order(tree) if c >= tc]
    out = []
    for perm in itertools.permutations(range(N)):
        rank = {node: r for r, node in enumerate(perm)}
        if all(rank[p] > rank[c] for p, c in pairs):
            out.append(perm)
    return out


class _World:
    """one object graph of real torchtree classes with its readable quantities and writable parameters"""
    reads = ()
    extras = {}  # unversioned symbolic scalars (name -> witness), all > 0
    sig = ''

    def shapes(self):
        raise NotImplementedError

    def positive(self):
        return ()

    def witness(self, p, ver):
        raise NotImplementedError

    def domain(self, d, S):
        return []

    def patched(self):
        return contextlib.nullcontext()

    def label(self):
        return self.sig

    # heights of a real TimeTreeModel: version v of internal node i lies in (rank_i + 0.55, rank_i + 1.45), so that every
    # mixture of versions (in-place writes) is a valid tree and the order of the coalescent events is that of `order`
    def _h_witness(self, ver):
        rank = {node: r for r, node in enumerate(self.order)}
        return [rank[i] + 0.6 + 0.17 * ver + 0.03 * i for i in range(self.N)]

    def _h_domain(self, d, S):
        rank = {node: r for r, node in enumerate(self.order)}
        cs = []
        for v in range(HIST_MAXVER):
            for i, node in enumerate(S('h', v)):
                cs += [d.lt(d.const(rank[i] + 0.55), node), d.lt(node, d.const(rank[i] + 1.45))]
        return cs

    def _tree(self, h):
        tree, hp = _real_tree(self.N, self.shape, self.hetero)
        hp.tensor = h
        return tree, hp


def _sorted_heights(hvals, order):
    return [hvals[i] for i in order]


class WorldGMRF(_World):
    """GMRF(field, precision): plain, unbatched (B = 0) or a batch of B fields with one precision each"""
    reads = ('call', 'pm')

    def __init__(self, N, B):
        self.N, self.B = N, B
        self.sig = 'GMRF:plain:history' + (':batched' if B else '')

    def label(self):
        return f'GMRF plain, field length {self.N}, ' + (f'batch of {self.B}' if self.B else 'unbatched')

    def shapes(self):
        return {'x': (self.B, self.N) if self.B else (self.N,), 'tau': (self.B, 1) if self.B else (1,)}

    def positive(self):
        return ('tau',)

    def witness(self, p, ver):
        rows = range(max(self.B, 1))
        if p == 'x':
            return [0.3 * i * i - 0.2 * b + 0.1 + 0.37 * ver * (i + 1) - 0.21 * ver * ver * (b + 1) for b in rows for i in range(self.N)]
        return [1.7 + b + 0.6 * ver for b in rows]

    def fns(self):
        from torchtree.distributions.gmrf import GMRF

        return [GMRF._call, GMRF.precision_matrix, GMRF.handle_parameter_changed, GMRF.__call__]

    def build(self, tens, extras=None):
        from torchtree.core.parameter import Parameter
        from torchtree.distributions.gmrf import GMRF

        f, p = Parameter('field', tens['x']), Parameter('prec', tens['tau'])
        return {'P': {'x': f, 'tau': p}, 'gm': GMRF('gmrf', f, p)}

    def read(self, bd, r):
        return bd['gm']() if r == 'call' else bd['gm'].precision_matrix()

    def _rows(self, ids):
        R = max(self.B, 1)
        return [(ids['x'][b * self.N:(b + 1) * self.N], ids['tau'][b]) for b in range(R)]

    def sym_goals(self, d, r, got, fresh, ids):
        R, N = max(self.B, 1), self.N
        want_shape = ((R, 1) if self.B else (1,)) if r == 'call' else (((R,) if self.B else ()) + (N, N))
        if tuple(got.shape) != want_shape:
            return [(f'{r}: result of shape {list(want_shape)} (got {list(got.shape)})', d.FALSE, [], f'{self.sig}:shape')]
        lpf = _flat_ids(d, fresh('call'))
        goals = []
        if r == 'call':
            lp = _flat_ids(d, got)
            for b in range(R):
                goals.append((f'[sample {b}] GMRF() == GMRF() of a freshly built object holding the current field / precision',
                              d.eq(lp[b], lpf[b]), [], f'{self.sig}:density-vs-fresh-object'))
            return goals
        Qs = _nest(_flat_ids(d, got), (R, N, N))
        Qf = _nest(_flat_ids(d, fresh('pm')), (R, N, N))
        for b, (x, tau) in enumerate(self._rows(ids)):
            node = d.eq(lpf[b], _gauss_node(d, x, Qs[b], tau, N))
            goals.append((f'[sample {b}] GMRF density at the current field / precision == Gaussian quadratic form with the precision '
                          f'matrix published NOW', node, ground_axioms(d, [node]), f'{self.sig}:density-vs-precision_matrix'))
            goals.append((f'[sample {b}] precision_matrix() == the matrix a freshly built object publishes for the current precision',
                          d.and_(*[d.eq(Qs[b][i][j], Qf[b][i][j]) for i in range(N) for j in range(N)]), [],
                          f'{self.sig}:precision_matrix-vs-fresh-object'))
        return goals

    def oracle(self, r, got, vals, fresh):
        R, N = max(self.B, 1), self.N
        for b in range(R):
            x, tau = vals['x'][b * N:(b + 1) * N], vals['tau'][b]
            want = sum(0.5 * math.log(tau) - 0.5 * math.log(2 * math.pi) - 0.5 * tau * (x[i + 1] - x[i]) ** 2 for i in range(N - 1))
            if r == 'call':
                lp = float(got.reshape(-1)[b])
                if not _close(lp, want):
                    return f'sample {b}: GMRF() = {lp} but the product of normal increments at the current field {x} / precision {tau} is {want}'
            else:
                Q = got.reshape(R, N, N)[b].to(torch.float64)
                xt = torch.tensor(x, dtype=torch.float64)
                qf = 0.5 * (N - 1) * math.log(tau) - 0.5 * float(xt @ Q @ xt) - 0.5 * (N - 1) * math.log(2 * math.pi)
                D = torch.zeros(N - 1, N, dtype=torch.float64)
                for i in range(N - 1):
                    D[i, i], D[i, i + 1] = -1.0, 1.0
                if not _close(qf, want) or not torch.allclose(Q, tau * (D.t() @ D), rtol=1e-9, atol=1e-12):
                    return (f'sample {b}: precision_matrix() has Q[0,0] = {float(Q[0, 0])} while the precision parameter holds {tau}; its '
                            f'quadratic form gives {qf} but the GMRF density at the current field {x} / precision {tau} is {want}')
        return None


class WorldGMRFTime(_World):
    """time-aware GMRF on a real TimeTreeModel (symbolic internal heights); the published matrix ignores the durations (known
    finding of (a)), so the matrix read is compared with the matrix of a fresh object only"""
    reads = ('call', 'pm')
    hetero = False

    def __init__(self, N, si, oi, rescale):
        self.N, self.rescale = N, rescale
        self.shape = _tree_shapes(N)[si]
        self.order = _linear_extensions(N, self.shape)[oi]
        self.sig = 'GMRF:time-aware:history'

    def label(self):
        return (f'time-aware GMRF rescale={self.rescale} on TimeTreeModel {cm.to_newick(self.shape)}, coalescent events in the order '
                f'{list(self.order)}')

    def shapes(self):
        return {'x': (self.N,), 'tau': (1,), 'h': (self.N,)}

    def positive(self):
        return ('tau',)

    def witness(self, p, ver):
        if p == 'x':
            return [0.3 * i * i + 0.1 + 0.37 * ver * (i + 1) - 0.21 * ver * ver for i in range(self.N)]
        if p == 'tau':
            return [1.7 + 0.6 * ver]
        return self._h_witness(ver)

    def domain(self, d, S):
        return self._h_domain(d, S)

    def fns(self):
        from torchtree.distributions.gmrf import GMRF
        from torchtree.evolution.tree_model import TimeTreeModel

        return [GMRF._call, GMRF.precision_matrix, GMRF.handle_model_changed, TimeTreeModel.handle_parameter_changed]

    def build(self, tens, extras=None):
        from torchtree.core.parameter import Parameter
        from torchtree.distributions.gmrf import GMRF

        tree, hp = self._tree(tens['h'])
        f, p = Parameter('field', tens['x']), Parameter('prec', tens['tau'])
        return {'P': {'x': f, 'tau': p, 'h': hp}, 'gm': GMRF('gmrf', f, p, tree, None, self.rescale), 'tree': tree}

    def read(self, bd, r):
        return bd['gm']() if r == 'call' else bd['gm'].precision_matrix()

    def sym_goals(self, d, r, got, fresh, ids):
        N = self.N
        want_shape = (1,) if r == 'call' else (N, N)
        if tuple(got.shape) != want_shape:
            return [(f'{r}: result of shape {list(want_shape)} (got {list(got.shape)})', d.FALSE, [], f'{self.sig}:shape')]
        if r == 'call':
            return [('time-aware GMRF() == GMRF() of a freshly built object holding the current field / precision / node heights',
                     d.eq(_flat_ids(d, got)[0], _flat_ids(d, fresh('call'))[0]), [], f'{self.sig}:density-vs-fresh-object')]
        a, b = _flat_ids(d, got), _flat_ids(d, fresh('pm'))
        return [('precision_matrix() == the matrix a freshly built object publishes for the current precision',
                 d.and_(*[d.eq(u, v) for u, v in zip(a, b)]), [], f'{self.sig}:precision_matrix-vs-fresh-object')]

    def oracle(self, r, got, vals, fresh):
        N = self.N
        x, tau, h = vals['x'], vals['tau'][0], vals['h']
        if r == 'call':
            ts = [0.0] + sorted(h)
            cs = [(ts[-1] if self.rescale else 1.0) / ((ts[i + 1] - ts[i - 1]) / 2.0) for i in range(1, N)]
            want = (0.5 * (N - 1) * math.log(tau) - 0.5 * tau * sum(c * (x[i] - x[i + 1]) ** 2 for i, c in enumerate(cs))
                    - 0.5 * (N - 1) * math.log(2 * math.pi))
            lp = float(got.reshape(-1)[0])
            if not _close(lp, want):
                return (f'time-aware GMRF() = {lp} but the density for the current field {x}, precision {tau} and internal heights {h} '
                        f'is {want}')
        else:
            Qf = fresh('pm')
            if not torch.allclose(got.to(torch.float64), Qf.to(torch.float64), rtol=1e-9, atol=1e-12):
                return (f'precision_matrix() has Q[0,0] = {float(got[0, 0])} but a freshly built object with the current precision {tau} '
                        f'publishes Q[0,0] = {float(Qf[0, 0])}')
        return None


class WorldCovariate(_World):
    """GMRFCovariate built by its from_json; field, precision, covariates and effect sizes writable"""
    reads = ('call', 'pm')

    def __init__(self, N, P, variant):
        self.N, self.Pn, self.variant = N, P, variant
        self.nm = cov_names(N, P, variant)
        self.B = self.nm['B']
        _, self.fb, self.pb, self.bb, self.cb = COV_VARIANTS[variant]
        self.sig = f'{COV_SIG}:history' + (':batched' if self.B > 1 else '')

    def label(self):
        return f'GMRFCovariate N={self.N} covariates={self.Pn} batching={self.variant}'

    def shapes(self):
        B, N, P = self.B, self.N, self.Pn
        return {'x': (B, N) if self.fb else (N,), 'tau': (B, 1) if self.pb else (1,), 'beta': (B, P) if self.bb else (P,),
                'z': (B, N, P) if self.cb else (N, P)}

    def positive(self):
        return ('tau',)

    def witness(self, p, ver):
        W = cov_witness(self.N, self.Pn, self.variant)
        key = {'x': 'x', 'tau': 'tau', 'beta': 'beta', 'z': 'z'}[p]

        def flat(o):
            return [W[o]] if isinstance(o, str) else [v for q in o for v in flat(q)]

        base = flat(self.nm[key])
        bump = {'x': 0.37, 'tau': 0.6, 'beta': 0.45, 'z': 0.29}[p]
        return [v + bump * ver * (1 + (k % 3)) * (1 if p == 'tau' else (-1) ** (k + ver)) for k, v in enumerate(base)]

    def fns(self):
        from torchtree.distributions.gmrf import GMRF, GMRFCovariate

        return [GMRFCovariate._call, GMRF.precision_matrix, GMRFCovariate.from_json]

    def build(self, tens, extras=None):
        g = _cov_build(self.N, self.Pn, self.variant, False, tens)
        return {'P': {'x': g.field, 'tau': g.precision, 'beta': g.beta, 'z': g.covariates}, 'gm': g}

    def read(self, bd, r):
        return bd['gm']() if r == 'call' else bd['gm'].precision_matrix()

    def _sample(self, vals, b):
        N, P = self.N, self.Pn
        x = vals['x'][(b if self.fb else 0) * N:][:N]
        tau = vals['tau'][b if self.pb else 0]
        be = vals['beta'][(b if self.bb else 0) * P:][:P]
        z = _nest(vals['z'][(b if self.cb else 0) * N * P:][:N * P], (N, P))
        return x, tau, be, z

    def sym_goals(self, d, r, got, fresh, ids):
        B, N, P = self.B, self.N, self.Pn
        batched = B > 1
        want_shape = ((B, 1) if batched else (1,)) if r == 'call' else (((B,) if batched else ()) + (N, N))
        if tuple(got.shape) != want_shape:
            return [(f'{r}: result of shape {list(want_shape)} (got {list(got.shape)})', d.FALSE, [], f'{self.sig}:shape')]
        lpf = _flat_ids(d, fresh('call'))
        goals = []
        if r == 'call':
            lp = _flat_ids(d, got)
            for b in range(B):
                goals.append((f'[sample {b}] GMRFCovariate() == value of a freshly built object holding the current field / precision / '
                              f'covariates / effect sizes', d.eq(lp[b], lpf[b]), [], f'{self.sig}:density-vs-fresh-object'))
            return goals
        Qs = _nest(_flat_ids(d, got), (B, N, N))
        Qf = _nest(_flat_ids(d, fresh('pm')), (B, N, N))
        for b in range(B):
            x, tau, be, z = self._sample(ids, b)
            res = []
            for i in range(N):
                zb = d.const(0)
                for p in range(P):
                    zb = d.add(zb, d.mul(z[i][p], be[p]))
                res.append(d.sub(x[i], zb))
            node = d.eq(lpf[b], _gauss_node(d, res, Qs[b], tau, N))
            goals.append((f'[sample {b}] GMRFCovariate density at the current parameters == Gaussian quadratic form of (field - covariates x '
                          f'beta) with the precision matrix published NOW', node, ground_axioms(d, [node]),
                          f'{self.sig}:density-vs-precision_matrix'))
            goals.append((f'[sample {b}] precision_matrix() == the matrix a freshly built object publishes for the current precision',
                          d.and_(*[d.eq(Qs[b][i][j], Qf[b][i][j]) for i in range(N) for j in range(N)]), [],
                          f'{self.sig}:precision_matrix-vs-fresh-object'))
        return goals

    def oracle(self, r, got, vals, fresh):
        B, N, P = self.B, self.N, self.Pn
        for b in range(B):
            x, tau, be, z = self._sample(vals, b)
            res = [x[i] - sum(z[i][p] * be[p] for p in range(P)) for i in range(N)]
            want = 0.5 * (N - 1) * math.log(tau) - 0.5 * tau * sum((res[i] - res[i + 1]) ** 2 for i in range(N - 1)) - 0.5 * (N - 1) * math.log(2 * math.pi)
            if r == 'call':
                lp = float(got.reshape(-1)[b])
                if not _close(lp, want):
                    return (f'sample {b}: GMRFCovariate() = {lp} but the intrinsic GMRF density of field - covariates x beta at the current '
                            f'parameters is {want} (field {x}, beta {be}, precision {tau})')
            else:
                Q = got.reshape(B, N, N)[b].to(torch.float64)
                rt = torch.tensor(res, dtype=torch.float64)
                qf = 0.5 * (N - 1) * math.log(tau) - 0.5 * float(rt @ Q @ rt) - 0.5 * (N - 1) * math.log(2 * math.pi)
                if not _close(qf, want):
                    return (f'sample {b}: the quadratic form with the published precision matrix gives {qf} but the density at the current '
                            f'parameters is {want} (precision {tau}, Q[0,0] = {float(Q[0, 0])})')
        return None


class WorldIntegrated(_World):
    """GMRFGammaIntegrated, plain or time-aware on a real TimeTreeModel; symbolic shape / rate"""
    reads = ('call',)
    extras = {'alpha': 1.3, 'beta': 0.7}
    hetero = False

    def __init__(self, N, time_aware, rescale=True):
        self.N, self.time_aware, self.rescale = N, time_aware, rescale
        if time_aware:
            self.shape = _tree_shapes(N)[0]
            self.order = _linear_extensions(N, self.shape)[0]
        self.sig = 'GMRFGammaIntegrated:' + ('time-aware' if time_aware else 'plain') + ':history'

    def label(self):
        return 'GMRFGammaIntegrated ' + (f'time-aware rescale={self.rescale} on TimeTreeModel {cm.to_newick(self.shape)}' if self.time_aware
                                         else 'plain') + f', field length {self.N}'

    def shapes(self):
        return {'x': (self.N,), **({'h': (self.N,)} if self.time_aware else {})}

    def witness(self, p, ver):
        if p == 'x':
            return [0.3 * i * i + 0.1 + 0.37 * ver * (i + 1) - 0.21 * ver * ver for i in range(self.N)]
        return self._h_witness(ver)

    def domain(self, d, S):
        return self._h_domain(d, S) if self.time_aware else []

    def patched(self):
        from torchtree.distributions import gmrf_integrated as gi

        @contextlib.contextmanager
        def cmgr():
            saved = gi.math
            gi.math = SymMath()
            try:
                yield
            finally:
                gi.math = saved

        return cmgr()

    def fns(self):
        from torchtree.distributions import gmrf_integrated as gi

        return [gi.GMRFGammaIntegrated._call, gi.GMRFGammaIntegrated.__init__]

    def build(self, tens, extras=None):
        from torchtree.core.parameter import Parameter
        from torchtree.distributions.gmrf_integrated import GMRFGammaIntegrated

        P = {'x': Parameter('field', tens['x'])}
        tree = None
        if self.time_aware:
            tree, P['h'] = self._tree(tens['h'])
        return {'P': P, 'gm': GMRFGammaIntegrated('g', P['x'], extras['alpha'], extras['beta'], tree, None, self.rescale)}

    def read(self, bd, r):
        return bd['gm']()

    def sym_goals(self, d, r, got, fresh, ids):
        if tuple(got.shape) != (1,):
            return [(f'{r}: one log density (got shape {list(got.shape)})', d.FALSE, [], f'{self.sig}:shape')]
        return [('GMRFGammaIntegrated() == value of a freshly built object holding the current field' + (' / node heights' if self.time_aware else ''),
                 d.eq(_flat_ids(d, got)[0], _flat_ids(d, fresh('call'))[0]), [], f'{self.sig}:density-vs-fresh-object')]

    def oracle(self, r, got, vals, fresh):
        N = self.N
        x, al, be = vals['x'], vals['alpha'], vals['beta']
        cs = [1.0] * (N - 1)
        if self.time_aware:
            ts = [0.0] + sorted(vals['h'])
            cs = [(ts[-1] if self.rescale else 1.0) / ((ts[i + 1] - ts[i - 1]) / 2.0) for i in range(1, N)]
        quad = sum(c * (x[i] - x[i + 1]) ** 2 for i, c in enumerate(cs))
        want = (-(N - 1) / 2 * math.log(2 * math.pi) + al * math.log(be) - math.lgamma(al) + math.lgamma(al + (N - 1) / 2)
                - (al + (N - 1) / 2) * math.log(be + quad / 2))
        lp = float(got.reshape(-1)[0])
        if not _close(lp, want):
            return (f'GMRFGammaIntegrated() = {lp} but the closed form at the current field {x}'
                    + (f' and internal heights {vals["h"]}' if self.time_aware else '') + f' is {want} (shape {al}, rate {be})')
        return None


class WorldCoalescent(_World):
    """skyride / skygrid model on a real TimeTreeModel, theta = exp(field) through the real TransformedParameter (CLI wiring)
    or a plain positive Parameter; optionally with the time-aware / plain GMRF on the same field (gmrf != None)"""
    hetero = True

    def __init__(self, model, N, direct, gmrf=None):
        self.model, self.N, self.direct, self.gmrf = model, N, direct, gmrf
        self.shape = _tree_shapes(N)[0]
        self.order = _linear_extensions(N, self.shape)[0]
        self.K = N if model == 'skyride' else 2
        self.grid = [1.5] if model == 'skygrid' else []  # between the first two coalescent events of every version
        self.reads = ('coal', 'ss') + (('gmrf', 'pm') if gmrf else ())
        self.sig = f'{model}:history'

    def label(self):
        return (f'{self.model} model on TimeTreeModel {cm.to_newick(self.shape)} (heterochronous tips), '
                + ('theta a plain Parameter' if self.direct else 'theta = exp(field)')
                + (f', grid {self.grid}' if self.grid else '') + (f', {self.gmrf} GMRF on the same field' if self.gmrf else ''))

    def shapes(self):
        s = {'g': (self.K,), 'h': (self.N,)}
        if self.gmrf:
            s['tau'] = (1,)
        return s

    def positive(self):
        return (('g',) if self.direct else ()) + (('tau',) if self.gmrf else ())

    def witness(self, p, ver):
        if p == 'g':
            return [(1.5 + 0.8 * k + 0.45 * ver) if self.direct else (0.4 + 0.35 * k - 0.2 * (k % 2) + 0.27 * ver * (1 + k) - 0.2 * ver * ver)
                    for k in range(self.K)]
        if p == 'tau':
            return [1.7 + 0.6 * ver]
        return self._h_witness(ver)

    def domain(self, d, S):
        cs = self._h_domain(d, S)
        if not self.direct:
            for v in range(HIST_MAXVER):
                for node in S('g', v):
                    cs += [d.le(d.const(-GAMMA_BOUND), node), d.le(node, d.const(GAMMA_BOUND))]
        return cs

    def fns(self):
        from torchtree.core.parameter import TransformedParameter
        from torchtree.distributions.gmrf import GMRF
        from torchtree.evolution import coalescent as co
        from torchtree.evolution.tree_model import TimeTreeModel

        cls = co.PiecewiseConstantCoalescent if self.model == 'skyride' else co.PiecewiseConstantCoalescentGrid
        return [cls.sufficient_statistics, cls.log_prob, co.AbstractCoalescentModel._call, TimeTreeModel.handle_parameter_changed] + \
            ([] if self.direct else [TransformedParameter.handle_parameter_changed]) + ([GMRF._call, GMRF.precision_matrix] if self.gmrf else [])

    def build(self, tens, extras=None):
        from torchtree.core.parameter import Parameter, TransformedParameter
        from torchtree.distributions.gmrf import GMRF
        from torchtree.evolution import coalescent as co

        tree, hp = self._tree(tens['h'])
        if self.direct:
            gp = theta = Parameter('coalescent.theta', tens['g'])
        else:
            gp = Parameter('coalescent.theta.log', tens['g'])
            theta = TransformedParameter('coalescent.theta', gp, torch.distributions.ExpTransform())
        if self.model == 'skygrid':
            cmodel = co.PiecewiseConstantCoalescentGridModel('coalescent', theta, Parameter('grid', torch.tensor(self.grid, dtype=torch.float64)), tree)
        else:
            cmodel = co.PiecewiseConstantCoalescentModel('coalescent', theta, tree)
        bd = {'P': {'g': gp, 'h': hp}, 'cm': cmodel, 'theta': theta, 'tree': tree}
        if self.gmrf:
            bd['P']['tau'] = Parameter('gmrf.precision', tens['tau'])
            bd['gm'] = GMRF('gmrf', gp, bd['P']['tau'], tree if self.gmrf == 'time-aware' else None, None, True)
        return bd

    def read(self, bd, r):
        if r == 'coal':
            return bd['cm']()
        if r == 'ss':
            ss, cnt = bd['cm'].distribution().sufficient_statistics(bd['tree'].node_heights)
            return ss, cnt
        if r == 'theta':  # (fresh objects only: the population sizes the current field stands for)
            return bd['theta'].tensor
        return bd['gm']() if r == 'gmrf' else bd['gm'].precision_matrix()

    def _tips(self):
        return [float(v) for v in _tip_dates(self.N, self.hetero)]

    def sym_goals(self, d, r, got, fresh, ids):
        K = self.K
        if r in ('coal', 'gmrf'):
            if tuple(got.shape) != (1,):
                return [(f'{r}: one log density (got shape {list(got.shape)})', d.FALSE, [], f'{self.sig}:shape')]
            what = 'the coalescent model call' if r == 'coal' else 'GMRF()'
            return [(f'{what} == value of a freshly built object holding the current field / node heights' + (' / precision' if r == 'gmrf' else ''),
                     d.eq(_flat_ids(d, got)[0], _flat_ids(d, fresh(r))[0]), [],
                     (f'{self.sig}:density-vs-fresh-object' if r == 'coal' else f'GMRF:{self.gmrf}:history:density-vs-fresh-object'))]
        if r == 'pm':
            if tuple(got.shape) != (K, K):
                return [(f'pm: a {K}x{K} matrix (got shape {list(got.shape)})', d.FALSE, [], f'GMRF:{self.gmrf}:history:shape')]
            Qs, Qf = _flat_ids(d, got), _flat_ids(d, fresh('pm'))
            goals = [('precision_matrix() == the matrix a freshly built object publishes for the current precision',
                      d.and_(*[d.eq(u, v) for u, v in zip(Qs, Qf)]), [], f'GMRF:{self.gmrf}:history:precision_matrix-vs-fresh-object')]
            if self.gmrf == 'plain':
                node = d.eq(_flat_ids(d, fresh('gmrf'))[0], _gauss_node(d, ids['g'], _nest(Qs, (K, K)), ids['tau'][0], K))
                goals.append(('GMRF density at the current field / precision == Gaussian quadratic form with the precision matrix published NOW',
                              node, ground_axioms(d, [node]), 'GMRF:plain:history:density-vs-precision_matrix'))
            return goals
        ss, cnt = got
        if tuple(ss.shape) != (K,) or tuple(cnt.shape) != (K,):
            return [(f'ss: {K} statistics and {K} counts (got shapes {list(ss.shape)}, {list(cnt.shape)})', d.FALSE, [], f'{self.sig}:shape')]
        ssi, ci = _flat_ids(d, ss), _flat_ids(d, cnt)
        th = _flat_ids(d, fresh('theta'))
        rec = 0
        for s_, c_, t_ in zip(ssi, ci, th):
            rec = d.sub(rec, d.div(s_, t_))
            rec = d.sub(rec, d.mul(c_, d.log(t_)))
        node = d.eq(_flat_ids(d, fresh('coal'))[0], rec)
        goals = [('-sum ss_k/theta_k - sum c_k log theta_k, with the statistics / counts published NOW, == coalescent log density of a fresh '
                  'object at the current node heights / population sizes', node, ground_axioms(d, [node]), f'{self.sig}:sufficient_statistics')]
        C = [mkfloat(x) for x in ids['h']]
        oss, ocnt = interval_oracle(self._tips(), C, list(C) if self.model == 'skyride' else self.grid, K, self.model == 'skyride')
        node2 = d.and_(*([d.eq(ssi[k], SymFloat._id(oss[k])) for k in range(K)] + [d.eq(ci[k], d.const(ocnt[k])) for k in range(K)]))
        goals.append((f'for each of the {K} intervals, the statistic published NOW == int C(lineages,2) dt over that interval at the CURRENT '
                      f'node heights and the count == number of coalescent events in it', node2, [], f'{self.sig}:sufficient_statistics:per-interval'))
        return goals

    def oracle(self, r, got, vals, fresh):
        K = self.K
        h = vals['h']
        th = list(vals['g']) if self.direct else [math.exp(v) for v in vals['g']]
        oss, ocnt = interval_oracle(self._tips(), h, list(h) if self.model == 'skyride' else self.grid, K, self.model == 'skyride')
        want = -sum(s_ / t_ for s_, t_ in zip(oss, th)) - sum(c_ * math.log(t_) for c_, t_ in zip(ocnt, th))
        if r == 'coal':
            lp = float(got.reshape(-1)[0])
            if not _close(lp, want):
                return f'the coalescent model call = {lp} but the event-list oracle at the current heights {h} / population sizes {th} gives {want}'
        elif r == 'ss':
            ss, cnt = [float(v) for v in got[0].reshape(-1)], [float(v) for v in got[1].reshape(-1)]
            rec = -sum(s_ / t_ for s_, t_ in zip(ss, th)) - sum(c_ * math.log(t_) for c_, t_ in zip(cnt, th))
            if not _close(rec, want) or not all(_close(a, b) for a, b in zip(ss + cnt, list(oss) + list(ocnt))):
                return (f'sufficient statistics {ss} / counts {cnt} reproduce {rec} but the coalescent log density at the current heights {h} / '
                        f'population sizes {th} is {want} (the intervals hold {oss} / {ocnt})')
        else:
            ref = fresh(r)
            if not torch.allclose(torch.as_tensor(got).to(torch.float64), torch.as_tensor(ref).to(torch.float64), rtol=1e-9, atol=1e-12):
                return (f'{"GMRF()" if r == "gmrf" else "precision_matrix()"} = {torch.as_tensor(got).reshape(-1).tolist()[:4]} but a freshly built '
                        f'object at the current field {vals["g"]} / precision {vals["tau"]} / heights {h} gives '
                        f'{torch.as_tensor(ref).reshape(-1).tolist()[:4]}')
        return None


class WorldCoalInt(_World):
    """ConstantCoalescentIntegratedModel (from_json) on a real TimeTreeModel; symbolic alpha / beta"""
    reads = ('call',)
    extras = {'alpha': 1.3, 'beta': 0.7}
    hetero = True

    def __init__(self, N):
        self.N = N
        self.shape = _tree_shapes(N)[0]
        self.order = _linear_extensions(N, self.shape)[0]
        self.sig = 'ConstantCoalescentIntegrated:history'

    def label(self):
        return f'ConstantCoalescentIntegratedModel on TimeTreeModel {cm.to_newick(self.shape)} (heterochronous tips)'

    def shapes(self):
        return {'h': (self.N,)}

    def witness(self, p, ver):
        return self._h_witness(ver)

    def domain(self, d, S):
        return self._h_domain(d, S)

    def patched(self):
        from torchtree.evolution import coalescent as co

        @contextlib.contextmanager
        def cmgr():
            saved = co.math
            co.math = SymMath()
            try:
                yield
            finally:
                co.math = saved

        return cmgr()

    def fns(self):
        from torchtree.evolution import coalescent as co

        return [co.ConstantCoalescentIntegrated.log_prob, co.ConstantCoalescentIntegratedModel._call]

    def build(self, tens, extras=None):
        import torchtree.evolution.taxa  # noqa
        import torchtree.evolution.tree_model  # noqa

        n = self.N + 1
        dic = {}
        cm.build(cm.taxa_json(n, _tip_dates(self.N, self.hetero)), dic)
        model, _ = cm.build({'id': 'coalescent', 'type': 'ConstantCoalescentIntegratedModel', 'alpha': 3, 'beta': 0.003,
                             'tree_model': cm.time_tree_json(self.shape, n)}, dic)
        model.alpha, model.beta = extras['alpha'], extras['beta']
        dic['tree.heights'].tensor = tens['h']
        return {'P': {'h': dic['tree.heights']}, 'cm': model}

    def read(self, bd, r):
        return bd['cm']()

    def sym_goals(self, d, r, got, fresh, ids):
        if tuple(got.shape) != (1,):
            return [(f'{r}: one log density (got shape {list(got.shape)})', d.FALSE, [], f'{self.sig}:shape')]
        return [('ConstantCoalescentIntegratedModel() == value of a freshly built object holding the current node heights',
                 d.eq(_flat_ids(d, got)[0], _flat_ids(d, fresh('call'))[0]), [], f'{self.sig}:density-vs-fresh-object')]

    def oracle(self, r, got, vals, fresh):
        n = self.N + 1
        al, be, h = vals['alpha'], vals['beta'], vals['h']
        oss, _ = interval_oracle([float(v) for v in _tip_dates(self.N, self.hetero)], h, [], 1, False)
        want = al * math.log(be) - math.lgamma(al) + math.lgamma(al + n - 1) - (al + n - 1) * math.log(be + oss[0])
        lp = float(got.reshape(-1)[0])
        if not _close(lp, want):
            return f'ConstantCoalescentIntegratedModel() = {lp} but the closed form at the current internal heights {h} is {want}'
        return None


def make_world(spec):
    kind = spec[0]
    if kind == 'gmrf':
        return WorldGMRF(spec[1], spec[2])
    if kind == 'gmrf-time':
        return WorldGMRFTime(*spec[1:])
    if kind == 'covariate':
        return WorldCovariate(*spec[1:])
    if kind == 'integrated':
        return WorldIntegrated(*spec[1:])
    if kind == 'coalescent':
        return WorldCoalescent(*spec[1:])
    if kind == 'coalint':
        return WorldCoalInt(spec[1])
    raise ValueError(spec)


def hist_name(p, ver, k):
    return f'{p}{ver}_{k}'


def hist_prefixes(reads, limit=None):
    """every order of every subset of the reads (the empty one = a freshly built object); limit: only the empty prefix, the
    single reads and the rotations of the full set (worlds with four reads)"""
    out = [()]
    for m in range(1, len(reads) + 1):
        for c in itertools.permutations(reads, m):
            if limit and 1 < m and not (m == len(reads) and c in [tuple(reads[i:] + reads[:i]) for i in range(len(reads))]):
                continue
            out.append(tuple(('r', r) for r in c))
    return out


def hist_sequences(world, L, kinds=('assign', 'inplace', 'restore')):
    """operation sequences of length exactly L that end in a read (every shorter history is a prefix of one of them and
    every read on the way is checked); restore only after a write to the same parameter"""
    reads = [('r', r) for r in world.reads]
    params = list(world.shapes())
    out = []

    def rec(seq, written):
        if len(seq) == L - 1:
            out.extend(seq + [r] for r in reads)
            return
        for r in reads:
            rec(seq + [r], written)
        for p in params:
            for k in kinds:
                if k == 'restore' and p not in written:
                    continue
                rec(seq + [('w', p, k)], written | {p})

    rec([], frozenset())
    return [tuple(s) for s in out]


def hist_text(prefix, ops):
    def one(o):
        return o[1] + '()' if o[0] == 'r' else f'{o[1]}:{o[2]}'

    return (' '.join(one(o) for o in prefix) or '(fresh object)') + ' | ' + ' '.join(one(o) for o in ops)


def hist_exec(world, history, tensor_of, scalar_of, extras, on_read, upto=None):
    """run one history on one freshly built object graph.  state[p][k] = (version, k): which symbol sits at position k of p"""
    shapes = world.shapes()
    bd = world.build({p: tensor_of(p, [(0, k) for k in range(_numel(s))]) for p, s in shapes.items()}, extras)
    state = {p: [(0, k) for k in range(_numel(s))] for p, s in shapes.items()}
    saved_t, saved_s = {}, {}
    vers = {p: 0 for p in shapes}
    for i, op in enumerate(history):
        if upto is not None and i > upto:
            break
        if op[0] == 'r':
            if on_read(i, op[1], world.read(bd, op[1]), {p: list(s) for p, s in state.items()}) is False:
                return
            continue
        _, p, kind = op
        par = bd['P'][p]
        if kind == 'restore':
            par.tensor = saved_t[p]  # MCMCOperator.reject
            state[p] = list(saved_s[p])
            continue
        saved_t[p] = par.tensor.clone()  # MCMCOperator.step
        saved_s[p] = list(state[p])
        vers[p] += 1
        v = vers[p]
        n = _numel(shapes[p])
        if kind == 'assign':
            state[p] = [(v, k) for k in range(n)]
            par.tensor = tensor_of(p, state[p])
        else:
            k = (v - 1) % n
            tt = par.tensor
            tt[_unravel(k, shapes[p])] = scalar_of(p, v, k)
            par.fire_parameter_changed()
            state[p][k] = (v, k)


def hist_inputs(world):
    W = {}
    for p, s in world.shapes().items():
        for v in range(HIST_MAXVER):
            for k, val in enumerate(world.witness(p, v)):
                W[hist_name(p, v, k)] = float(val)
    W.update(world.extras)
    return W


def hist_replay(world, history, vals, W, upto=None):
    """the real classes on plain tensors; every read is compared with an independent float oracle (and a fresh rebuild)"""
    get = lambda k: float(vals[k]) if vals.get(k) is not None else float(W[k])  # noqa
    shapes = world.shapes()
    pos = set(world.positive())
    val = lambda p, v, k: (abs(get(hist_name(p, v, k))) + 1e-9) if p in pos else get(hist_name(p, v, k))  # noqa
    tensor_of = lambda p, st: torch.tensor([val(p, v, k) for v, k in st], dtype=torch.float64).reshape(shapes[p])  # noqa
    scalar_of = lambda p, v, k: val(p, v, k)  # noqa
    extras = {k: abs(get(k)) + 1e-9 for k in world.extras}
    found = []

    def on_read(i, r, got, state):
        cur_vals = {p: [val(p, v, k) for v, k in st] for p, st in state.items()}
        cur_vals.update(extras)

        def fresh(rr):
            return world.read(world.build({p: tensor_of(p, st) for p, st in state.items()}, extras), rr)

        msg = world.oracle(r, got, cur_vals, fresh)
        if msg:
            ops = [o[1] + '()' if o[0] == 'r' else f'{o[1]}:{o[2]}' for o in history[:i + 1]]
            found.append(f'after the history [{", ".join(ops)}] on one object: {msg}')
            return False
        return True

    try:
        hist_exec(world, history, tensor_of, scalar_of, extras, on_read, upto)
    except Exception as e:
        return True, f'raised {type(e).__name__}: {str(e)[:160]}'
    return (True, found[0]) if found else (False, 'agree')


def hist_task(task, tr):
    """('hist', world spec, L, prefix index or None (= all), write kinds)"""
    from symtorch.explore import _to_float, prove

    _, spec, L, pi, kinds = task
    world = make_world(spec)
    prefixes = hist_prefixes(list(world.reads), limit=len(world.reads) > 3)
    if pi is not None:
        prefixes = [prefixes[pi]]
    seqs = hist_sequences(world, L, kinds)
    shapes = world.shapes()
    label = (f'histories on one object: {world.label()}; {len(prefixes)} read order(s) ' +
             (f'[{hist_text(prefixes[0], ())[:-3]}] ' if pi is not None else '') + f'x {len(seqs)} sequences of {L} operations')
    W = hist_inputs(world)
    tr.fn(*world.fns())
    names = {p: [[hist_name(p, v, k) for k in range(_numel(s))] for v in range(HIST_MAXVER)] for p, s in shapes.items()}

    def domain(d, V):
        S = lambda p, v: [V[n] for n in names[p][v]]  # noqa
        cs = [d.lt(0, V[k]) for k in world.extras]
        for p in world.positive():
            for v in range(HIST_MAXVER):
                cs += [d.lt(0, node) for node in S(p, v)]
        return cs + world.domain(d, S)

    def body(t, V, W_):
        d = t.dag
        goals, memo_fresh, memo_goals = {}, {}, {}
        tensor_of = lambda p, st: from_ids(torch.tensor([V[hist_name(p, v, k)] for v, k in st], dtype=torch.int64).reshape(shapes[p]))  # noqa
        scalar_of = lambda p, v, k: from_ids(torch.tensor(V[hist_name(p, v, k)], dtype=torch.int64))  # noqa
        with world.patched():
            extras = {k: mkfloat(V[k]) for k in world.extras}

            def fresh_at(state):
                key = tuple((p, tuple(st)) for p, st in sorted(state.items()))

                def fresh(r):
                    if (key, r) not in memo_fresh:  # one freshly built object graph per quantity
                        memo_fresh[(key, r)] = world.read(world.build({p: tensor_of(p, st) for p, st in state.items()}, extras), r)
                    return memo_fresh[(key, r)]

                return key, fresh

            for prefix in prefixes:
                for ops in seqs:
                    history = tuple(prefix) + tuple(ops)

                    def on_read(i, r, got, state, history=history):
                        key, fresh = fresh_at(state)
                        parts = got if isinstance(got, tuple) else (got,)
                        gk = (key, r, tuple(tuple(_flat_ids(d, x)) + tuple(x.shape) for x in parts))
                        if gk not in memo_goals:
                            ids = {p: [V[hist_name(p, v, k)] for v, k in st] for p, st in state.items()}
                            memo_goals[gk] = world.sym_goals(d, r, got, fresh, ids)
                        for lab, node, hyps, sig in memo_goals[gk]:
                            if (node, sig) not in goals:
                                goals[(node, sig)] = Goal(f'{lab} [first met after: {hist_text(history[:len(prefix)], history[len(prefix):i + 1])}]',
                                                          node, hyps=hyps, signature=sig, info={'history': history, 'step': i})
                        tr.evaluations += 1
                        return True

                    hist_exec(world, history, tensor_of, scalar_of, extras, on_read)
            # ---- vacuity guards: every kind of write to every parameter can change what some read returns
            st0 = {p: [(0, k) for k in range(_numel(s))] for p, s in shapes.items()}
            dom = domain(d, V)
            for p, s in shapes.items():
                for kind in kinds:
                    if kind == 'restore':
                        continue
                    st1 = {q: list(v) for q, v in st0.items()}
                    st1[p] = [(1, k) for k in range(_numel(s))] if kind == 'assign' else [(1, 0)] + st0[p][1:]
                    f0, f1 = fresh_at(st0)[1], fresh_at(st1)[1]
                    status = 'proved'
                    for r in world.reads:
                        a, b = f0(r), f1(r)
                        a, b = (a if isinstance(a, tuple) else (a,)), (b if isinstance(b, tuple) else (b,))
                        same = d.and_(*[d.eq(u, v) for x, y in zip(a, b) for u, v in zip(_flat_ids(d, x), _flat_ids(d, y))])
                        if same == d.TRUE:
                            continue
                        status = prove(d, dom + list(t.pcs), same, timeout=20, tr=tr, label='vacuity guard')[0]
                        if status == 'unknown':
                            # an existence statement: ask again with every variable replaced by its witness value (an
                            # under-approximation that can only FIND a point where the write changes the value)
                            roots = [same] + dom + list(t.pcs)
                            pin = {i: d.const(d.vals[i]) for i in d.topo(roots) if d.ops[i] == 'var'}
                            rs = d.substitute(roots, pin)
                            status = prove(d, rs[1:], rs[0], timeout=20, tr=tr, label='vacuity guard at the witness')[0]
                        if status == 'refuted':
                            break
                    if status != 'refuted':
                        tr.inconc(f'{label}: vacuity guard: a write ({kind}) to {p} cannot change any read value ({status})')
        out_goals = list(goals.values())
        return out_goals + _defined_goals(t, d, world.sig)

    tr.bounds['histories on one object'] = (
        'objects: plain GMRF (field length 3, unbatched and a batch of 2), time-aware GMRF and GMRFGammaIntegrated on a real '
        'TimeTreeModel (caterpillar, 4 taxa), GMRFCovariate (N = 3, P = 2), skyride / skygrid models on a real heterochronous '
        'TimeTreeModel (3 taxa) with theta = exp(field) or a plain theta, ConstantCoalescentIntegratedModel: every order of every '
        'subset of the reads followed by every sequence of 3 (thorough 4; time-aware GMRF and GMRFCovariate: 4 without the in-place writes) operations out '
        'of {each read, each parameter x assign-fresh / in-place + fire_parameter_changed / restore-the-saved-clone}; coalescent model and plain / time-aware GMRF wired to one '
        'shared field (four reads: no read, single reads, rotations of all four, then 2 operations; thorough 3); thorough, 3 '
        'operations: rescale off, the balanced 4-taxon tree in both orders of its inner nodes, 4 taxa for the coalescent models, '
        'the documented batch shapes of GMRFCovariate.  Every parameter version has its own symbols; version v of the height of a '
        'node stays in a band of its own, so the order of the coalescent events and their position relative to tips and grid is '
        'fixed (interleavings: (d), (d\'))')
    if world.extras:
        tr.stubs.add('history tasks: math -> SymMath in gmrf_integrated / coalescent (symbolic shape / rate)')
    W0 = dict(W)
    ex = Explorer(W, domain, body, tr, max_regions=8, timeout=40.0, label=label, deadline=time.time() + 1500, check_defined=False,
                  parallel=(spec[0] in PORTFOLIO_KINDS))
    out = ex.run()
    for s in out.region_samples[:1]:
        s['case'] = label
        tr.sample(s)
    # triage with the history of the failing goal
    sigs = set()
    for g, model, k, witness in out.failed:
        info = g.info or {}
        if g.signature in sigs:
            continue
        if 'history' not in info:
            tr.inconc(f'{label}: {g.label} refuted (no history attached)')
            continue
        for vals in ({a: _to_float(b) for a, b in model.items() if b is not None}, witness):
            ok, detail = hist_replay(world, info['history'], vals, W0, info['step'])
            if ok:
                break
        if ok:
            sigs.add(g.signature)
            tr.violation(g.signature, f'{world.label()}: {g.label}: {detail}',
                         {'world': list(spec), 'history': [list(o) for o in info['history']], 'values': vals})
        else:
            tr.inconc(f'{label}: solver counterexample for "{g.label}" did not reproduce on the real code ({detail})')
    for lab, detail, witness in out.unknown:
        tr.inconc(f'{label}: {lab} undecided ({detail})')


# ------------------------------------------------------------------ driver
# task kinds whose goals are sent to the three solvers at once (first definite answer wins): degree-5 polynomial identities
# that z3 4.8 needs > 10 s for and cvc5 closes at once (or the other way round)
PORTFOLIO_KINDS = ('covariate',)


def run_task(task, tr):
    import C08

    kind = task[0]
    if kind == 'gmrf':
        _, N, gk, rescale, batched = task
        body, fns = gmrf_body(N, gk, rescale, batched)
        label = f'GMRF N={N} {gk} rescale={rescale} batched={batched}'
        B = 2 if batched else 1
        W = {}
        for b in range(B):
            W.update({f'x{b}_{i}': 0.3 * i * i - 0.2 * b + 0.1 for i in range(N)})
            W[f'tau{b}'] = 1.7 + b
        if gk == 'time-aware':
            W.update({f's{i}': 0.0 for i in range(N + 1)})
            W.update({f'h{i}': 0.8 + 0.9 * i for i in range(N)})
        if gk == 'weighted':
            W.update({f'w{i}': 0.6 + 0.5 * i for i in range(N - 1)})

        def domain(d, V):
            cs = [d.lt(0, V[k]) for k in V if k.startswith(('tau', 'w'))]
            if gk == 'time-aware':
                cs += [d.eq(V[f's{i}'], 0) for i in range(N + 1)]
                cs += [d.lt(0, V[f'h{i}']) for i in range(N)]
                # distinct coalescent times (durations appear as denominators)
                cs += [d.not_(d.eq(V[f'h{i}'], V[f'h{j}'])) for i in range(N) for j in range(i)]
                # the stand-in carries the heights of a tree: the root is the last node and the oldest
                cs += [d.lt(V[f'h{i}'], V[f'h{N - 1}']) for i in range(N - 1)]
            return cs

        rp = lambda vals: gmrf_replay(N, gk, rescale, batched, vals)  # noqa
        extra = {'N': N, 'kind': gk}
    elif kind == 'intended':
        _, model, N, gk, rescale, variant, si, hetero = task
        shape = _tree_shapes(N)[si] if gk == 'time-aware' else None
        body, fns = intended_body(model, N, gk, rescale, variant, shape, hetero)
        B = VARIANTS[variant][0]
        label = (f'{SIG[model]} vs intended structure matrix: N={N} {gk} rescale={rescale} batching={variant}'
                 + (f' tree={cm.to_newick(shape)} tips={"heterochronous" if hetero else "at 0"}' if shape is not None else ''))
        W = intended_witness(model, N, gk, variant, shape, hetero)
        domain = intended_domain(model, N, gk, variant, shape, hetero)
        W0 = dict(W)
        rp = lambda vals: intended_replay(model, N, gk, rescale, variant, shape, hetero, vals, W0)  # noqa
        extra = {'model': model, 'N': N, 'kind': gk, 'rescale': rescale, 'batching': variant,
                 'tree': cm.to_newick(shape) if shape is not None else None, 'heterochronous': hetero}
        tr.bounds['intended structure matrix'] = (
            'field length 2..4 (5 thorough); batch shapes [] and [2] ([3] thorough) with the tree / weights and the precision '
            'batched or shared; time-aware: real TimeTreeModel, every rooted tree shape with N+1 taxa, internal heights '
            'symbolic subject to parent > child, tips at 0 or at fixed heterochronous dates; both values of rescale; '
            'GMRFGammaIntegrated: field length 3 (2..4 thorough), symbolic shape / rate shared by the batch')
        if gk == 'time-aware':
            tr.assumptions.add('time-aware GMRF: no three coalescent events at exactly the same time (an interval pair of '
                               'length zero divides by zero); ties of two events are inside the domain')
            tr.assumptions.add('time-aware GMRF: the newick topology only fixes which internal heights are ordered '
                               '(parent > child); tip dates are concrete (TimeTreeModel.sampling_times is built from the taxa)')
        if model == 'integrated':
            tr.stubs.add('gmrf_integrated.math -> SymMath (log / lgamma of the symbolic shape and rate stay symbolic, lgamma uninterpreted)')
    elif kind == 'covariate':
        _, N, P, variant, json_list = task
        body, fns = covariate_body(N, P, variant, json_list)
        label = (f'GMRFCovariate N={N} covariates={P} batching={variant} '
                 f'(covariates given as a {"list" if json_list else "Parameter"} in the JSON)')
        W = cov_witness(N, P, variant)
        nmc = cov_names(N, P, variant)
        domain = lambda d, V: [d.lt(0, V[k]) for k in nmc['tau']]  # noqa
        W0 = dict(W)
        rp = lambda vals: covariate_replay(N, P, variant, json_list, vals, W0)  # noqa
        extra = {'N': N, 'P': P, 'batching': variant, 'json_list': json_list}
        tr.bounds['GMRFCovariate'] = (
            'field length 2..4 (5 thorough), 1..3 covariates (also as many covariates as field entries), field / precision / '
            'covariates / beta all symbolic; sample shapes [] and [2] (and [N]: as many samples as field entries) with beta, '
            'the covariates and the precision batched or shared; object built by the real from_json (covariates as list or as '
            'Parameter).  The class passes neither tree model nor weights on, so the plain structure matrix is its only variant')
    elif kind == 'integrated':
        _, N = task
        body, fns = integrated_body(N)
        label = f'GMRFGammaIntegrated N={N}'
        W = {f'x{i}': 0.3 * i * i + 0.1 for i in range(N)}
        W.update({'alpha': 1.3, 'beta': 0.7})
        domain = lambda d, V: [d.lt(0, V['alpha']), d.lt(0, V['beta'])]  # noqa
        rp = lambda vals: integrated_replay(N, vals)  # noqa
        extra = {'N': N}
    elif kind == 'integrated-time':
        _, N, rescale = task
        body, fns = integrated_body(N, rescale)
        label = f'GMRFGammaIntegrated time-aware N={N} rescale={rescale}'
        W = {f'x{i}': 0.3 * i * i + 0.1 for i in range(N)}
        W.update({'alpha': 1.3, 'beta': 0.7})
        W.update({f's{i}': 0.0 for i in range(N + 1)})
        W.update({f'h{i}': 0.8 + 0.9 * i for i in range(N)})

        def domain(d, V):
            cs = [d.lt(0, V['alpha']), d.lt(0, V['beta'])]
            cs += [d.eq(V[f's{i}'], 0) for i in range(N + 1)]
            cs += [d.lt(0, V[f'h{i}']) for i in range(N)]
            cs += [d.not_(d.eq(V[f'h{i}'], V[f'h{j}'])) for i in range(N) for j in range(i)]
            # the stand-in carries the heights of a tree: the root is the last node and the oldest
            cs += [d.lt(V[f'h{i}'], V[f'h{N - 1}']) for i in range(N - 1)]
            return cs

        rp = lambda vals: integrated_time_replay(N, rescale, vals)  # noqa
        extra = {'N': N, 'rescale': rescale}
    elif kind == 'ss-batched':
        return ss_batched_task(task, tr)
    elif kind == 'ss2':
        return ss2_task(task, tr)
    elif kind == 'hist':
        return hist_task(task, tr)
    elif kind == 'rounds':
        return rounds_task(task, tr)
    elif kind == 'coalint':
        n, perm = task[1], task[2]
        mode = task[3] if len(task) > 3 else 'float'
        body, fns = coal_integrated_body(n, mode)
        label = f'ConstantCoalescentIntegrated n={n} sampling-order={perm}' + (f' [{mode}]' if mode != 'float' else '')
        W = C08.initial_witness(n, perm, 0, 0)
        if mode == 'batched':  # second tree: reversed sampling order, other heights
            W.update({_row(1, k): 0.6 * v + (0.2 if k.startswith('c') else 0.0)
                      for k, v in C08.initial_witness(n, tuple(reversed(perm)), 0, 0).items()})
        W.update({'alpha': 1.3, 'beta': 0.7})

        def domain(d, V):
            cs = [d.lt(0, V['alpha']), d.lt(0, V['beta'])]
            for b in range(2 if mode == 'batched' else 1):
                Vb = {k: V[_row(b, k)] for k in [f's{i}' for i in range(n)] + [f'c{j}' for j in range(n - 1)]}
                cs += C08.coalescent_domain(d, Vb, n, C08.order_constraint(d, Vb, perm if b == 0 else tuple(reversed(perm))))
            return cs

        rp = lambda vals: coal_integrated_replay(n, vals, mode)  # noqa
        extra = {'n': n, 'mode': mode}
        tr.assumptions.add('Gamma recurrence (trusted): lgamma(x+1) = lgamma(x) + log(x) for x > 0, used as hypothesis instances '
                           'x = alpha .. alpha+n-2 in the rising-factorial statement of the integrated coalescent')
    elif kind == 'coalint-model':
        _, N, si, hetero, batched = task
        shape = _tree_shapes(N)[si]
        body, fns = coalint_model_body(N, shape, hetero, batched)
        label = (f'ConstantCoalescentIntegratedModel (from_json, real TimeTreeModel) tree={cm.to_newick(shape)} '
                 f'tips={"heterochronous" if hetero else "at 0"} batched={batched}')
        # internal heights h{b}_{i} that respect the tree (same witness / domain builders as the time-aware GMRF tasks)
        W = {k: v for k, v in intended_witness('gmrf', N, 'time-aware', 'batch' if batched else 'single', shape, hetero).items()
             if k.startswith('h')}
        W.update({'alpha': 1.3, 'beta': 0.7})
        domain = intended_domain('integrated', N, 'time-aware', 'batch' if batched else 'single', shape, hetero)
        W0 = dict(W)
        rp = lambda vals: coalint_model_replay(N, shape, hetero, batched, vals, W0)  # noqa
        extra = {'N': N, 'tree': cm.to_newick(shape), 'heterochronous': hetero, 'batched': batched}
        tr.stubs.add('coalescent.math -> SymMath (log / lgamma of the symbolic prior parameters stay symbolic, lgamma uninterpreted)')
        tr.assumptions.add('Gamma recurrence (trusted): lgamma(x+1) = lgamma(x) + log(x) for x > 0, used as hypothesis instances '
                           'x = alpha .. alpha+n-2 in the rising-factorial statement of the integrated coalescent')
    else:
        _, model, n, G, perm = task
        body, fns = suffstat_body(model, n, G)
        label = f'sufficient statistics {model} n={n} G={G} sampling-order={perm}'
        W = C08.initial_witness(n, perm, G if model == 'skygrid' else 0, (n - 1) if model == 'skyride' else G + 1)

        def domain(d, V):
            ex = C08.order_constraint(d, V, perm)
            for g in range(G if model == 'skygrid' else 0):
                ex.append(d.lt(0, V[f'g{g}']))
                if g:
                    ex.append(d.le(V[f'g{g-1}'], V[f'g{g}']))
            return C08.coalescent_domain(d, V, n, ex)

        rp = lambda vals: suffstat_replay(model, n, G, vals)  # noqa
        extra = {'model': model, 'n': n, 'G': G}
    tr.fn(*fns)
    ex = Explorer(W, domain, body, tr, max_regions=300, timeout=40.0, label=label, deadline=time.time() + 900,
                  check_defined=(kind != 'intended'),  # the 'intended' bodies return their own well-definedness goals
                  parallel=(kind in PORTFOLIO_KINDS))
    out = ex.run()
    for s in out.region_samples[:1]:
        s['case'] = label
        tr.sample(s)
    triage(out, rp, tr, label, extra)


def intended_tasks(tier):
    """GMRF / GMRFGammaIntegrated against the intended (weighted / time-aware) structure matrix, single and batched"""
    thorough = tier == 'thorough'
    ts = []
    for N in ((2, 3, 4, 5) if thorough else (2, 3, 4)):
        for si in range(len(_tree_shapes(N))):
            for rescale in (True, False):
                for variant in ('single', 'batch'):
                    ts.append(('intended', 'gmrf', N, 'time-aware', rescale, variant, si, False))
                    if thorough and N <= 4:
                        ts.append(('intended', 'gmrf', N, 'time-aware', rescale, variant, si, True))
    for rescale in (True, False):
        ts.append(('intended', 'gmrf', 3, 'time-aware', rescale, 'batch', 1, True))  # heterochronous tips
        ts.append(('intended', 'gmrf', 3, 'time-aware', rescale, 'shared-tree', 1, False))
        ts.append(('intended', 'gmrf', 3, 'time-aware', rescale, 'shared-precision', 1, False))
        if thorough:
            for N in (3, 4):
                for si in range(len(_tree_shapes(N))):
                    ts.append(('intended', 'gmrf', N, 'time-aware', rescale, 'batch3', si, False))
                    ts.append(('intended', 'gmrf', N, 'time-aware', rescale, 'shared-tree', si, True))
                    ts.append(('intended', 'gmrf', N, 'time-aware', rescale, 'shared-precision', si, True))
    for N in ((2, 3, 4, 5) if thorough else (3, 4)):
        for variant in ('single', 'batch', 'shared-tree') + (('batch3', 'shared-precision') if thorough else ()):
            ts.append(('intended', 'gmrf', N, 'weighted', True, variant, 0, False))
    # the integrated prior repeats the weighting code of GMRF._call
    for N in ((2, 3, 4) if thorough else (3,)):
        for si in range(len(_tree_shapes(N))):
            for rescale in (True, False):
                for variant in ('single', 'batch') + (('batch3', 'shared-tree') if thorough else ()):
                    ts.append(('intended', 'integrated', N, 'time-aware', rescale, variant, si, thorough and si % 2 == 1))
        for variant in ('single', 'batch', 'shared-tree'):
            ts.append(('intended', 'integrated', N, 'weighted', True, variant, 0, False))
    return ts


def covariate_tasks(tier):
    thorough = tier == 'thorough'
    ts = []
    sizes = [(2, 1), (3, 2), (3, 3), (4, 2)] + ([(2, 2), (2, 3), (3, 1), (4, 1), (4, 3), (4, 4), (5, 1), (5, 2), (5, 3)] if thorough else [])
    for k, (N, P) in enumerate(sizes):
        ts.append(('covariate', N, P, 'single', k % 2 == 0))
        if thorough:
            ts.append(('covariate', N, P, 'single', k % 2 == 1))
    for N, P in ([(3, 2)] + ([(2, 1), (2, 2), (4, 2), (4, 3)] if thorough else [])):
        for variant in COV_VARIANTS:
            if variant != 'single':
                ts.append(('covariate', N, P, variant, False))
    return ts


def ss2_tasks(tier):
    """ties (aliasing), grids beyond the root, and the quantities the block-update operator reads"""
    thorough = tier == 'thorough'
    ts = []
    op = ('via', 'operator')
    for n in ((3, 4) if thorough else (3,)):
        perms = list(itertools.permutations(range(n)))
        some = [perms[0], perms[len(perms) * 2 // 3]]
        # sampling orders for the consumer tasks: quick three of the six (the statistics themselves: all six); n = 4: one of 24
        # (a whole-domain exploration with four heterochronous tips has 240-450 regions)
        cons = perms if (thorough and n == 3) else (perms[0::3] + some if n == 3 else perms[:1])
        for perm in perms:
            last = f's{perm[-1]}'  # the youngest-sampled tip: its sampling time is > 0 wherever the tips are not all at 0
            if n == 4 and perm not in perms[::6]:
                continue
            # ---- ties between a grid point and a sampling / coalescent time, between a sampling and a coalescent time
            for other in [last] + [f'c{j}' for j in range(n - 1)]:
                ts.append(('ss2', 'skygrid', n, 1, perm, (('alias', (('g0', other),)),)))
                if (thorough and n == 3) or (perm in some and other != last):
                    ts.append(('ss2', 'skygrid', n, 1, perm, (('alias', (('g0', other),)), op)))
            for j in range(n - 1):
                ts.append(('ss2', 'skyride', n, 0, perm, (('alias', ((last, f'c{j}'),)),)))
            if n == 3 and (thorough or perm in some):
                ts.append(('ss2', 'skygrid', n, 2, perm, (('alias', (('g0', 'c0'), ('g1', 'c1'))),)))  # both grid points on coalescent times
                ts.append(('ss2', 'skygrid', n, 2, perm, (('alias', (('g0', last), ('g1', 'c0'))),)))
            if n == 3 and (thorough or perm == perms[0]):
                ts.append(('ss2', 'skygrid', n, 2, perm, (('alias', (('g1', 'g0'),)),)))  # two grid points at the same time
            # ---- grid entirely beyond the root
            for G in ((1, 2) if thorough else (2,)):  # one grid point beyond the root: regions of the whole-domain tasks below
                ts.append(('ss2', 'skygrid', n, G, perm, (('beyond', True),)))
                if perm in cons:
                    ts.append(('ss2', 'skygrid', n, G, perm, (('beyond', True), op)))
            # ---- the consumer on the whole domain (grid points inside / beyond the tree: every interleaving)
            if perm in cons:
                ts.append(('ss2', 'skygrid', n, 1, perm, (op,)))
                ts.append(('ss2', 'skyride', n, 0, perm, (op,)))
            if n == 3 and thorough:
                ts.append(('ss2', 'skygrid', n, 2, perm, (op,)))
            if (thorough and n == 3) or perm in some:
                ts.append(('ss2', 'skyride', n, 0, perm, (op, ('gmrf', 'time-aware'))))  # the CLI's default skyride wiring
        # two grid points, tips sampled together: every interleaving of the grid with the coalescent times
        ts.append(('ss2', 'skygrid', n, 2, perms[0], (op, ('iso', True))))
        ts.append(('ss2', 'skygrid', n, 2, perms[0], (('iso', True),)))
    # ---- batches of two trees through __call__
    for cfg, c in enumerate(SS2_BATCH_CONFIGS):
        n = len(c[0])
        if n == 4 and not thorough:
            continue
        bt = ('via', 'operator-batched')
        ts.append(('ss2', 'skyride', n, 0, c[0], (bt, ('cfg', cfg))))
        ts.append(('ss2', 'skygrid', n, 1, c[0], (bt, ('cfg', cfg))))
        ts.append(('ss2', 'skygrid', n, 2, c[0], (bt, ('cfg', cfg))))
        if cfg in (0, 3):
            ts.append(('ss2', 'skyride', n, 0, c[0], (bt, ('cfg', cfg), ('gmrf', 'time-aware'))))
    return ts


def coalint_tasks(tier):
    thorough = tier == 'thorough'
    ts = []
    for n in ((3, 4) if thorough else (3,)):
        perms = list(itertools.permutations(range(n)))
        for k, perm in enumerate(perms):
            if n == 3 or k % 4 == 0:
                ts.append(('coalint', n, perm, 'tensor'))
            if n == 3 and (thorough or k == 0):
                ts.append(('coalint', n, perm, 'batched'))
    for N in ((2, 3, 4) if thorough else (2, 3)):
        for si in range(len(_tree_shapes(N))):
            for hetero in (False, True):
                ts.append(('coalint-model', N, si, hetero, False))
                if N == 2 or thorough:
                    ts.append(('coalint-model', N, si, hetero, True))
    return ts


def hist_tasks(tier):
    """read / write histories on one object (f) and the real operator for two consecutive rounds (e')"""
    thorough = tier == 'thorough'
    ALL = ('assign', 'inplace', 'restore')
    # single objects, two reads (or one): quick 3 operations after every read order, thorough 4
    light = [('gmrf', 3, 0), ('gmrf', 3, 2), ('gmrf-time', 3, 0, 0, True), ('integrated', 3, False, True), ('integrated', 3, True, True),
             ('coalint', 2), ('coalescent', 'skyride', 2, False, None), ('coalescent', 'skygrid', 2, False, None),
             ('coalescent', 'skyride', 2, True, None), ('covariate', 3, 2, 'single')]
    # further objects (thorough, 3 operations): rescale off, the balanced tree in both orders of its inner nodes, 4-5 taxa, batches
    more = [('gmrf-time', 3, 0, 0, False), ('gmrf-time', 3, 1, 0, True), ('gmrf-time', 3, 1, 1, True), ('integrated', 3, True, False),
            ('coalint', 3), ('coalescent', 'skyride', 3, False, None), ('coalescent', 'skygrid', 3, False, None),
            ('coalescent', 'skygrid', 2, True, None), ('covariate', 3, 2, 'batch'), ('covariate', 2, 1, 'shared-beta')]
    # coalescent model and GMRF on one shared field, four reads: quick 2 operations, thorough 3 (~14 ms of symbolic execution per history)
    wired = [('coalescent', 'skyride', 2, False, 'time-aware'), ('coalescent', 'skygrid', 2, False, 'plain')]
    ts = []
    for spec in light:
        if thorough:
            # objects with three or four writable parameters (time-aware GMRF: 1250, GMRFCovariate: 2440 sequences of 4 operations
            # per read order): 4 operations without the in-place writes, 3 operations with them
            kinds = ('assign', 'restore') if len(make_world(spec).shapes()) >= 3 else ALL
            ts += [('hist', spec, 4, pi, kinds) for pi in range(len(hist_prefixes(list(make_world(spec).reads))))]
            if kinds != ALL:
                ts.append(('hist', spec, 3, None, ALL))
        else:
            ts.append(('hist', spec, 3, None, ALL))
    if thorough:
        ts += [('hist', spec, 3, None, ALL) for spec in more]
        wired += [('coalescent', 'skyride', 3, False, 'time-aware'), ('coalescent', 'skyride', 2, False, 'plain')]
    for spec in wired:
        if thorough:
            ts += [('hist', spec, 3, pi, ALL) for pi in range(len(hist_prefixes(list(make_world(spec).reads), limit=True)))]
        else:
            ts.append(('hist', spec, 2, None, ALL))
    perms = list(itertools.permutations(range(3)))
    for model, G, gk in (('skygrid', 1, 'plain'), ('skyride', 0, 'plain'), ('skyride', 0, 'time-aware')):
        extra = (('gmrf', gk),) if gk != 'plain' else ()
        for decision in ('reject', 'accept'):
            for between in (False, True):
                ts.append(('rounds', model, 3, G, perms[0], (('iso', True), ('decision', decision)) + ((('between', True),) if between else ()) + extra))
        # heterochronous tips: skygrid has 52 regions per sampling order (thorough: two of the six orders), skyride 13
        hetero = (perms[1::3] if model == 'skygrid' else perms) if thorough else ((perms[4],) if model == 'skyride' else ())
        for perm in hetero:
            ts.append(('rounds', model, 3, G, perm, (('decision', 'reject'),) + extra))
            if thorough:
                ts.append(('rounds', model, 3, G, perm, (('decision', 'accept'), ('between', True)) + extra))
    if thorough:
        for decision in ('reject', 'accept'):
            ts.append(('rounds', 'skygrid', 3, 2, perms[0], (('iso', True), ('decision', decision), ('between', True))))
    return ts


def tasks_for(tier):
    ts = []
    Ns = (2, 3, 4) if tier == 'quick' else (2, 3, 4, 5)
    for N in Ns:
        ts.append(('gmrf', N, 'plain', True, False))
        ts.append(('gmrf', N, 'plain', True, True))
        ts.append(('integrated', N))
    for N in ((3,) if tier == 'quick' else (3, 4)):
        ts.append(('gmrf', N, 'weighted', True, False))
        if N == 3:
            ts.append(('gmrf', N, 'time-aware', True, False))
            ts.append(('gmrf', N, 'time-aware', False, False))
    ts += [('integrated-time', 3, True), ('integrated-time', 3, False), ('ss-batched', 4)]
    ts += intended_tasks(tier)
    n = 3
    for perm in itertools.permutations(range(n)):
        ts.append(('coalint', n, perm))
        ts.append(('ss', 'skyride', n, 0, perm))
        ts.append(('ss', 'skygrid', n, 1, perm))
    if tier == 'thorough':
        for perm in itertools.permutations(range(4)):
            ts.append(('ss', 'skyride', 4, 0, perm))
            ts.append(('ss', 'skygrid', 4, 1, perm))
            ts.append(('coalint', 4, perm))
        for perm in itertools.permutations(range(3)):
            ts.append(('ss', 'skygrid', 3, 2, perm))
    new = covariate_tasks(tier) + ss2_tasks(tier) + coalint_tasks(tier) + hist_tasks(tier)

    def heavy(t_):  # consumer explorations over the whole domain (most regions): started first
        return t_[0] == 'ss2' and t_[5] == (('via', 'operator'),) and (t_[2] == 4 or t_[3] >= 1)

    return [t_ for t_ in new if heavy(t_)] + ts + [t_ for t_ in new if not heavy(t_)]


def body(chk):
    chk.explanation = ('symbolic execution of GMRF / GMRFCovariate / precision_matrix / integrated priors / sufficient statistics and of '
                       'the block-update operator up to the point where it hands its Newton problem over; the separately written '
                       'code paths are compared as expressions by the solver for all field vectors, covariates, effect sizes, '
                       'precisions, hyper-parameters, heights, grid points and population sizes; event orderings are path regions, '
                       'exact ties are aliasing configurations (one symbol for both inputs); read / write histories on one object '
                       '(and two consecutive step() / reject() | accept() rounds of the real operator): every parameter version is '
                       'a set of symbols of its own, so a quantity that was not recomputed after an update still mentions the '
                       'symbols of an earlier version and the solver separates it from the value at the current symbols')
    chk.total.assumptions |= {'Gamma-integral lemma (trusted): int_0^inf t^(a-1) e^(-b t) dt = Gamma(a)/b^a; lgamma/log uninterpreted',
                              'numerical quadrature (mpmath) is used only in replays'}
    chk.total.bounds['sizes'] = ('field length 2..4 (5 thorough), n=3 taxa (4 thorough), grid <= 1 (2 thorough), shapes [] and [2] '
                                 '([3] thorough, intended-structure-matrix obligations only)')
    chk.total.bounds['ties / grid beyond the root'] = (
        'n = 3 all sampling orders (thorough: also n = 4, every sixth sampling order), symbolic heterochronous sampling times: '
        'grid point == youngest sampling time, grid point == each coalescent time, youngest sampling time == each coalescent '
        'time (skyride), two grid points on two event times / on each other (n = 3); all grid points beyond the root for 2 (thorough '
        '1-2) grid points; each with a coverage certificate over the remaining symbolic inputs')
    chk.total.bounds['ConstantCoalescentIntegrated'] = (
        'n = 3 (4 thorough) with all sampling orders for float parameters, one-element-tensor parameters n = 3 all orders (n = 4 '
        'thorough: every fourth); batch of two trees n = 3 (quick: '
        'one pair of sampling orders); model class on a real TimeTreeModel: every tree shape with 3-4 (5 thorough) taxa, tips at 0 '
        'or at fixed heterochronous dates, batch [2] for 3 taxa (thorough: all); alpha, beta > 0 symbolic')
    chk.total.bounds['outside'] = (
        'GMRFCovariate with a tree model / weights (the class cannot be given any); the operator after the hand-over to '
        'newton_raphson (Newton iteration, Cholesky pipeline, Hastings term: C15; hence in the two-round tasks the field is never '
        'the operator\'s own proposal but stays / is assigned by the harness); batches of more than two trees; the '
        'SoftPiecewiseConstantCoalescentGrid (no sufficient statistics); numerical quadrature itself; histories: longer than 3 '
        '(thorough 4) operations after the read order, batched objects other than the plain GMRF / GMRFCovariate, a symbolic grid, '
        'interleavings of heights with tips / grid that change between versions, writes through TransformedParameter.tensor, '
        'FakeTreeModel-backed coalescent models (fixed data, the model does not listen to them)')
    pmap(run_task, tasks_for(chk.tier), chk.total)


if __name__ == '__main__':
    if '--replay' in sys.argv:
        import json

        r = json.load(open(sys.argv[sys.argv.index('--replay') + 1]))
        print('replay:', r['what'])
        sys.exit(1)
    sys.exit(main_for(PID, body))
