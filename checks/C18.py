"""C18 A crash while writing a checkpoint never loses the last good checkpoint.

The real `torchtree.core.parameter_utils.save_parameters` is executed by CrossHair on a modelled
file system (chk/c18_model.py) with a symbolic pre-state of name / name.old / name.new, a symbolic
crash index and a symbolic number of lost buffered chunks (chk/c18_harness.py holds the PEP316
contracts).  A candidate invariant INV (set of absent/complete/truncated class triples containing the
clean state) is proposed by concrete exploration of the model and then *verified by the solver*:
INV inductive, and from every INV state clause (1) "some complete file remains" and clause (2)
"name is never truncated" survive one write with an arbitrary crash point.  That inductive step
covers any number of consecutive interrupted writes.  Deciding step = CrossHair verdict per condition:
"Confirmed over all paths" = held; a counterexample is classified on the model, connected to the
clean state by a crash chain, and replayed on a real temporary directory with the real function
(chk/c18_replay.py) before it is reported; anything else is inconclusive.

Caller level (chk/c18_callers.py): the property is about the checkpoint the ALGORITHMS write, so the same
crash analysis is repeated through the real checkpointing loops - Optimizer._run, Optimizer._run_closure
(LBFGS), MCMC.run, HMC.run and the save_full_state wrappers - which decide with which file name and which
safely / overwrite flags save_parameters is reached.  Their options (checkpoint_all, checkpoint name with /
without '.json', checkpoint_frequency, iterations, start epoch of a resumed run), the pre-state of the
directory and the crash point of the whole run are symbolic; numerical collaborators are stubs.  A syntactic
scan of the library makes sure that every call site of save_parameters / save_full_state is driven by one of
these entries.  Counterexamples are replayed with the real algorithm objects (real torch optimisers, operators,
integrator) on a real temporary directory.
"""
from __future__ import annotations

import ast
import itertools
import json
import os
import re
import subprocess
import sys
import time
from concurrent.futures import ThreadPoolExecutor

from vlib.core import REPO, VERIF, main_for

PID = 'C18'
CLAUSE = {'c1': 'no-complete-file', 'c2': 'name-truncated', 'two_steps': 'no-complete-file'}
LINE = re.compile(r'^(?P<file>.*?):(?P<line>\d+): (?P<kind>info|error|warning): (?P<msg>.*)$')
CLEAN = (1, 0, 0)


def enc(states):
    return ','.join(''.join(map(str, s)) for s in sorted(states))


# ---------------------------------------------------------------- CrossHair invocation
def crosshair(job):
    fn, K, timeout, safely, overwrite = job['fn'], job['K'], job['timeout'], job['safely'], job['overwrite']
    env = dict(os.environ)
    env['C18_K'] = str(K)
    env['C18_SAFELY'] = '1' if safely else '0'
    env['C18_OVERWRITE'] = '1' if overwrite else '0'
    env['C18_INV'] = enc(job['inv'])
    env['C18_SEL'] = enc(job['sel'])
    env['PYTHONPATH'] = f'{VERIF}:{REPO}' + (':' + env['PYTHONPATH'] if env.get('PYTHONPATH') else '')
    cmd = [sys.executable, '-m', 'chk.c18_xh', 'check', '--report_all', '--per_condition_timeout', str(timeout),
           '--per_path_timeout', str(max(5.0, timeout / 4)), f'chk.c18_harness.{fn}']
    t0 = time.time()
    try:
        p = subprocess.run(cmd, env=env, cwd=VERIF, capture_output=True, text=True, timeout=timeout * 1.5 + 60)
        out, err, rc = p.stdout, p.stderr, p.returncode
    except subprocess.TimeoutExpired as e:
        out, err, rc = (e.stdout or ''), 'wall-clock timeout', -9
        if isinstance(out, bytes):
            out = out.decode(errors='replace')
    res = dict(job)
    res.update({'wall': time.time() - t0, 'rc': rc, 'verdict': 'unknown',
                'msg': (out.strip() or err.strip())[-600:], 'args': None})
    for ln in out.splitlines():
        m = LINE.match(ln.strip())
        if not m:
            continue
        msg = m.group('msg')
        if msg.startswith('Confirmed over all paths'):
            res['verdict'] = 'confirmed'
        elif msg.startswith('false when calling'):
            res['verdict'] = 'refuted'
            res['args'] = parse_call(msg, fn)
            if res['args'] is None:
                res['verdict'] = 'unknown'
        else:
            res['verdict'] = 'unknown'  # Not confirmed / Unable to meet precondition / exception / ModelGap ...
        res['msg'] = msg[:600]
        break
    return res


def parse_call(msg, fn):
    m = re.search(re.escape(fn) + r'(\(.*?\))(?: \(which returns|$)', msg)
    if not m:
        return None
    try:
        call = ast.parse('f' + m.group(1), mode='eval').body
        vals = [ast.literal_eval(a) for a in call.args]
        kw = {k.arg: ast.literal_eval(k.value) for k in call.keywords}
    except Exception:
        return None
    names = ['n0', 'o0', 'w0', 'crash_at', 'lost'] if not fn.startswith('two_steps') else \
        ['n0', 'o0', 'w0', 'ca', 'la', 'cb', 'lb']
    d = dict(zip(names, vals))
    d.update(kw)
    if set(d) != set(names) or not all(isinstance(v, int) for v in d.values()):
        return None
    return d


# ---------------------------------------------------------------- model-side helpers (concrete)
def model_for(K):
    """Select the chunk count for concrete model runs / replays in this process (the CrossHair
    subprocesses get it through the environment)."""
    from chk import c18_model, c18_replay

    c18_model.K = K
    c18_model.MAXOPS = 2 * K + 12
    return c18_model, c18_replay


def norm_vers(M, fs):
    return tuple(M.MIXED if fs.ver[p] == M.MIXED else 0 for p in M.PATHS)


def abstract(M, n, v=(0, 0, 0)):
    return tuple(0 if x == -1 else (1 if (x == M.K and vv != M.MIXED) else 2) for x, vv in zip(n, v))


def explore(M, safely, overwrite):
    """Concrete model states reachable from the clean state {name complete, no siblings} by any sequence
    of interrupted / completed writes (fixpoint), each with one chain of (crash_at, lost).
    Concrete model runs: they only PROPOSE the invariant and supply replay scenarios; the solver
    verifies the invariant."""
    K = M.K
    s0 = ((K, -1, -1), (0, 0, 0))
    found = {s0: []}
    frontier = [s0]
    while frontier:
        nxt = []
        for st in frontier:
            chain = found[st]
            (n, v) = st
            full = M.run_model(*n, M.MAXOPS, 0, safely, overwrite, vers=v)
            for c in range(full.ops + 1):
                for lost in range(K + 1):
                    fs = M.run_model(*n, c, lost, safely, overwrite, vers=v)
                    s2 = (tuple(fs.n[p] for p in M.PATHS), norm_vers(M, fs))
                    if s2 not in found:
                        found[s2] = chain + [(c, lost)]
                        nxt.append(s2)
        frontier = nxt
    return found


def name_state(M, n):
    return 'name absent' if n == -1 else ('name complete' if n == M.K else 'name truncated')


def classify(M, clause, pre, crash_at, lost, safely, overwrite):
    """Signature of a counterexample, from the concrete model trace of the violating step."""
    tr = []
    fs = M.run_model(*pre, crash_at, lost, safely, overwrite, trace=tr)
    s = fs.summary()
    violated = (s[0] == M.BAD) if clause == 'name-truncated' else (M.COMPLETE not in s[:3])
    first = next((t for t in tr if t[0].startswith('open')), None)
    if first is None:
        branch = 'no-open'
    elif first[1] == M.NAME:
        branch = 'direct-write-branch'
    elif first[1] == M.NEW:
        branch = 'rename-branch'
    else:
        branch = f'other-branch[{first[1]}]'
    qual = name_state(M, pre[0])
    if not safely:
        qual += ', safely=False'
    if overwrite:
        qual += ', overwrite=True'
    sig = f'save_parameters:{clause}:{branch}({qual})'
    last = tr[-1] if tr else ('none', '')
    op = re.sub(r'\[\d+\]', '', last[0]).replace('CRASH-before-', '')
    where = f'{op}({last[1]})' if fs.crashed else 'normal completion'
    if not (clause == 'name-truncated' and branch == 'direct-write-branch'):
        # phase of the crash; write/flush/close of one open handle are one phase (stable across K and lost)
        open_h = [h.path for h in fs.handles if not h.closed]
        if not fs.crashed:
            sig += ':no-crash'
        elif open_h:
            sig += f':died-while-writing({open_h[0]})'
        else:
            sig += f':died-before-{where}'
    return sig, violated, where, [f'{a}({b})' for a, b in tr], s


def fmt_state(M, n):
    def one(x):
        return 'absent' if x == -1 else ('complete' if x == M.K else f'truncated({x}/{M.K} chunks)')

    return '{' + ', '.join(f'{p}: {one(x)}' for p, x in zip(('name', '.old', '.new'), n)) + '}'


def cfg_of(r):
    sel = enc(r['sel']) if r.get('sel') else ''
    return (f"{r['fn']}[K={r['K']}{'' if r['safely'] else ',safely=False'}{',overwrite=True' if r['overwrite'] else ''}"
            f"{',pre in {' + sel + '}' if sel else ''}]")


# ---------------------------------------------------------------- counterexample triage
def triage(tr, res, clause, reach, strict=True):
    K, safely, overwrite = res['K'], res['safely'], res['overwrite']
    M, R = model_for(K)
    a = res['args']
    pre, crash_at, lost = (a['n0'], a['o0'], a['w0']), a['crash_at'], a['lost']
    sig, violated, where, trace, summ = classify(M, clause, pre, crash_at, lost, safely, overwrite)
    tag = f"{cfg_of(res)} counterexample pre={fmt_state(M, pre)} crash_at={crash_at} lost={lost}"
    if not violated:
        tr.inconc(f'{tag}: not a violation when the model is run concretely (harness inconsistency)')
        return None
    st = (pre, (0, 0, 0))

    def find(pred):
        """first explored state (shortest chain from the clean state) satisfying pred from which some crash
        point gives the same signature (concrete model runs, scenario construction only)"""
        for (n_, v_), chain_ in sorted(reach.items(), key=lambda kv: len(kv[1])):
            if v_ != (0, 0, 0) or not pred(n_):
                continue
            for c_, lo_ in [(crash_at, lost)] + list(itertools.product(range(M.MAXOPS), range(K + 1))):
                s2, v2, _, _, _ = classify(M, clause, n_, c_, lo_, safely, overwrite)
                if v2 and s2 == sig:
                    return chain_, n_, c_, lo_
        return None

    scenario = shortest = None
    if reach is not None:
        if st in reach:
            scenario = (reach[st], pre, crash_at, lost)
        else:  # same class triple (differs at most in truncation lengths)
            want = abstract(M, pre)
            scenario = find(lambda n_: abstract(M, n_) == want)
        if scenario:
            shortest = find(lambda n_: True)
            if shortest and len(shortest[0]) >= len(scenario[0]):
                shortest = None
    n, c, lo = pre, crash_at, lost
    ce_chain = None
    with R.Sandbox(K=K, nver=1) as sb:
        single = sb.run(pre, [(crash_at, lost)], safely, overwrite)
        tr.witness_runs += 1
        bad_single = (not single['name_ok']) if clause == 'name-truncated' else (not single['some_complete'])
        chain_out = None
        if scenario:
            chain, n, c, lo = scenario
            steps = list(chain) + [(c, lo)]
            chain_out = sb.run((K, -1, -1), steps, safely, overwrite)
            tr.witness_runs += 1
            bad_chain = (not chain_out['name_ok']) if clause == 'name-truncated' else (not chain_out['some_complete'])
            if bad_chain and shortest:
                # a shorter scenario with the same signature: use it as the headline when it reproduces too
                chain2, n2, c2, lo2 = shortest
                steps2 = list(chain2) + [(c2, lo2)]
                out2 = sb.run((K, -1, -1), steps2, safely, overwrite)
                tr.witness_runs += 1
                if (not out2['name_ok']) if clause == 'name-truncated' else (not out2['some_complete']):
                    ce_chain = {'steps': [list(x) for x in steps], 'after': chain_out['steps'][-1]['after']}
                    steps, n, c, lo, chain_out = steps2, n2, c2, lo2, out2
                    where = classify(M, clause, n, c, lo, safely, overwrite)[2]
    if not bad_single:
        tr.inconc(f'{tag}: did NOT reproduce on the real file system (model too pessimistic?): {single["steps"][-1]["after"]}')
        return None
    if reach is None:  # in-place flags: documented opt-out, single-step replay only
        return sig, f'{tag}: real directory afterwards {single["steps"][-1]["after"]}'
    if not scenario:
        tr.inconc(f'{tag} [{sig}]: reproduces on the real file system from that materialised pre-state, but no explored '
                  f'state of the same class reaches it from the clean directory (candidate invariant too coarse)')
        return None
    if not bad_chain:
        tr.inconc(f'{tag} [{sig}]: crash chain {steps} from the clean directory did not reproduce on the real file system')
        return None
    last = chain_out['steps'][-1]
    what = (f"save_parameters, {len(steps)} consecutive write(s) starting from a clean directory "
            f"({fmt_state(M, (K, -1, -1))}), crash points (op index, lost buffered chunks) = {steps}: the last write "
            f"starts from {fmt_state(M, n)} and dies before {where}; real directory afterwards: {last['after']}"
            f" -> clause ({'2: name refers to a truncated file' if clause == 'name-truncated' else '1: no complete checkpoint left under name/.old/.new'}) violated")
    replay = {'clause': clause, 'K': K, 'pre': [K, -1, -1], 'steps': [list(s) for s in steps], 'safely': safely,
              'overwrite': overwrite, 'start': 'clean', 'signature': sig,
              'crosshair': {'condition': cfg_of(res), 'counterexample': a, 'message': res['msg'], 'model_trace': trace,
                            'model_final_classes(name,.old,.new)': list(summ[:3])},
              'real_single_step_from_counterexample_pre_state': single['steps'][-1]['after'],
              'real_chain_to_counterexample_pre_state': ce_chain,
              'real_chain': [{'crash_at': s['crash_at'], 'lost': s['lost'], 'ops': s['ops'], 'after': s['after']}
                             for s in chain_out['steps']]}
    if strict:
        tr.violation(sig, what, replay)
    tr.sample({'condition': cfg_of(res), 'verdict': 'refuted + replayed on the real file system',
               'signature': sig, 'what': what}, limit=12)
    return sig, what


# ---------------------------------------------------------------- model fidelity (witness runs)
def fidelity(tr, K, grid_n, losts, safely=True, overwrite=False):
    """Model vs real file system on a grid of concrete (pre-state, crash point, lost) triples: the three
    file classes and the number of executed operations must agree.  Not a deciding step."""
    M, R = model_for(K)
    bad = 0
    n = 0
    with R.Sandbox(K=K, nver=2) as sb:
        for pre in itertools.product(grid_n, repeat=3):
            for c in range(0, K + 8):
                for lost in losts:
                    fs = M.run_model(*pre, c, lost, safely, overwrite)
                    out = sb.run(pre, [(c, lost)], safely, overwrite)
                    n += 1
                    ops = len([o for o in out['steps'][0]['ops'] if not o.startswith('CRASH')])
                    if list(fs.summary()[:3]) != out['final_classes'] or fs.ops != ops:
                        bad += 1
                        if bad <= 3:
                            tr.inconc(f'model/real mismatch K={K} pre={pre} crash_at={c} lost={lost}: model '
                                      f'{fs.summary()[:3]} ops={fs.ops}, real {out["final_classes"]} ops={ops}')
    tr.witness_runs += n
    return n, bad


# ---------------------------------------------------------------- caller level (chk/c18_callers.py)
CALLER_ARGS = ['ca', 'kind', 'fresh', 'freq', 'iters', 'epoch0', 'n0', 'o0', 'w0', 'crash_at', 'lost']
CALLER_FILE = os.path.join(VERIF, 'chk', 'c18_callers.py')


def _caller_lines():
    """line range -> harness function of chk/c18_callers.py (CrossHair reports file:line)"""
    with open(CALLER_FILE) as f:
        tree = ast.parse(f.read())
    return {n.name: (n.lineno, n.end_lineno) for n in tree.body if isinstance(n, ast.FunctionDef)}


def caller_cfg(j):
    sel = enc(j['sel'])
    ca = {'*': '*', '0': 'False', '1': 'True'}[j['ca']]
    return (f"callers.{j.get('fn', 'algo')}[{j['entry']},checkpoint_all={ca},name-kind={j['kind']},"
            f"fresh={j['fresh']},K={j['K']},freq<={j['fmax']},iterations<={j['nmax']},pre in {{{sel}}}]")


def crosshair_callers(job):
    """One CrossHair process: conditions `algo` and `algo_twin` of chk.c18_callers for one entry / option region."""
    env = dict(os.environ)
    env.update({'C18_K': str(job['K']), 'C18_INV': enc(job['inv']), 'C18_SEL': enc(job['sel']), 'C18_ENTRY': job['entry'],
                'C18_CA': job['ca'], 'C18_KIND': job['kind'], 'C18_FRESH': job['fresh'], 'C18_FMAX': str(job['fmax']),
                'C18_NMAX': str(job['nmax'])})
    env['PYTHONPATH'] = f'{VERIF}:{REPO}' + (':' + env['PYTHONPATH'] if env.get('PYTHONPATH') else '')
    timeout = job['timeout']
    cmd = [sys.executable, '-m', 'chk.c18_xh', 'check', '--report_all', '--per_condition_timeout', str(timeout),
           '--per_path_timeout', str(max(10.0, timeout / 4)), 'chk.c18_callers.algo', 'chk.c18_callers.algo_twin']
    t0 = time.time()
    try:
        p = subprocess.run(cmd, env=env, cwd=VERIF, capture_output=True, text=True, timeout=2 * (timeout * 1.5) + 60)
        out, err, rc = p.stdout, p.stderr, p.returncode
    except subprocess.TimeoutExpired as e:
        out, err, rc = (e.stdout or ''), 'wall-clock timeout', -9
        if isinstance(out, bytes):
            out = out.decode(errors='replace')
    wall = time.time() - t0
    ranges = _caller_lines()
    res = {fn: dict(job, fn=fn, level='caller', wall=wall / 2, rc=rc, verdict='unknown',
                    msg=(out.strip() or err.strip())[-600:], args=None) for fn in ('algo', 'algo_twin')}
    seen = set()
    for ln in out.splitlines():
        m = LINE.match(ln.strip())
        if not m or not m.group('file').endswith('c18_callers.py'):
            continue
        fn = next((k for k, (a, b) in ranges.items() if a <= int(m.group('line')) <= b and k in res), None)
        if fn is None or fn in seen:
            continue
        seen.add(fn)
        msg = m.group('msg')
        r = res[fn]
        r['msg'] = msg[:600]
        if msg.startswith('Confirmed over all paths'):
            r['verdict'] = 'confirmed'
        elif msg.startswith('false when calling'):
            mm = re.search(re.escape(fn) + r'(\(.*?\))(?: \(which returns|$)', msg)
            try:
                call = ast.parse('f' + mm.group(1), mode='eval').body
                vals = [ast.literal_eval(a) for a in call.args]
                d = dict(zip(CALLER_ARGS, vals))
                d.update({k.arg: ast.literal_eval(k.value) for k in call.keywords})
                if set(d) == set(CALLER_ARGS) and all(isinstance(v, int) for v in d.values()):
                    r['verdict'], r['args'] = 'refuted', d
            except Exception:
                pass
    return [res['algo'], res['algo_twin']]


def caller_plan(tier, invs):
    jobs = []
    regions = {'Optimizer._run': [('0', '*', '*'), ('1', '0', '1'), ('1', '0', '0'), ('1', '1', '*')],
               'Optimizer._run_closure': [('0', '*', '*'), ('1', '0', '1'), ('1', '0', '0'), ('1', '1', '*')],
               'MCMC.run': [('*', '*', '*')], 'HMC.run': [('*', '*', '*')]}
    if tier == 'quick':
        rounds = [(3, 2, 2, 400, [{CLEAN}])]
    else:
        def chunks(K):  # pre-state classes of the verified invariant, at most 3 triples per process
            out = []
            for a in (1, 0, 2):
                g = sorted(s for s in invs[K] if s[0] == a)
                out += [set(g[i:i + 3]) for i in range(0, len(g), 3)]
            return out

        rounds = [(3, 3, 3, 1800, chunks(3)), (5, 2, 2, 1800, [{CLEAN}])]
    for K, fmax, nmax, timeout, groups in rounds:
        for g in groups:
            for entry, regs in regions.items():
                for ca, kind, fresh in regs:
                    jobs.append(dict(entry=entry, ca=ca, kind=kind, fresh=fresh, K=K, fmax=fmax, nmax=nmax,
                                     timeout=timeout, inv=invs[K], sel=g, safely=True, overwrite=False))
    return jobs


def call_sites():
    """Every function of the library under test that calls save_parameters / save_full_state (syntactic scan)."""
    found = {}
    root = os.path.join(REPO, 'torchtree')
    for dp, _, files in os.walk(root):
        for f in files:
            if not f.endswith('.py'):
                continue
            path = os.path.join(dp, f)
            with open(path) as fh:
                src = fh.read()
            if 'save_parameters' not in src and 'save_full_state' not in src:
                continue
            mod = os.path.relpath(path, REPO)[:-3].replace(os.sep, '.')

            def visit(node, qual):
                for ch in ast.iter_child_nodes(node):
                    if isinstance(ch, (ast.FunctionDef, ast.AsyncFunctionDef, ast.ClassDef)):
                        visit(ch, qual + [ch.name])
                        continue
                    for sub in ast.walk(ch):
                        if isinstance(sub, ast.Call):
                            fn = sub.func
                            nm = fn.id if isinstance(fn, ast.Name) else (fn.attr if isinstance(fn, ast.Attribute) else None)
                            if nm in ('save_parameters', 'save_full_state'):
                                found.setdefault((mod, '.'.join(qual) or '<module>'), set()).add(nm)
            visit(ast.parse(src), [])
    return found


def caller_coverage(tr, C):
    """(a) every call site found in the library belongs to a driven entry, (b) every entry really executes the
    functions it claims (concrete model run under a profiler hook), (c) source hashes into the evidence."""
    import importlib

    claimed = {}
    for entry, (modname, _, fns) in C.ENTRIES.items():
        for q in fns:
            claimed.setdefault((modname, q), []).append(entry)
    sites = call_sites()
    for (mod, qual), names in sorted(sites.items()):
        # a closure / nested function is covered through its enclosing claimed function
        if not any(mod == m and (qual == q or qual.startswith(q + '.')) for (m, q) in claimed):
            tr.inconc(f'checkpoint call site {mod}.{qual} (calls {sorted(names)}) is not driven by any C18 caller entry - '
                      f'add it to chk/c18_callers.ENTRIES')
    for (mod, q) in claimed:
        if q.split('.')[-1] != 'run' and not any(mod == m and qual == q for (m, qual) in sites):
            tr.inconc(f'claimed function {mod}.{q} no longer calls save_parameters / save_full_state (entry table stale)')
    for entry, (modname, _, fns) in C.ENTRIES.items():
        seen = set()

        def prof(frame, event, arg):
            if event == 'call':
                co = frame.f_code
                if co.co_filename.startswith(REPO):
                    seen.add(co.co_qualname)

        sys.setprofile(prof)
        try:
            fs, ctx = C.run_algo(entry, False, 0, 1, 1, 1, (C.M.K, -1, -1), (-1, -1, -1), 10 ** 6, 0)
        finally:
            sys.setprofile(None)
        missing = [q for q in fns if q not in seen] + ([] if 'save_parameters' in seen else ['save_parameters'])
        if missing or not ctx.calls:
            tr.inconc(f'entry {entry} does not execute {missing} (calls recorded: {len(ctx.calls)})')
        mod = importlib.import_module(modname)
        for q in fns:
            obj = mod
            for part in q.split('.'):
                obj = getattr(obj, part)
            tr.fn(obj)
    return sites


def triage_caller(tr, res):
    """A refuted caller condition: classify on the concrete model run, replay with the real algorithm."""
    from chk import c18_callers as C

    K = res['K']
    M, R = model_for(K)
    C.INV = frozenset(res['inv'])
    a = res['args']
    entry, ca, kind, fresh = res['entry'], bool(a['ca']), a['kind'], bool(a['fresh'])
    pre = (a['n0'], a['o0'], a['w0'])
    trace = []
    fs, ctx = C.run_algo(entry, ca, kind, a['freq'], a['iters'], a['epoch0'], pre, C.other_of(fresh, pre),
                         a['crash_at'], a['lost'], trace=trace)
    tag = (f"{caller_cfg(res)} counterexample checkpoint_all={ca} checkpoint={C.NAMES[kind]!r} checkpoint_frequency={a['freq']} "
           f"iterations={a['iters']} start_epoch={a['epoch0']} pre={fmt_state(M, pre)} other-names-{'absent' if fresh else 'same-state'} "
           f"crash_at={a['crash_at']} lost={a['lost']}")
    clause = 'name-truncated' if not ctx.c2 else ('no-complete-file' if not ctx.c1 else None)
    if clause is None:
        tr.inconc(f'{tag}: ' + ('final state leaves the verified invariant although both clauses hold (invariant not inductive '
                                'through the caller)' if not ctx.ind else 'not a violation when the model is run concretely'))
        return None
    calls = [c for c in ctx.calls if c[3] <= a['crash_at']] or ctx.calls
    if not calls:
        tr.inconc(f'{tag}: clause {clause} violated without any save_parameters call (file system touched by the caller itself?)')
        return None
    file_name, safely, overwrite, at = calls[-1]
    first = trace[at] if at < len(trace) else ('none', '')
    path = first[1]
    branch = ('in-place-write' if path == file_name else 'rename-branch' if path == file_name + '.new'
              else f'other-branch[{path}]')
    target = 'checkpoint-name' if file_name == C.NAMES[kind] else 'per-epoch-name'
    sig = f'{entry}:{clause}:{branch}(safely={safely},overwrite={overwrite}):{target}'
    families = {b: [int(x) for x in v] for b, v in fs.families.items()}
    try:
        out = R.run_caller(entry, ca, kind, a['freq'], a['iters'], a['epoch0'], families, a['crash_at'], a['lost'], K)
    except Exception as e:
        tr.inconc(f'{tag} [{sig}]: real replay failed: {type(e).__name__}: {e}')
        return None
    tr.witness_runs += 1
    bad = (not out['c2']) if clause == 'name-truncated' else (not out['c1'])
    if not bad:
        tr.inconc(f'{tag} [{sig}]: did NOT reproduce with the real algorithm on the real file system: '
                  f'{ {b: v["files"] for b, v in out["families"].items()} }')
        return None
    fam = _family(file_name)
    where = trace[-1] if trace else ('none', '')
    op = re.sub(r'\[\d+\]', '', where[0]).replace('CRASH-before-', '')
    what = (f"{entry} (checkpoint={C.NAMES[kind]!r}, checkpoint_all={ca}, checkpoint_frequency={a['freq']}, iterations={a['iters']}, "
            f"{out['start']}) reaches save_parameters({file_name!r}, safely={safely}, overwrite={overwrite}) = {branch} while "
            f"{fmt_state(M, families.get(fam, pre))} exists under that name"
            f"{' (left by an earlier run / the run it resumes)' if target == 'per-epoch-name' else ''}; the process dies before "
            f"{op}({where[1]}) (operation {a['crash_at']} of the run, {a['lost']} buffered chunk(s) lost); real directory afterwards: "
            f"{out['families'].get(fam, {}).get('files')} -> clause "
            f"({'2: name refers to a truncated file' if clause == 'name-truncated' else '1: no complete checkpoint left under name/.old/.new'}) violated")
    replay = {'level': 'caller', 'clause': clause, 'K': K, 'entry': entry, 'checkpoint_all': ca, 'kind': kind, 'freq': a['freq'],
              'iters': a['iters'], 'epoch0': a['epoch0'], 'families': families, 'crash_at': a['crash_at'], 'lost': a['lost'],
              'signature': sig,
              'save_parameters_calls(file, safely, overwrite, op index at entry)': [list(c) for c in ctx.calls],
              'crosshair': {'condition': caller_cfg(res), 'counterexample': a, 'message': res['msg'],
                            'model_trace': [f'{x}({y})' for x, y in trace],
                            'model_final_classes': {b: list(fs.family_classes(b)) for b in fs.families}},
              'real': out}
    tr.violation(sig, what, replay)
    tr.sample({'condition': caller_cfg(res), 'verdict': 'refuted + replayed with the real algorithm on the real file system',
               'signature': sig, 'what': what}, limit=12)
    return sig, what


def _family(path):
    return path[:-4] if path.endswith(('.old', '.new')) else path


def caller_fidelity(tr, K, tier):
    """Caller-level model (stub collaborators, modelled FS) vs the real algorithms on the real file system: classes of
    every family, operation count and both clause verdicts must agree.  Not a deciding step."""
    from chk import c18_callers as C

    M, R = model_for(K)
    n = bad = 0
    crashes = (1, 3, 6, 9, 40) if tier == 'quick' else (0, 1, 2, 3, 5, 6, 7, 8, 9, 11, 12, 14, 40)
    combos = ((1, 2, 1), (2, 2, 1)) if tier == 'quick' else ((1, 2, 1), (2, 2, 1), (1, 2, 2), (2, 3, 2), (3, 3, 1))
    for entry in C.ENTRIES:
        for ca in (False, True):
            for kind in (0, 1):
                for fresh in ((False,) if tier == 'quick' else (True, False)):
                    for freq, iters, e0 in combos:
                        for crash in crashes:
                            pre = (K, -1, -1)
                            fs, ctx = C.run_algo(entry, ca, kind, freq, iters, e0, pre, C.other_of(fresh, pre), crash, 1)
                            fam = {b: tuple(int(x) for x in v) for b, v in fs.families.items()}
                            out = R.run_caller(entry, ca, kind, freq, iters, e0, fam, crash, 1, K)
                            n += 1
                            mc = {b: list(fs.family_classes(b)) for b in fs.families}
                            rc = {b: v['after'] for b, v in out['families'].items()}
                            if mc != rc or fs.ops != out['nops'] or (ctx.c1, ctx.c2) != (out['c1'], out['c2']) \
                                    or len(ctx.calls) != out['save_parameters_calls']:
                                bad += 1
                                if bad <= 3:
                                    tr.inconc(f'caller model/real mismatch {entry} checkpoint_all={ca} kind={kind} fresh={fresh} '
                                              f'freq={freq} iterations={iters} start_epoch={e0} crash_at={crash}: model {mc} '
                                              f'ops={fs.ops} clauses={(ctx.c1, ctx.c2)}, real {rc} ops={out["nops"]} '
                                              f'clauses={(out["c1"], out["c2"])} raised={out["raised"]}')
    tr.witness_runs += n
    return n, bad


# ---------------------------------------------------------------- plan
def plan_for(tier, invs):
    """invs: K -> candidate invariant (set of class triples)"""
    jobs = []

    def add(fn, K, timeout, sel, safely=True, overwrite=False, twin=True):
        j = dict(fn=fn, K=K, timeout=timeout, safely=safely, overwrite=overwrite, inv=invs.get(K, {CLEAN}), sel=sel)
        jobs.append(j)
        if twin:
            jobs.append(dict(j, fn=fn + '_twin'))

    def groups(K, fine):
        inv = invs[K]
        if fine:
            return [{s} for s in sorted(inv)]
        return [g for g in ({s for s in inv if s[0] == a} for a in (1, 0, 2)) if g]

    for K, timeout, fine in ([(3, 60, False)] if tier == 'quick' else [(3, 600, True), (5, 600, False), (8, 600, False)]):
        for g in groups(K, fine):
            add('ind', K, timeout, g)
            g1 = {s for s in g if 1 in s}
            if g1:
                add('c1', K, timeout, g1)
            g2 = {s for s in g if s[0] != 2}
            if g2:
                add('c2', K, timeout, g2)
    if tier != 'quick':
        add('two_steps', 3, 700, {CLEAN})
        for s, o in ((False, False), (True, True)):
            add('f_siblings_untouched', 3, 300, set(), s, o)
            add('f_inplace_loses_name', 3, 300, set(), s, o, twin=False)
    return jobs


def contract_of(H, fn):
    doc = getattr(H, fn).__doc__ or ''
    return ' ; '.join(ln.strip() for ln in doc.splitlines() if ln.strip().startswith(('pre:', 'post:')))


def body(chk):
    tr = chk.total
    tier = chk.tier
    chk.rule = ('one case = one CrossHair condition (PEP316 contract around one symbolic execution of the real '
                'save_parameters on the modelled file system, over all pre-states, crash indices and lost-buffer '
                'counts admitted by its precondition); distinct = different contract text / chunk count / flags / '
                'pre-state class set; every condition is non-trivial (its reachability twin must be refuted by a run '
                'that dies mid-write); caller level: one case = one CrossHair condition around one symbolic run of a real '
                'checkpointing loop (entry x checkpoint_all region x name kind x pre-state class set), same twin rule')
    chk.explanation = ('symbolic execution (CrossHair + z3) of the real save_parameters against a pure-Python file-system '
                       'model with symbolic pre-state, symbolic crash index and symbolic lost-buffer count; a candidate '
                       'invariant (set of absent/complete/truncated class triples, proposed by concrete exploration of the '
                       'model from the clean state) is verified by the solver to be inductive and to preserve clause (1) '
                       'and clause (2) over one write with an arbitrary crash ("Confirmed over all paths" per condition); '
                       'counterexamples are replayed with the real function on a real temporary directory (crash injected '
                       'at the same operation, whole chain from the clean directory); model fidelity is cross-checked '
                       'against the real file system on a concrete grid; the same analysis is repeated through the real '
                       'checkpointing loops of Optimizer (Adam-style and LBFGS), MCMC and HMC with symbolic options '
                       '(checkpoint_all, name, frequency, iterations, start epoch), so that the file name and the safely / '
                       'overwrite flags with which save_parameters is reached are part of what the solver decides; caller-level '
                       'counterexamples are replayed with the real algorithm objects on a real directory')
    M, R = model_for(3)
    mod = M.target_module()
    tr.fn(mod.save_parameters)
    if os.environ.get('C18_TARGET_MODULE'):
        tr.notes.append(f"TARGET OVERRIDDEN (harness sensitivity test): {os.environ['C18_TARGET_MODULE']}")
    tr.bounds['chunks'] = 'document written in K chunks, K=3 (quick) / K in {3,5,8} (thorough); pre-state truncation length 0..K-1 symbolic'
    tr.bounds['crash points'] = 'crash index 0..2K+12 symbolic (covers every operation of a write and normal completion); lost buffered chunks 0..K symbolic'
    tr.bounds['writes'] = ('base state = a complete checkpoint under name, no siblings; one inductive step from every state of the '
                           'verified invariant (= any number of consecutive interrupted writes); thorough also two explicit '
                           'consecutive writes.  The very first write into an empty directory is outside the premise '
                           '"written over an existing one"')
    tr.bounds['flags'] = 'safely=True, overwrite=False (the checkpoint protocol); thorough: in-place flags checked for the frame condition only'
    tr.assumptions |= {
        'FS model: a path is absent / a strict prefix of a K-chunk document (not parseable) / the whole document (parseable); a strict prefix of a JSON list document never parses',
        'FS model: open(path, "w") creates or truncates to length 0 atomically; each chunk write is atomic (crash points lie between chunks); a single big write(json.dumps(..)) is K chunk writes',
        'FS model: chunks written since the last flush/close may be lost at the crash (symbolic count) - process death, not power loss: data handed to the kernel and completed renames persist',
        'FS model: os.rename/os.replace are atomic and replace an existing destination; rename/remove of a missing path raise FileNotFoundError; remove is atomic',
        'FS model: os.path.lexists/exists/isfile are read-only and are no crash points of their own',
        'FS model: after the crash nothing takes effect (the close() run by the with-block while the Crash exception unwinds is ignored)',
        'crash = private exception class derived from Exception raised inside the modelled operation; harness code catches Exception only',
        'json.dump modelled as K consecutive fp.write(chunk) calls (the real pure-Python encoder issues one write per token); the parameter list itself is opaque',
        'only the three paths name, name.old, name.new exist; no concurrent writer; an open handle follows its inode across rename/unlink (POSIX)',
        'any file-system facility outside the model (other open modes, shutil, tempfile, ...) raises ModelGap -> inconclusive; CrossHair audit wall stays on, so a real file-system write by the analysed code is flagged',
        'candidate invariant and crash chains for replays come from concrete breadth-first runs of the model (proposal / scenario construction only); inductiveness and both clauses are decided by CrossHair',
    }
    tr.bounds['callers'] = ('entries Optimizer._run (any torch optimiser but LBFGS), Optimizer._run_closure (LBFGS), MCMC.run, HMC.run; '
                            'symbolic options: checkpoint_all in {False, True}, checkpoint name in {"ckpt.json", "ckpt"} (with / without the '
                            '".json" the per-epoch name is derived from), checkpoint_frequency 1..2, iterations 1..2, start epoch 1..2 '
                            '(quick) / 1..3 each (thorough, K=3); crash index over the operations of the WHOLE run (up to 2 resp. 3 '
                            'checkpoint writes) and lost chunks 0..K symbolic; pre-state: checkpoint name complete without siblings (quick), '
                            'every class triple of the verified invariant (thorough, K=3); other base names the run writes (per-epoch '
                            'files) either all absent or all in the same state as the checkpoint name; scheduler / convergence / loggers '
                            '/ distributions options of Optimizer left at None (they do not reach the checkpoint block)')
    tr.assumptions |= {
        'caller level: loss / joint, torch optimiser (a stub subclass of torch.optim.LBFGS routes run() to _run_closure), MCMC operator, '
        'HMC integrator are stubs that never touch the file system; SignalHandler is replaced (no SIGINT during the run); print is muted',
        'caller level: a resumed run is entered through the real load_state_dict ({"iteration": start epoch}); HMC has no resumable epoch',
        'caller level: a family b / b.old / b.new under which nothing existed at the last boundary (start of the run or a completed write) '
        'carries no obligation (first write of a name: outside "written over an existing one")',
        'caller level: the set of call sites of save_parameters / save_full_state is found by a syntactic scan of the library '
        '(direct calls by name / attribute; a call through an alias or getattr would be missed)',
    }
    tr.stubs |= {'caller level: loss/joint model', 'caller level: torch optimiser (step / zero_grad / state_dict)',
                 'caller level: MCMC operator', 'caller level: HMC integrator', 'caller level: SignalHandler', 'caller level: print'}
    tr.stubs |= {'open', 'file.write/flush/close/fileno', 'os.rename', 'os.replace', 'os.remove', 'os.unlink', 'os.fsync',
                 'os.path.lexists/exists/isfile', 'json.dump', 'json.dumps'}

    # candidate invariants (concrete exploration; ModelGap here -> inconclusive through main_for)
    reach, invs = {}, {}
    for K in ([3] if tier == 'quick' else [3, 5, 8]):
        Mk, _ = model_for(K)
        reach[K] = explore(Mk, True, False)
        invs[K] = {abstract(Mk, n, v) for (n, v) in reach[K]}
        tr.notes.append(f'K={K}: {len(reach[K])} concrete model states reached from the clean state; candidate invariant = '
                        f'{len(invs[K])} class triples (name,.old,.new; 0 absent 1 complete 2 truncated): {enc(invs[K])}')
    jobs = plan_for(tier, invs)
    cjobs = caller_plan(tier, invs)
    from chk import c18_callers as C

    C.INV = frozenset(invs[3])
    sites = caller_coverage(tr, C)
    tr.notes.append('call sites of save_parameters / save_full_state in the library: ' +
                    ', '.join(f'{m}.{q}' for (m, q) in sorted(sites)) + '; driven entries: ' + ', '.join(C.ENTRIES))
    t0 = time.time()
    fid = {}
    with ThreadPoolExecutor(max_workers=24 if tier == 'quick' else 16) as ex:
        futs = [ex.submit(crosshair, j) for j in jobs]
        cfuts = [ex.submit(crosshair_callers, j) for j in cjobs]
        # model fidelity runs meanwhile in this process
        if tier == 'quick':
            fid[3] = fidelity(tr, 3, (-1, 1, 3), (0, 1))
        else:
            fid[3] = fidelity(tr, 3, (-1, 0, 1, 2, 3), (0, 1, 2, 3))
            fid[5] = fidelity(tr, 5, (-1, 0, 2, 5), (0, 1, 3))
            fid[8] = fidelity(tr, 8, (-1, 3, 8), (0, 2))
            fidelity(tr, 3, (-1, 1, 3), (0, 1), safely=False)
            fidelity(tr, 3, (-1, 1, 3), (0, 1), overwrite=True)
        model_for(3)
        C.INV = frozenset(invs[3])
        cfid = caller_fidelity(tr, 3, tier)
        results = [f.result() for f in futs]
        cresults = [r for f in cfuts for r in f.result()]
    tr.notes.append(f'caller-level model vs real algorithms on the real FS: {cfid[0]} runs, {cfid[1]} mismatches')
    tr.notes.append('model-vs-real-FS fidelity grid: ' + ', '.join(f'K={k}: {n} runs, {b} mismatches' for k, (n, b) in fid.items()))

    import chk.c18_harness as H

    def key(r, fn=None):
        return (fn or r['fn'], r['K'], r['safely'], r['overwrite'], enc(r['sel']))

    by = {key(r): r for r in results}
    for r in results:
        tr.queries += 1
        tr.regions += 1
        tr.solver_s += r['wall']
        tr.by_solver['crosshair(z3)'] = tr.by_solver.get('crosshair(z3)', 0) + 1
        tr.obligation(f"{cfg_of(r)} INV={enc(r['inv'])} :: {contract_of(H, r['fn'])}")
        if r['verdict'] == 'confirmed':
            tr.unsat += 1
        elif r['verdict'] == 'refuted':
            tr.sat += 1
        else:
            tr.unknown += 1

    sigs = {}
    for r in results:
        fn = r['fn']
        cfg = cfg_of(r)
        if fn.endswith('_twin'):
            if r['verdict'] != 'refuted':
                tr.inconc(f'reachability twin {cfg} was not refuted ({r["verdict"]}: {r["msg"][:200]}) - its condition may hold vacuously')
            continue
        twin = by.get(key(r, fn + '_twin'))
        if fn == 'f_inplace_loses_name':
            # documented opt-out: in-place write requested by the caller
            if r['verdict'] == 'refuted':
                out = triage(tr, r, 'name-truncated', None, strict=False)
                tr.notes.append(f'{cfg}: in-place flags give up crash safety by design (docstring: "safely: Create a temporary '
                                f'file if True"); CrossHair counterexample replayed on the real file system: '
                                f'{out[1] if out else "n/a"} - not counted as a violation of the checkpoint protocol')
            elif r['verdict'] != 'confirmed':
                tr.inconc(f'{cfg}: {r["verdict"]}: {r["msg"][:300]}')
            continue
        if r['verdict'] == 'confirmed':
            tr.closures += 1
            tr.sample({'condition': cfg, 'contract': contract_of(H, fn), 'verdict': 'Confirmed over all paths',
                       'crosshair_wall_s': round(r['wall'], 1), 'twin': (twin or {}).get('msg', '')[:160]}, limit=6)
            continue
        if r['verdict'] != 'refuted':
            tr.inconc(f'{cfg}: CrossHair gave no verdict ({r["msg"][:300]}; rc={r["rc"]}, {r["wall"]:.0f}s)')
            continue
        if fn == 'ind':
            tr.inconc(f'{cfg}: candidate invariant is not inductive ({r["msg"][:300]}) - exploration and symbolic step disagree')
            continue
        if fn.startswith('f_siblings'):
            tr.inconc(f'{cfg}: frame condition of the in-place flags refuted: {r["msg"][:300]} (outside the checkpoint protocol, not replayed)')
            continue
        if fn == 'two_steps':
            a = r['args']
            Mk, _ = model_for(r['K'])
            fs = Mk.run_model(a['n0'], a['o0'], a['w0'], a['ca'], a['la'], r['safely'], r['overwrite'])
            r = dict(r, args={'n0': fs.n[Mk.NAME], 'o0': fs.n[Mk.OLD], 'w0': fs.n[Mk.NEW], 'crash_at': a['cb'], 'lost': a['lb']})
        out = triage(tr, r, CLAUSE[fn], reach[r['K']])
        if out:
            sigs.setdefault(out[0], []).append(cfg)
    for sig, where in sigs.items():
        derived = ' (derived: its pre-state has `name` truncated, i.e. clause (2) was violated by an earlier crash)' \
            if '(name truncated' in sig else ''
        tr.notes.append(f'signature {sig}{derived} from {len(where)} condition(s): {"; ".join(where[:6])}')
    tally = {}
    for r in results:
        k = (r['fn'], r['verdict'])
        tally[k] = tally.get(k, 0) + 1
    tr.notes.append(f'crosshair conditions: {len(results)} in {time.time() - t0:.0f}s wall (slowest {max(r["wall"] for r in results):.0f}s): ' +
                    ', '.join(f'{fn} {v} x{c}' for (fn, v), c in sorted(tally.items())) + '; refuted non-twin: ' +
                    ('; '.join(cfg_of(r) for r in results if r['verdict'] == 'refuted' and not r['fn'].endswith('_twin')) or 'none'))

    # ---- caller level
    csigs = {}
    ctally = {}
    for r in cresults:
        tr.queries += 1
        tr.regions += 1
        tr.solver_s += r['wall']
        tr.by_solver['crosshair(z3)'] = tr.by_solver.get('crosshair(z3)', 0) + 1
        tr.obligation(f"{caller_cfg(r)} INV={enc(r['inv'])} :: {contract_of(C, r['fn'])}")
        ctally[(r['fn'], r['verdict'])] = ctally.get((r['fn'], r['verdict']), 0) + 1
        if r['verdict'] == 'confirmed':
            tr.unsat += 1
        elif r['verdict'] == 'refuted':
            tr.sat += 1
        else:
            tr.unknown += 1
    for r in cresults:
        cfg = caller_cfg(r)
        if r['fn'] == 'algo_twin':
            if r['verdict'] != 'refuted':
                tr.inconc(f'reachability twin {cfg} was not refuted ({r["verdict"]}: {r["msg"][:200]}) - its condition may hold vacuously')
            continue
        if r['verdict'] == 'confirmed':
            tr.closures += 1
            twin = next((x for x in cresults if x['fn'] == 'algo_twin' and caller_cfg(dict(x, fn='algo')) == cfg), {})
            tr.sample({'condition': cfg, 'contract': contract_of(C, 'algo'), 'verdict': 'Confirmed over all paths',
                       'crosshair_wall_s': round(r['wall'], 1), 'twin': twin.get('msg', '')[:200]}, limit=8)
        elif r['verdict'] == 'refuted':
            out = triage_caller(tr, r)
            if out:
                csigs.setdefault(out[0], []).append(cfg)
        else:
            tr.inconc(f'{cfg}: CrossHair gave no verdict ({r["msg"][:300]}; rc={r["rc"]}, {r["wall"]:.0f}s)')
    for sig, where in csigs.items():
        tr.notes.append(f'signature {sig} from {len(where)} caller condition(s): {"; ".join(where[:6])}')
    tr.notes.append(f'caller-level crosshair conditions: {len(cresults)} (slowest process {2 * max([r["wall"] for r in cresults] or [0]):.0f}s): ' +
                    ', '.join(f'{fn} {v} x{c}' for (fn, v), c in sorted(ctally.items())))


def do_replay(path):
    r = json.load(open(path))['replay']
    _, R = model_for(r['K'])
    if r.get('level') == 'caller':
        bad, out = R.replay_caller(r)
        print(f"  {r['entry']} checkpoint_all={r['checkpoint_all']} checkpoint={out['checkpoint']!r} frequency={r['freq']} "
              f"iterations={r['iters']} ({out['start']}); dies before operation {r['crash_at']}: {' '.join(out['ops'])}")
        for b, v in out['families'].items():
            print(f"    {b}: {v['files']}")
        print(('REPRODUCED ' if bad else 'NOT REPRODUCED ') + f"clause={r['clause']}")
        return 1 if bad else 0
    bad, out = R.replay_dict(r)
    for s in out['steps']:
        print(f"  write crash_at={s['crash_at']} lost={s['lost']}: {' '.join(s['ops'])}\n    -> {s['after']}")
    print(('REPRODUCED ' if bad else 'NOT REPRODUCED ') + f"clause={r['clause']} final={out['steps'][-1]['after']}")
    return 1 if bad else 0


if __name__ == '__main__':
    if '--replay' in sys.argv:
        sys.exit(do_replay(sys.argv[sys.argv.index('--replay') + 1]))
    sys.exit(main_for(PID, body, level='other'))
