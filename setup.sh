#!/bin/bash
# builds the overlay venv (/venv + crosshair-tool, z3-solver, cvc5 from the offline wheelhouse)
set -e
cd "$(dirname "$0")"
if [ -x .venv/bin/python ] && .venv/bin/python -c "import crosshair, z3, torch, torchtree" 2>/dev/null; then
  exit 0
fi
rm -rf .venv
/venv/bin/python -m venv .venv
echo "import site; site.addsitedir('/venv/lib/python3.12/site-packages')" > .venv/lib/python3.12/site-packages/_base_venv.pth
PIP_NO_INDEX=1 .venv/bin/pip install -q --no-index --find-links /opt/veriftools/wheels crosshair-tool z3-solver cvc5 jsonschema
.venv/bin/python -c "import crosshair, z3, torch, torchtree"
