"""Region enumeration with a coverage certificate, and goal discharge.

One *run* executes the real code once on a concrete witness (a value for every
symbolic input).  The data-dependent decisions taken on that run are its path
conditions; their conjunction is the run's *region* R.  The goals returned by
the run (boolean DAG nodes, e.g. impl == oracle) are proved for ALL points of
`Domain ∧ R` by asking the solver for a point where they fail.  Then
`Domain ∧ ¬R1 ∧ … ∧ ¬Rk` is asked for a new witness; `unsat` certifies that the
explored regions cover the whole domain.
"""
from __future__ import annotations

import math
import time
from fractions import Fraction

from . import smt
from .expr import EngineError
from .tensor import Trace, tracing


class Goal:
    def __init__(self, label, node, hyps=(), signature=None, timeout=None, info=None, alts=()):
        self.label = label
        self.alts = list(alts)  # alternative formulations: the goal holds if any of them is proved
        self.hyp_goals = []  # goals (earlier in the list) whose proved formulation is used as hypothesis
        self.proved_node = None
        self.node = node  # boolean node to prove
        self.hyps = list(hyps)  # extra boolean hypothesis nodes (lemma instances)
        self.signature = signature or label
        self.timeout = timeout
        self.info = info


class Outcome:
    def __init__(self):
        self.regions = 0
        self.closed = False
        self.failed = []  # (goal, model dict name->value, region index)
        self.unknown = []  # (goal label, detail)
        self.proved = 0
        self.region_samples = []


def _to_float(v):
    if isinstance(v, Fraction):
        return v.numerator / v.denominator
    return float(v)


def prove(dag, hyps, goal_node, timeout=20.0, solvers=('z3', 'cvc5', 'z3new'), get_values=(), tr=None,
          label='', parallel=False):
    """Return (status, result, text): 'proved' | 'refuted' | 'unknown'."""
    if goal_node == dag.TRUE:
        if tr is not None:
            tr.obligation(f'trivial:{label}', nontrivial=False)
        return 'proved', None, ''
    sc = smt.Script(dag)
    for h in hyps:
        if h != dag.TRUE:
            sc.assert_node(h)
    sc.assert_not(goal_node)
    text = sc.render(get_values=get_values)
    if tr is not None:
        tr.obligation(text, nontrivial=bool(dag.variables([goal_node])) or bool(dag.ufs([goal_node])))
    r = smt.solve_text(text, get_values=get_values, timeout=timeout, solvers=solvers,
                       first_timeout=min(timeout, 10.0), parallel=parallel)
    if r.status == 'unsat':
        return 'proved', r, text
    if r.status == 'sat':
        return 'refuted', r, text
    return 'unknown', r, text


class Explorer:
    """inputs: dict name -> initial witness value (float).
    domain(dag, V) -> list of boolean nodes, V maps name -> var node id.
    body(trace, V, W) -> list[Goal]; W maps name -> witness float.
    """

    def __init__(self, inputs, domain, body, tr, max_regions=400, timeout=20.0, closure_timeout=30.0,
                 label='', check_defined=True, solvers=('z3', 'cvc5', 'z3new'), deadline=None, require_closure=True,
                 parallel=False):
        self.require_closure = require_closure
        self.parallel = parallel
        self.inputs = dict(inputs)
        self.domain = domain
        self.body = body
        self.tr = tr
        self.max_regions = max_regions
        self.timeout = timeout
        self.closure_timeout = closure_timeout
        self.label = label
        self.check_defined = check_defined
        self.solvers = solvers
        self.deadline = deadline

    def run(self):
        out = Outcome()
        tr = self.tr
        witness = dict(self.inputs)
        region_parts = []  # (vars, ufs, defs, [assert strings]) per explored region
        seen_regions = set()
        pc_vars = set()
        k = 0
        while True:
            if k >= self.max_regions or (self.deadline and time.time() > self.deadline):
                if self.require_closure:
                    tr.inconc(f'{self.label}: region budget exhausted after {k} regions (no coverage certificate)')
                else:
                    tr.notes.append(f'{self.label}: stopped after {k} regions (explored regions only, no coverage certificate)')
                return out
            with tracing() as t:
                d = t.dag
                V = {n: d.var(n, float(v)) for n, v in witness.items()}
                dom = [c for c in self.domain(d, V)]
                for c in dom:
                    if c != d.TRUE and not d.vals[c]:
                        raise EngineError(f'{self.label}: witness violates the domain: {d.to_str(c)} at {witness}')
                goals = self.body(t, V, witness)
                if t.concretized:
                    tr.inconc(f'{self.label}: symbolic value concretised: {t.concretized[:3]}')
                    return out
                tr.witness_runs += 1
                tr.ops_checked += t.nchecked
                pcs = list(t.pcs)
                hyps = dom + pcs
                varids = [V[n] for n in sorted(V)]
                # ---- goals
                for g in goals:
                    ghyps = hyps + g.hyps + [h.proved_node for h in g.hyp_goals if h.proved_node is not None]
                    if any(h.proved_node is None for h in g.hyp_goals):
                        out.unknown.append((g.signature, f'{g.label} ({self.label} region {k}: a lemma it depends on was not proved)',
                                            dict(witness)))
                        continue
                    st, r, text = prove(d, ghyps, g.node, timeout=g.timeout or self.timeout,
                                        solvers=self.solvers, get_values=varids, tr=tr, label=g.label,
                                        parallel=self.parallel)
                    if st == 'proved':
                        g.proved_node = g.node
                        if text and not getattr(out, 'query_excerpt', None):
                            lines_ = text.splitlines()
                            out.query_excerpt = {'goal': g.label, 'smtlib_lines': len(lines_),
                                                 'head': lines_[:4], 'tail': lines_[-4:]}
                    for alt in g.alts:
                        if st == 'proved':
                            break
                        st2, r2, _ = prove(d, ghyps, alt, timeout=g.timeout or self.timeout,
                                           solvers=self.solvers, get_values=varids, tr=tr, label=g.label)
                        if st2 == 'proved':
                            st, r = st2, r2
                            g.proved_node = alt
                    if st == 'proved':
                        out.proved += 1
                    elif st == 'refuted':
                        model = {n: r.values.get(V[n]) for n in V}
                        out.failed.append((g, model, k, dict(witness)))
                    else:
                        out.unknown.append((g.signature, f'{g.label} ({self.label} region {k}: {r.raw[:120] if r else ""})',
                                            dict(witness)))
                # ---- well-definedness: denominators != 0, log/sqrt arguments in domain
                if self.check_defined:
                    obl = []
                    for b in t.denominators:
                        obl.append(('den', d.not_(d.eq(b, 0)), b))
                    for kind, x in t.domains:
                        obl.append((kind, d.lt(0, x) if kind == 'pos' else d.le(0, x), x))
                    if obl:
                        allok = d.and_(*[o[1] for o in obl])
                        from .axioms import ground_axioms

                        st, r, text = prove(d, hyps + ground_axioms(d, [allok]), allok, timeout=self.timeout,
                                            solvers=self.solvers, get_values=varids, tr=tr, label='defined')
                        if st == 'proved':
                            out.proved += 1
                        elif st == 'refuted':
                            # find which one
                            model = {n: r.values.get(V[n]) for n in V}
                            g = Goal('well-defined', allok, signature='well-defined')
                            out.failed.append((g, model, k, dict(witness)))
                        else:
                            out.unknown.append(('well-defined', f'{self.label} region {k}', dict(witness)))
                # ---- region bookkeeping
                key = tuple(sorted(d.to_str(c, 50) for c in pcs))
                if key in seen_regions:
                    if self.require_closure:
                        tr.inconc(f'{self.label}: region enumeration made no progress (region repeated at {witness})')
                    else:
                        tr.notes.append(f'{self.label}: region enumeration stopped (no new region); no coverage certificate')
                    return out
                seen_regions.add(key)
                if len(out.region_samples) < 2:
                    out.region_samples.append({'solver_query': getattr(out, 'query_excerpt', None),'witness': {n: round(float(v), 6) for n, v in list(witness.items())[:12]},
                                               'path_conditions': [d.to_str(c, 6) for c in pcs[:12]],
                                               'n_path_conditions': len(pcs),
                                               'goals': [g.label for g in goals][:12]})
                prefix = f'r{k}_'
                from .axioms import ground_axioms as _ga

                # true facts about the uninterpreted functions occurring in the path conditions (exp > 0, ...):
                # without them the solver could leave a region through a non-standard exp/log
                pc_ax = _ga(d, pcs) if (pcs and d.ufs(pcs)) else []
                vs, ufs, defs = smt.render_defs(d, pcs + pc_ax, prefix)
                if pcs:
                    rassert = '(not (and ' + ' '.join(f'{prefix}n{c}' for c in pcs) + '))'
                else:
                    rassert = 'false'
                region_parts.append((vs, ufs, defs, rassert, [f'{prefix}n{a}' for a in pc_ax]))
                k += 1
                out.regions = k
                tr.regions += 1
                # ---- closure query in the current DAG's vocabulary
                vs0, ufs0, defs0 = smt.render_defs(d, dom + varids, '')
                allvars = set(vs0)
                allufs = dict(ufs0)
                body_lines = list(defs0)
                for c in dom:
                    body_lines.append(f'(assert n{c})')
                for (vs_, ufs_, defs_, ra, axs_) in region_parts:
                    allvars |= set(vs_)
                    allufs.update(ufs_)
                    body_lines.extend(defs_)
                    body_lines.append(f'(assert {ra})')
                    for a_ in axs_:
                        body_lines.append(f'(assert {a_})')
                text = smt.assemble(allvars, allufs, body_lines, [f'n{v}' for v in varids])
                tr.evaluations += 1
                r = smt.solve_text(text, get_values=varids, timeout=self.closure_timeout, solvers=self.solvers,
                                   first_timeout=min(10.0, self.closure_timeout))
                if r.status == 'unsat':
                    out.closed = True
                    tr.closures += 1
                    return out
                if r.status != 'sat':
                    if self.require_closure:
                        tr.inconc(f'{self.label}: closure query unknown after {k} regions')
                    else:
                        tr.notes.append(f'{self.label}: no coverage certificate (closure query undecided after {k} regions); '
                                        f'the claim is restricted to the explored regions')
                    return out
                new = {}
                for c in pcs:
                    pc_vars.update(d.variables([c]))
                for n in V:
                    v = r.values.get(V[n])
                    fv = _to_float(v)
                    if math.isnan(fv) or math.isinf(fv):
                        raise EngineError('non-finite model value')
                    new[n] = fv
                # inputs that no path condition mentions keep their generic initial value
                # (keeps witnesses away from degenerate points such as theta = 1)
                generic = dict(new)
                for n in V:
                    if n not in pc_vars:
                        generic[n] = self.inputs[n]
                if generic != new:
                    ev = d.evaluate(dom, generic)
                    if all(ev[c] for c in dom):
                        new = generic
                witness = new


def triage(out, replay, tr, label, extra=None):
    """Verdict policy for refuted / undecided goals.
    replay(values) -> (reproduced: bool, detail: str) runs the real code on plain
    tensors against an independent concrete oracle."""
    sigs = set()
    for g, model, k, witness in out.failed:
        vals = {a: _to_float(b) for a, b in model.items() if b is not None}
        ok, detail = replay(vals)
        where = vals
        if not ok:
            # spurious model (uninterpreted functions): does the region's own witness separate them?
            ok2, detail2 = replay(witness)
            if ok2:
                ok, detail, where = True, detail2, witness
        if ok:
            if g.signature not in sigs:
                sigs.add(g.signature)
                rp = {'values': where}
                rp.update(extra or {})
                tr.violation(g.signature, f'{label}: {g.label} fails at {where}: {detail}', rp)
        else:
            tr.inconc(f'{label}: solver counterexample for "{g.label}" did not reproduce on the real code '
                      f'({detail}); encoding/axioms too weak to decide')
    for lab, detail, witness in out.unknown:
        ok, d2 = replay(witness)
        if ok:
            if lab not in sigs:
                sigs.add(lab)
                rp = {'values': witness}
                rp.update(extra or {})
                tr.violation(lab, f'{label}: {lab}: solver undecided but the witness point separates '
                                  f'implementation and oracle: {d2}', rp)
        else:
            tr.inconc(f'{label}: {lab} undecided ({detail})')
