"""Handler used by checks/C06.py only (kept out of tensor.py: that file is shared).

`torch.max(x, dim=-1, keepdim=True)[0]` over a last dimension of size 2 is how DifferenceNodeHeightTransform._call
takes the older of two children.  The generic handler decides the winner on the witness and records a path
condition, so every distinct parameter state that is in force somewhere in an update history contributes its own
decision and the number of path regions is exponential in the number of states.  Inside `lazy_pair_max()` the same
call builds `ite(a <= b, b, a)` instead - exactly what the `maximum` handler of tensor.py (two-tensor form, used by
the transform's own `_inverse`) already does - and records no path condition: the value is exact on the whole
domain.  The index half of the result is not a function of the witness any more, so it is a poison object that
raises on any use.  Every other form of max/min falls through to the generic handler.
"""
from __future__ import annotations

import contextlib

import torch

from .tensor import HANDLERS, SymTensor, _fname, _real_tensor, check_vals, cur, wrap
from .expr import EngineError


class _NoIndices:
    def _no(self, *a, **k):
        raise EngineError('indices of a lazily decided max(dim=-1) were used')

    __getitem__ = __index__ = __int__ = __iter__ = __len__ = __bool__ = __torch_function__ = _no

    def __getattr__(self, name):
        raise EngineError(f'indices of a lazily decided max(dim=-1) were used (.{name})')


def _pair_max(generic):
    def h(func, args, kwargs):
        x = args[0]
        dim = kwargs.get('dim', args[1] if len(args) > 1 else None)
        keepdim = kwargs.get('keepdim', args[2] if len(args) > 2 else False)
        if (_fname(func) != 'max' or not isinstance(x, SymTensor) or isinstance(dim, torch.Tensor) or dim is None
                or x.dim() == 0 or dim not in (-1, x.dim() - 1) or x.shape[-1] != 2 or len(args) > 3):
            return generic(func, args, kwargs)
        d = cur().dag
        a, b = x._ids[..., 0], x._ids[..., 1]
        out = [d.ite(d.le(p, q), q, p) for p, q in zip(a.reshape(-1).tolist(), b.reshape(-1).tolist())]
        ri = _real_tensor(out, dtype=torch.int64).reshape(a.shape)
        rv = torch.max(x._v, dim=-1)[0]
        if keepdim:
            ri, rv = ri.unsqueeze(-1), rv.unsqueeze(-1)
        check_vals(rv, ri, 'max(dim=-1) as ite')
        return (wrap(rv, ri, 'max', x._rg), _NoIndices())

    return h


@contextlib.contextmanager
def lazy_pair_max():
    generic = HANDLERS['max']
    HANDLERS['max'] = _pair_max(generic)
    try:
        yield
    finally:
        HANDLERS['max'] = generic
