"""Ground instances of true axioms about the uninterpreted transcendental
functions.  Every formula produced here is a theorem of real analysis for the
terms that occur, so `unsat` obtained with them is sound; `sat` answers may be
spurious (the solver may pick a non-standard exp/log) and must survive replay.
"""
from __future__ import annotations

from fractions import Fraction


def _addends(d, n):
    """flatten a sum into (coef, term) pairs"""
    out = []
    stack = [(Fraction(1), n)]
    while stack:
        c, x = stack.pop()
        op = d.ops[x]
        a = d.args[x]
        if op == 'add':
            stack.append((c, a[0]))
            stack.append((c, a[1]))
        elif op == 'mul' and d.ops[a[0]] == 'const':
            stack.append((c * d.cval(a[0]), a[1]))
        elif op == 'const':
            out.append((c * d.cval(x), None))
        elif op == 'stop':
            stack.append((c, a[0]))
        else:
            out.append((c, x))
    return out


def _factors(d, n):
    """flatten a product/quotient into (term, integer power) pairs and a constant"""
    out = []
    const = Fraction(1)
    stack = [(n, 1)]
    while stack:
        x, p = stack.pop()
        op = d.ops[x]
        a = d.args[x]
        if op == 'mul':
            stack.append((a[0], p))
            stack.append((a[1], p))
        elif op == 'div':
            stack.append((a[0], p))
            stack.append((a[1], -p))
        elif op == 'ipow':
            stack.append((a[0], p * a[1]))
        elif op == 'const':
            const *= d.cval(x) ** p
        elif op == 'stop':
            stack.append((a[0], p))
        else:
            out.append((x, p))
    return const, out


def const_exp_axioms(d, roots):
    """exp(a) * exp(b) == exp(a + b) for the constant arguments that occur (closed expressions: e.g. branch lengths
    read from a Newick string)"""
    atoms = {}
    for n in d.topo(list(roots)):
        if d.ops[n] == 'uf' and d.args[n][0] == 'exp' and d.ops[d.args[n][1]] == 'const':
            atoms[d.cval(d.args[n][1])] = n
    out = []
    keys = sorted(atoms)
    for i, a in enumerate(keys):
        for b in keys[i:]:
            if a + b in atoms:
                out.append(d.eq(d.mul(atoms[a], atoms[b]), atoms[a + b]))
    for a in keys:
        out.append(d.lt(0, atoms[a]))
    return out


def ground_axioms(d, roots, rounds=3, monotone=False, bounds=False, positivity=()):
    """positivity: extra nodes known to be > 0 (given as hypotheses elsewhere)."""
    ax = []
    seen_ax = set()

    def emit(c):
        if c != d.TRUE and c not in seen_ax:
            seen_ax.add(c)
            ax.append(c)

    done = set()
    frontier = list(roots)
    for _ in range(rounds):
        new_terms = []
        nodes = [n for n in d.topo(frontier) if n not in done]
        if not nodes:
            break
        for n in nodes:
            done.add(n)
            if d.ops[n] != 'uf':
                continue
            name = d.args[n][0]
            xs = d.args[n][1:]
            if name == 'exp':
                x = xs[0]
                emit(d.lt(0, n))
                # sign information: exp(x) > 1 <=> x > 0 ; exp(x) = 1 <=> x = 0
                emit(d.eq(d.lt(0, x), d.lt(1, n)))
                emit(d.eq(d.eq(x, 0), d.eq(n, 1)))
                emit(d.eq(d.uf_raw('log', n), x))  # log(exp(x)) = x
                adds = _addends(d, x)
                if len(adds) > 1 or (adds and adds[0][0] != 1):
                    # exp(sum c_i t_i + c0) = prod exp(t_i)^c_i * exp(c0)  for integer c_i
                    prod = 1
                    ok = True
                    for c, t in adds:
                        if t is None:
                            if c.denominator != 1 or abs(c) > 8:
                                e = d.exp(d.const(c))
                                prod = d.mul(prod, e)
                                new_terms.append(e)
                            else:
                                e1 = d.exp(1)
                                new_terms.append(e1)
                                prod = d.mul(prod, d.ipow(e1, int(c)))
                            continue
                        if c.denominator != 1 or abs(c) > 16:
                            et = d.exp(d.mul(d.const(c), t))
                            if et == n:
                                ok = False
                                break
                            prod = d.mul(prod, et)
                            new_terms.append(et)
                            continue
                        et = d.exp(t)
                        new_terms.append(et)
                        emit(d.lt(0, et))
                        prod = d.mul(prod, d.ipow(et, int(c)))
                    if ok and prod != n:
                        emit(d.eq(n, prod))
                if bounds:
                    emit(d.le(d.add(1, x), n))
            elif name == 'log':
                x = xs[0]
                # sign information: log(x) > 0 <=> x > 1 ; log(x) = 0 <=> x = 1   (x > 0)
                emit(d.or_(d.not_(d.lt(0, x)), d.eq(d.lt(1, x), d.lt(0, n))))
                emit(d.or_(d.not_(d.lt(0, x)), d.eq(d.eq(x, 1), d.eq(n, 0))))
                emit(d.or_(d.not_(d.lt(0, x)), d.eq(d.uf_raw('exp', n), x)))  # exp(log(x)) = x
                const, facs = _factors(d, x)
                if len(facs) > 1 or (facs and (facs[0][1] != 1 or const != 1)):
                    # log(c * prod f_i^p_i) = log c + sum p_i log f_i   if all f_i > 0 (and c > 0)
                    if const > 0:
                        s = d.log(d.const(const)) if const != 1 else 0
                        pos = []
                        for f, p in facs:
                            lf = d.log(f)
                            new_terms.append(lf)
                            s = d.add(s, d.mul(d.const(p), lf))
                            pos.append(d.lt(0, f))
                        emit(d.or_(d.not_(d.and_(*pos)), d.eq(n, s)))
                if bounds:
                    emit(d.or_(d.not_(d.lt(0, x)), d.le(n, d.sub(x, 1))))
            elif name == 'sqrt':
                x = xs[0]
                emit(d.le(0, n))
                emit(d.or_(d.not_(d.le(0, x)), d.eq(d.mul(n, n), x)))
            elif name == 'pow':
                base, ex = xs
                emit(d.or_(d.not_(d.lt(0, base)), d.lt(0, n)))
        frontier = new_terms + ax
    if monotone:
        exps = [n for n in d.topo(list(roots) + ax) if d.ops[n] == 'uf' and d.args[n][0] == 'exp']
        for i, a in enumerate(exps):
            for b in exps[i + 1:]:
                xa, xb = d.args[a][1], d.args[b][1]
                emit(d.eq(d.lt(xa, xb), d.lt(a, b)))
        logs = [n for n in d.topo(list(roots) + ax) if d.ops[n] == 'uf' and d.args[n][0] == 'log']
        for i, a in enumerate(logs):
            for b in logs[i + 1:]:
                xa, xb = d.args[a][1], d.args[b][1]
                emit(d.or_(d.not_(d.and_(d.lt(0, xa), d.lt(0, xb))), d.eq(d.lt(xa, xb), d.lt(a, b))))
    return ax
