"""Lowering of a (+, *, const, var) DAG to SMT-LIB QF_FP: Float64 round-to-nearest-even for the
implementation, Float128 as the (effectively exact) reference.  Used for the one floating-point
question of C03: can the plain pruning path return a finite but inaccurate value?"""
from __future__ import annotations

from fractions import Fraction

from .expr import EngineError


def lower(dag, root, sort='F64'):
    eb, sb = (11, 53) if sort == 'F64' else (15, 113)
    lines = []
    names = {}
    varnames = []
    for n in dag.topo([root]):
        op = dag.ops[n]
        a = dag.args[n]
        nm = f'{sort.lower()}_{n}'
        if op == 'var':
            v = 'v_' + ''.join(ch if ch.isalnum() else '_' for ch in a[0])
            varnames.append((a[0], v))
            e = v if sort == 'F64' else f'((_ to_fp {eb} {sb}) RNE {v})'
        elif op == 'const':
            fr: Fraction = a[0]
            lit = f'(/ {abs(fr.numerator)}.0 {fr.denominator}.0)'
            if fr < 0:
                lit = f'(- {lit})'
            e = f'((_ to_fp {eb} {sb}) RNE {lit})'
        elif op == 'add':
            e = f'(fp.add RNE {names[a[0]]} {names[a[1]]})'
        elif op == 'mul':
            e = f'(fp.mul RNE {names[a[0]]} {names[a[1]]})'
        elif op == 'stop':
            e = names[a[0]]
        else:
            raise EngineError(f'floating-point lowering of {op} not supported')
        lines.append(f'(define-fun {nm} () (_ FloatingPoint {eb} {sb}) {e})')
        names[n] = nm
    return lines, names[root], varnames


def inaccuracy_query(dag, root, rel_bits=20):
    """exists normal inputs in (0,1] such that the Float64 evaluation is non-zero (so its log is finite and the
    implementation does not switch to rescaling) but differs from the exact value by more than 2^-rel_bits relative"""
    l64, r64, vars64 = lower(dag, root, 'F64')
    l128, r128, _ = lower(dag, root, 'F128')
    out = ['(set-logic QF_FP)']
    seen = set()
    for _, v in vars64:
        if v in seen:
            continue
        seen.add(v)
        out.append(f'(declare-const {v} (_ FloatingPoint 11 53))')
        out.append(f'(assert (and (fp.isNormal {v}) (fp.isPositive {v}) (fp.leq {v} ((_ to_fp 11 53) RNE 1.0))))')
    out += l64 + l128
    out.append(f'(assert (not (fp.isZero {r64})))')
    out.append(f'(assert (not (fp.isInfinite {r64})))')
    tol = Fraction(1, 2 ** rel_bits)
    out.append(f'(assert (fp.gt (fp.abs (fp.sub RNE ((_ to_fp 15 113) RNE {r64}) {r128})) '
               f'(fp.mul RNE ((_ to_fp 15 113) RNE (/ {tol.numerator}.0 {tol.denominator}.0)) {r128})))')
    out.append('(check-sat)')
    out.append('(get-value (' + ' '.join(sorted(seen)) + f' {r64}))')
    return '\n'.join(out) + '\n', sorted(seen)


def parse_fp_value(tok):
    """(fp #b0 #b... #x...) -> python float"""
    import re
    import struct

    m = re.match(r'\(fp #b([01]) #b([01]+) #x([0-9a-fA-F]+)\)', tok.strip())
    if not m:
        raise EngineError(f'cannot parse {tok}')
    bits = (int(m.group(1)) << 63) | (int(m.group(2), 2) << 52) | int(m.group(3), 16)
    return struct.unpack('>d', bits.to_bytes(8, 'big'))[0]
