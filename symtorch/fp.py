"""Lowering of a (+, *, const, var) DAG to SMT-LIB QF_FP: Float64 round-to-nearest-even for the
implementation, Float128 as the (effectively exact) reference.  Used for the one floating-point
question of C03: can the plain pruning path return a finite but inaccurate value?"""
from __future__ import annotations

from fractions import Fraction

from .expr import EngineError


def lower(dag, root, sort='F64'):
    eb, sb = (11, 53) if sort == 'F64' else (15, 113)
    lines = []
    names = {}
    varnames = []
    for n in dag.topo([root]):
        op = dag.ops[n]
        a = dag.args[n]
        nm = f'{sort.lower()}_{n}'
        if op == 'var':
            v = 'v_' + ''.join(ch if ch.isalnum() else '_' for ch in a[0])
            varnames.append((a[0], v))
            e = v if sort == 'F64' else f'((_ to_fp {eb} {sb}) RNE {v})'
        elif op == 'const':
            fr: Fraction = a[0]
            lit = f'(/ {abs(fr.numerator)}.0 {fr.denominator}.0)'
            if fr < 0:
                lit = f'(- {lit})'
            e = f'((_ to_fp {eb} {sb}) RNE {lit})'
        elif op == 'add':
            e = f'(fp.add RNE {names[a[0]]} {names[a[1]]})'
        elif op == 'mul':
            e = f'(fp.mul RNE {names[a[0]]} {names[a[1]]})'
        elif op == 'stop':
            e = names[a[0]]
        else:
            raise EngineError(f'floating-point lowering of {op} not supported')
        lines.append(f'(define-fun {nm} () (_ FloatingPoint {eb} {sb}) {e})')
        names[n] = nm
    return lines, names[root], varnames


def inaccuracy_query(dag, root, rel_bits=20):
    """exists normal inputs in (0,1] such that the Float64 evaluation is non-zero (so its log is finite and the
    implementation does not switch to rescaling) but differs from the exact value by more than 2^-rel_bits relative"""
    l64, r64, vars64 = lower(dag, root, 'F64')
    l128, r128, _ = lower(dag, root, 'F128')
    out = ['(set-logic QF_FP)']
    seen = set()
    for _, v in vars64:
        if v in seen:
            continue
        seen.add(v)
        out.append(f'(declare-const {v} (_ FloatingPoint 11 53))')
        out.append(f'(assert (and (fp.isNormal {v}) (fp.isPositive {v}) (fp.leq {v} ((_ to_fp 11 53) RNE 1.0))))')
    out += l64 + l128
    out.append(f'(assert (not (fp.isZero {r64})))')
    out.append(f'(assert (not (fp.isInfinite {r64})))')
    tol = Fraction(1, 2 ** rel_bits)
    out.append(f'(assert (fp.gt (fp.abs (fp.sub RNE ((_ to_fp 15 113) RNE {r64}) {r128})) '
               f'(fp.mul RNE ((_ to_fp 15 113) RNE (/ {tol.numerator}.0 {tol.denominator}.0)) {r128})))')
    out.append('(check-sat)')
    out.append('(get-value (' + ' '.join(sorted(seen)) + f' {r64}))')
    return '\n'.join(out) + '\n', sorted(seen)


def parse_fp_value(tok):
    """(fp #b0 #b... #x...) -> python float"""
    import re
    import struct

    m = re.match(r'\(fp #b([01]) #b([01]+) #x([0-9a-fA-F]+)\)', tok.strip())
    if not m:
        raise EngineError(f'cannot parse {tok}')
    bits = (int(m.group(1)) << 63) | (int(m.group(2), 2) << 52) | int(m.group(3), 16)
    return struct.unpack('>d', bits.to_bytes(8, 'big'))[0]


# ---------------------------------------------------------------------------------------------------------------
# log2-magnitude abstraction of IEEE-754 binary64 (round to nearest even) on NON-NEGATIVE values -> QF_LRA
#
# Bit-blasted QF_FP cannot prove range statements over a dozen multiplications (unknown after 300 s for one
# node of the pruning recursion), and the underflow question of C03 is a statement about exponents.  Every
# double x >= 0 is represented by (z_x : Bool "x == +0", e_x : Real = log2(x) exactly when x > 0); every operation
# contributes a RELATION that the exact log2 of the Float64 result satisfies:
#   fl(a*b), a,b > 0, s = e_a + e_b :   s >= -1022           -> result > 0,  |e - s| <= eps        (|delta| <= 2^-53)
#                                        -1074 <= s < -1022   -> result > 0,  -1074 <= e <= s + 1   (gradual underflow)
#                                        -1076 <= s < -1074   -> result == 0  or  e = -1074
#                                        s < -1076            -> result == 0
#   fl(a+b), a,b > 0               :   max(e_a,e_b) <= e <= max(e_a,e_b) + 1 + eps ; x + 0 = x
#   fl(a/b), b > 0                 :   as the product with s = e_a - e_b (s <= 1023); b == 0: result unconstrained
#   comparisons                    :   exact on (z, e)   (log2 is strictly increasing)
# The relation over-approximates the set of Float64 behaviours, hence `unsat` of (hypotheses and not goal) is sound
# for the Float64 semantics; `sat` may be spurious and is replayed on the real code with plain tensors.
# Constants c > 0 get e in a rational enclosure of log2(c) (exact for powers of two).
EPS_LOG2 = Fraction(1, 2 ** 50)
E_MIN_NORMAL = -1022
E_MIN_SUBNORMAL = -1074
CZ_MARGIN = 40


def _q(fr):
    fr = Fraction(fr)
    s = f'{abs(fr.numerator)}.0' if fr.denominator == 1 else f'(/ {abs(fr.numerator)}.0 {fr.denominator}.0)'
    return f'(- {s})' if fr < 0 else s


def log2_enclosure(fr: Fraction):
    """rational l <= log2(fr) <= u (l == u for powers of two)"""
    import math

    fr = Fraction(fr)
    if fr <= 0:
        raise EngineError('log2 of a non-positive constant')
    n, m = fr.numerator, fr.denominator
    if n & (n - 1) == 0 and m & (m - 1) == 0:
        k = Fraction(n.bit_length() - m.bit_length())
        return k, k
    v = math.log2(n) - math.log2(m)  # python ints of any size; error far below 2^-40 relative to |v| <= 2200
    slack = Fraction(1, 2 ** 36)
    c = Fraction(v).limit_denominator(2 ** 44)
    return c - slack, c + slack


def mag_hashes(dag, roots):
    """structural hash per node: identical sub-terms of different traces (different DAGs) get identical SMT names"""
    import hashlib

    hs = {}
    for n in dag.topo(list(roots)):
        op = dag.ops[n]
        a = dag.args[n]
        if op == 'var':
            key = 'var:' + a[0]
        elif op == 'const':
            key = f'const:{a[0]}'
        elif op == 'bconst':
            key = f'bconst:{a[0]}'
        elif op == 'uf':
            key = 'uf:' + a[0] + ':' + ','.join(hs[x] for x in a[1:])
        elif op == 'ipow':
            key = f'ipow:{hs[a[0]]}:{a[1]}'
        else:
            key = op + ':' + ','.join(hs[x] for x in a)
        hs[n] = hashlib.sha1(key.encode()).hexdigest()[:14]
    return hs


def lower_mag(dag, roots):
    """QF_LRA relations for the cone of `roots` (numeric and boolean nodes).
    Returns (lines, ref, inputs): ref[n] = ('num', zname, ename, czname) | ('bool', name); inputs = [(var name, z, e)].
    Lines are keyed by structural hashes, so scripts of several traces can be concatenated and de-duplicated.
    czname is a SUFFICIENT condition (with a margin of 2^-CZ_MARGIN) for the Float64 value to be exactly zero: it is
    used only to steer the solver towards counterexamples that survive the concrete replay, never to prove."""
    hs = mag_hashes(dag, roots)
    lines = []
    ref = {}
    inputs = []
    eps = _q(EPS_LOG2)
    for n in dag.topo(list(roots)):
        op = dag.ops[n]
        a = dag.args[n]
        h = hs[n]
        if op in ('le', 'lt', 'eq', 'not', 'and', 'or', 'bconst'):
            nm = f'b_{h}'
            if op == 'bconst':
                e = 'true' if a[0] else 'false'
            elif op == 'not':
                e = f'(not {ref[a[0]][1]})'
            elif op in ('and', 'or'):
                e = f'({op} ' + ' '.join(ref[x][1] for x in a) + ')'
            else:
                za, ea = ref[a[0]][1:3]
                zb, eb = ref[a[1]][1:3]
                if op == 'le':
                    e = f'(or {za} (and (not {zb}) (<= {ea} {eb})))'
                elif op == 'lt':
                    e = f'(and (not {zb}) (or {za} (< {ea} {eb})))'
                else:
                    e = f'(or (and {za} {zb}) (and (not {za}) (not {zb}) (= {ea} {eb})))'
            lines.append(f'(define-fun {nm} () Bool {e})')
            ref[n] = ('bool', nm)
            continue
        z, e, cz = f'z_{h}', f'e_{h}', f'c_{h}'
        if op == 'stop':
            ref[n] = ref[a[0]]
            continue
        if op == 'ite':
            c = ref[a[0]][1]
            _, za, ea, ca = ref[a[1]]
            _, zb, eb, cb = ref[a[2]]
            lines.append(f'(define-fun {z} () Bool (ite {c} {za} {zb}))')
            lines.append(f'(define-fun {e} () Real (ite {c} {ea} {eb}))')
            lines.append(f'(define-fun {cz} () Bool (ite {c} {ca} {cb}))')
            ref[n] = ('num', z, e, cz)
            continue
        lines.append(f'(declare-const {z} Bool)')
        lines.append(f'(declare-const {e} Real)')
        ref[n] = ('num', z, e, cz)
        if op == 'var':
            inputs.append((a[0], z, e))
            lines.append(f'(define-fun {cz} () Bool {z})')
        elif op == 'const':
            fr = a[0]
            if fr < 0:
                raise EngineError('magnitude abstraction: negative constant')
            lines.append(f'(define-fun {cz} () Bool {"true" if fr == 0 else "false"})')
            if fr == 0:
                lines.append(f'(assert {z})')
            else:
                lo, hi = log2_enclosure(fr)
                lines.append(f'(assert (and (not {z}) (<= {_q(lo)} {e}) (<= {e} {_q(hi)})))')
        elif op == 'add':
            _, za, ea, ca = ref[a[0]]
            _, zb, eb, cb = ref[a[1]]
            lines.append(f'(define-fun {cz} () Bool (and {ca} {cb}))')
            mx = f'(ite (>= {ea} {eb}) {ea} {eb})'
            lines.append(f'(assert (=> {za} (and (= {z} {zb}) (=> (not {zb}) (= {e} {eb})))))')
            lines.append(f'(assert (=> (and {zb} (not {za})) (and (not {z}) (= {e} {ea}))))')
            lines.append(f'(assert (=> (and (not {za}) (not {zb})) (and (not {z}) (<= {mx} {e}) (<= {e} (+ {mx} 1.0 {eps})))))')
        elif op in ('mul', 'div'):
            _, za, ea, ca = ref[a[0]]
            _, zb, eb, cb = ref[a[1]]
            s = f's_{h}'
            lines.append(f'(define-fun {s} () Real ({"+" if op == "mul" else "-"} {ea} {eb}))')
            deep = f'(and (not {za}) (not {zb}) (< {s} {_q(E_MIN_SUBNORMAL - 2 - CZ_MARGIN)}))'
            lines.append(f'(define-fun {cz} () Bool (or {ca} {deep}' + (f' {cb}))' if op == 'mul' else '))'))
            under = (f'(and (or {z} (and (>= {e} {_q(E_MIN_SUBNORMAL)}) (<= {e} (+ (ite (>= {s} {_q(E_MIN_SUBNORMAL - 1)}) {s} '
                     f'{_q(E_MIN_SUBNORMAL - 1)}) 1.0)))) (=> (< {s} {_q(E_MIN_SUBNORMAL - 2)}) {z}) (=> (>= {s} {_q(E_MIN_SUBNORMAL)}) (not {z})))')
            normal = f'(and (not {z}) (<= (- {s} {eps}) {e}) (<= {e} (+ {s} {eps})))'
            if op == 'mul':
                lines.append(f'(assert (=> (or {za} {zb}) {z}))')
                lines.append(f'(assert (=> (and (not {za}) (not {zb}) (>= {s} {_q(E_MIN_NORMAL)})) {normal}))')
                lines.append(f'(assert (=> (and (not {za}) (not {zb}) (< {s} {_q(E_MIN_NORMAL)})) {under}))')
            else:
                # b == 0 (inf / nan) leaves the result unconstrained: denominators carry their own obligation
                lines.append(f'(assert (=> (and (not {zb}) {za}) {z}))')
                lines.append(f'(assert (=> (and (not {za}) (not {zb}) (>= {s} {_q(E_MIN_NORMAL)}) (<= {s} 1023.0)) {normal}))')
                lines.append(f'(assert (=> (and (not {za}) (not {zb}) (< {s} {_q(E_MIN_NORMAL)})) {under}))')
        else:
            raise EngineError(f'magnitude abstraction of {op} not supported')
    return lines, ref, inputs


def mag_margins(dag, bool_roots, ref, margin):
    """witness steering (never used to prove): every order comparison below `bool_roots` is decided by a factor
    >= 2^margin, or one side is exactly zero"""
    out = []
    seen = set()
    stack = list(bool_roots)
    while stack:
        n = stack.pop()
        if n in seen:
            continue
        seen.add(n)
        op = dag.ops[n]
        if op in ('not', 'and', 'or'):
            stack += list(dag.args[n])
        elif op in ('le', 'lt'):
            a, b = dag.args[n]
            za, ea = ref[a][1:3]
            zb, eb = ref[b][1:3]
            out.append(f'(or {za} {zb} (>= (- {ea} {eb}) {margin}.0) (>= (- {eb} {ea}) {margin}.0))')
    return out


def mag_script(blocks, asserts, get=()):
    """assemble: blocks = lists of lines from lower_mag (de-duplicated, order kept), asserts = SMT boolean texts,
    get = [(label, smt term)] -> text, get_values (indices for smt.solve_text: term k is named n<k>)"""
    out = ['(set-logic QF_LRA)']
    seen = set()
    for b in blocks:
        for l in b:
            if l not in seen:
                seen.add(l)
                out.append(l)
    for a in asserts:
        out.append(f'(assert {a})')
    out.append('(check-sat)')
    if get:
        for k, (_, term, sort) in enumerate(get):
            out.insert(len(out) - 1, f'(define-fun n{k} () {sort} {term})')
        out.append('(get-value (' + ' '.join(f'n{k}' for k in range(len(get))) + '))')
    return '\n'.join(out) + '\n', list(range(len(get)))


def mag_value(z, e):
    """concrete double of a model value (z: bool, e: rational log2)"""
    if z:
        return 0.0
    e = Fraction(e)
    if e.denominator == 1:
        k = int(e)
        if k < E_MIN_SUBNORMAL:
            return 0.0
        import math

        return math.ldexp(1.0, k)
    try:
        return 2.0 ** float(e)
    except OverflowError:
        return float('inf')
