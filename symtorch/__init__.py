"""symtorch: concolic symbolic execution of torch tensor code + SMT."""
from .expr import DAG, EngineError  # noqa
from .tensor import (SymTensor, SymBool, SymFloat, SymMath, Trace, tracing, cur, new_vars, from_ids,  # noqa
                     symgrad, UnsupportedOp, HANDLERS, handler, wrap, ids_of, val_of, const_ids, ew,
                     vals_from_ids, check_vals, mark_leaf, upgrade, is_sym)
from . import smt  # noqa
