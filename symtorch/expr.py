"""Hash-consed expression DAG over the reals (+ booleans) with float witness values.

Every node has: op, args, val (float witness or bool).  Node ids are ints.
id 0 is the constant 0, id 1 is the constant 1 (so zero/one-filling tensor ops
applied to id tensors stay exact).

ops (real sort):  const(Fraction) var(name) add(a,b) mul(a,b) div(a,b)
                  ipow(a,n:int) uf(name, *args) ite(c,a,b) stop(a)
ops (bool sort):  le(a,b) lt(a,b) eq(a,b) and(*cs) or(*cs) not(c) bconst(bool)
"""
from __future__ import annotations

import math
from fractions import Fraction

REAL_OPS = {'const', 'var', 'add', 'mul', 'div', 'ipow', 'uf', 'ite', 'stop'}
BOOL_OPS = {'le', 'lt', 'eq', 'and', 'or', 'not', 'bconst'}


class EngineError(Exception):
    """Harness / engine error: never a verdict."""


def _lgamma(x):
    return math.lgamma(x)


def _digamma(x):
    # only used for witness values of derivative nodes
    import torch

    return float(torch.digamma(torch.tensor(float(x), dtype=torch.float64)))


UF_EVAL = {
    'exp': lambda x: math.exp(x) if x < 709 else math.inf,
    'log': lambda x: math.log(x) if x > 0 else (-math.inf if x == 0 else math.nan),
    'sqrt': lambda x: math.sqrt(x) if x >= 0 else math.nan,
    'lgamma': _lgamma,
    'digamma': _digamma,
    'pow': lambda x, y: _safe_pow(x, y),
    'log1p': lambda x: math.log1p(x) if x > -1 else math.nan,
    'expm1': math.expm1,
    'tanh': math.tanh,
}


def _safe_pow(x, y):
    try:
        return math.pow(x, y)
    except (OverflowError, ValueError):
        return math.nan


class DAG:
    def __init__(self):
        self.ops = []
        self.args = []
        self.vals = []
        self.memo = {}
        self.var_ids = {}
        self.uf_eval = dict(UF_EVAL)  # name -> python callable (witness values)
        self.uf_witness = {}  # (name,argvals)->value for uninterpreted stubs
        z = self._mk('const', (Fraction(0),), 0.0)
        o = self._mk('const', (Fraction(1),), 1.0)
        assert z == 0 and o == 1
        self.TRUE = self._mk('bconst', (True,), True)
        self.FALSE = self._mk('bconst', (False,), False)

    # ------------------------------------------------------------------ core
    def _mk(self, op, args, val):
        key = (op, args)
        i = self.memo.get(key)
        if i is not None:
            return i
        i = len(self.ops)
        self.ops.append(op)
        self.args.append(args)
        self.vals.append(val)
        self.memo[key] = i
        return i

    def __len__(self):
        return len(self.ops)

    def _key(self, i):
        return (0 if self.ops[i] == 'const' else 1, i)

    def is_const(self, i):
        return self.ops[i] == 'const'

    def cval(self, i):
        return self.args[i][0]

    # ------------------------------------------------------------- builders
    def const(self, x):
        if isinstance(x, bool):
            x = int(x)
        if isinstance(x, float):
            if math.isnan(x) or math.isinf(x):
                raise EngineError(f'non-finite constant {x}')
            fr = Fraction(x)
            if fr.denominator > 1024:
                # a double that is the nearest float of a small rational p/q (q <= 1000) is read as
                # that rational (1/3, 5/6, ...): the identities are decided over the reals
                snap = fr.limit_denominator(1000)
                if float(snap) == x:
                    fr = snap
        else:
            fr = Fraction(x)
        if fr == 0:
            return 0
        if fr == 1:
            return 1
        return self._mk('const', (fr,), float(fr))

    def var(self, name, val):
        if name in self.var_ids:
            i = self.var_ids[name]
            return i
        i = self._mk('var', (name,), float(val))
        self.var_ids[name] = i
        return i

    def set_var_value(self, name, val):
        raise EngineError('witness values are fixed per DAG; build a new DAG')

    def add(self, a, b):
        if a == 0:
            return b
        if b == 0:
            return a
        oa, ob = self.ops[a], self.ops[b]
        if oa == 'const' and ob == 'const':
            return self.const(self.cval(a) + self.cval(b))
        if self._key(a) > self._key(b):
            a, b = b, a
        return self._mk('add', (a, b), self.vals[a] + self.vals[b])

    def mul(self, a, b):
        if a == 0 or b == 0:
            return 0
        if a == 1:
            return b
        if b == 1:
            return a
        oa, ob = self.ops[a], self.ops[b]
        if oa == 'const' and ob == 'const':
            return self.const(self.cval(a) * self.cval(b))
        # (-1)*((-1)*x) -> x ; c1*(c2*x) -> (c1c2)*x
        if ob == 'const':
            a, b, oa, ob = b, a, ob, oa
        if oa == 'const' and ob == 'mul' and self.ops[self.args[b][0]] == 'const':
            c = self.cval(a) * self.cval(self.args[b][0])
            return self.mul(self.const(c), self.args[b][1])
        if self._key(a) > self._key(b):
            a, b = b, a
            oa, ob = ob, oa
        va, vb = self.vals[a], self.vals[b]
        try:
            v = va * vb
        except OverflowError:
            v = math.inf
        return self._mk('mul', (a, b), v)

    def neg(self, a):
        return self.mul(self.const(-1), a)

    def sub(self, a, b):
        if a == b:
            return 0
        return self.add(a, self.neg(b))

    def div(self, a, b):
        if b == 1:
            return a
        if self.ops[b] == 'const':
            c = self.cval(b)
            if c == 0:
                raise EngineError('division by the literal constant 0')
            return self.mul(self.const(1 / c), a)
        if a == 0:
            return 0
        if a == b:
            # x/x = 1 wherever defined; definedness obligation is recorded
            self.note_denominator(b)
            return 1
        self.note_denominator(b)
        vb = self.vals[b]
        va = self.vals[a]
        if vb == 0:
            v = math.nan if va == 0 or math.isnan(va) else math.copysign(math.inf, va)
        else:
            v = va / vb
        return self._mk('div', (a, b), v)

    # definedness obligations are collected by the tracing context
    def note_denominator(self, b):
        cb = getattr(self, 'on_denominator', None)
        if cb:
            cb(b)

    def note_domain(self, kind, x):
        cb = getattr(self, 'on_domain', None)
        if cb:
            cb(kind, x)

    def ipow(self, a, n):
        n = int(n)
        if n == 0:
            return 1
        if n == 1:
            return a
        if self.ops[a] == 'const':
            return self.const(self.cval(a) ** n)
        if n < 0:
            return self.div(1, self.ipow(a, -n))
        if self.ops[a] == 'ipow':
            return self.ipow(self.args[a][0], self.args[a][1] * n)
        try:
            v = self.vals[a] ** n
        except OverflowError:
            v = math.inf
        return self._mk('ipow', (a, n), v)

    def uf(self, name, *xs):
        xs = tuple(xs)
        if name == 'exp' and xs[0] == 0:
            return 1
        if name == 'log' and xs[0] == 1:
            return 0
        if name in ('sqrt',) and xs[0] in (0, 1):
            return xs[0]
        if name == 'log':
            self.note_domain('pos', xs[0])
            x = xs[0]
            if self.ops[x] == 'uf' and self.args[x][0] == 'exp':
                return self.args[x][1]
        if name == 'exp':
            x = xs[0]
            if self.ops[x] == 'uf' and self.args[x][0] == 'log':
                return self.args[x][1]  # log's argument is recorded as a >0 obligation
        if name == 'sqrt':
            self.note_domain('nonneg', xs[0])
        if name == 'lgamma':
            self.note_domain('pos', xs[0])
        f = self.uf_eval.get(name)
        avals = tuple(self.vals[x] for x in xs)
        if f is not None:
            try:
                v = f(*avals)
            except (ValueError, OverflowError):
                v = math.nan
        else:
            key = (name, avals)
            if key not in self.uf_witness:
                raise EngineError(f'no witness value for uninterpreted {name}{avals}')
            v = self.uf_witness[key]
        return self._mk('uf', (name,) + xs, v)

    def uf_raw(self, name, *xs):
        """uninterpreted application without the exp/log rewrites (for axiom instances)"""
        xs = tuple(xs)
        f = self.uf_eval.get(name)
        avals = tuple(self.vals[x] for x in xs)
        try:
            v = f(*avals)
        except (ValueError, OverflowError):
            v = math.nan
        return self._mk('uf', (name,) + xs, v)

    def exp(self, a):
        return self.uf('exp', a)

    def log(self, a):
        return self.uf('log', a)

    def sqrt(self, a):
        return self.uf('sqrt', a)

    def pow(self, a, b):
        if self.ops[b] == 'const':
            c = self.cval(b)
            if c.denominator == 1 and abs(c.numerator) <= 64:
                return self.ipow(a, c.numerator)
            if c == Fraction(1, 2):
                return self.sqrt(a)
        return self.uf('pow', a, b)

    def stop(self, a):
        if self.ops[a] in ('const', 'stop'):
            return a
        return self._mk('stop', (a,), self.vals[a])

    def ite(self, c, a, b):
        if c == self.TRUE:
            return a
        if c == self.FALSE:
            return b
        if a == b:
            return a
        return self._mk('ite', (c, a, b), self.vals[a] if self.vals[c] else self.vals[b])

    # booleans
    def bconst(self, b):
        return self.TRUE if b else self.FALSE

    def _cmp(self, op, a, b, f):
        if self.ops[a] == 'const' and self.ops[b] == 'const':
            return self.bconst(f(self.cval(a), self.cval(b)))
        if a == b:
            return self.bconst(f(0, 0))
        return self._mk(op, (a, b), bool(f(self.vals[a], self.vals[b])))

    def le(self, a, b):
        return self._cmp('le', a, b, lambda x, y: x <= y)

    def lt(self, a, b):
        return self._cmp('lt', a, b, lambda x, y: x < y)

    def eq(self, a, b):
        if a > b:
            a, b = b, a
        return self._cmp('eq', a, b, lambda x, y: x == y)

    def not_(self, c):
        if c == self.TRUE:
            return self.FALSE
        if c == self.FALSE:
            return self.TRUE
        if self.ops[c] == 'not':
            return self.args[c][0]
        return self._mk('not', (c,), not self.vals[c])

    def and_(self, *cs):
        out = []
        for c in cs:
            if c == self.FALSE:
                return self.FALSE
            if c == self.TRUE:
                continue
            if c not in out:
                out.append(c)
        if not out:
            return self.TRUE
        if len(out) == 1:
            return out[0]
        out = tuple(sorted(out))
        return self._mk('and', out, all(self.vals[c] for c in out))

    def or_(self, *cs):
        out = []
        for c in cs:
            if c == self.TRUE:
                return self.TRUE
            if c == self.FALSE:
                continue
            if c not in out:
                out.append(c)
        if not out:
            return self.FALSE
        if len(out) == 1:
            return out[0]
        out = tuple(sorted(out))
        return self._mk('or', out, any(self.vals[c] for c in out))

    # ------------------------------------------------------------ traversal
    def topo(self, roots):
        seen = set()
        order = []
        stack = [(r, False) for r in roots]
        while stack:
            n, done = stack.pop()
            if done:
                order.append(n)
                continue
            if n in seen:
                continue
            seen.add(n)
            stack.append((n, True))
            for c in self.children(n):
                if c not in seen:
                    stack.append((c, False))
        return order

    def children(self, n):
        op = self.ops[n]
        a = self.args[n]
        if op in ('const', 'var', 'bconst'):
            return ()
        if op == 'ipow':
            return (a[0],)
        if op == 'uf':
            return a[1:]
        return a

    def variables(self, roots):
        return sorted(
            self.args[n][0] for n in self.topo(roots) if self.ops[n] == 'var'
        )

    def ufs(self, roots):
        out = {}
        for n in self.topo(roots):
            if self.ops[n] == 'uf':
                out.setdefault(self.args[n][0], set()).add(n)
        return out

    def size(self, roots):
        return len(self.topo(roots))

    # ----------------------------------------------------------- evaluation
    def evaluate(self, roots, env, uf_env=None, exact=False):
        """Evaluate nodes under env {varname: number}. exact=True uses Fractions
        (only for polynomial/rational DAGs)."""
        out = {}
        for n in self.topo(roots):
            op = self.ops[n]
            a = self.args[n]
            if op == 'const':
                v = a[0] if exact else float(a[0])
            elif op == 'var':
                v = env[a[0]]
                v = Fraction(v) if exact else float(v)
            elif op == 'add':
                v = out[a[0]] + out[a[1]]
            elif op == 'mul':
                v = out[a[0]] * out[a[1]]
            elif op == 'div':
                d = out[a[1]]
                if d == 0:
                    v = math.nan
                else:
                    v = out[a[0]] / d
            elif op == 'ipow':
                v = out[a[0]] ** a[1]
            elif op == 'stop':
                v = out[a[0]]
            elif op == 'ite':
                v = out[a[1]] if out[a[0]] else out[a[2]]
            elif op == 'uf':
                name = a[0]
                xs = tuple(out[x] for x in a[1:])
                f = (uf_env or {}).get(name) or self.uf_eval.get(name)
                if f is None:
                    raise EngineError(f'cannot evaluate uninterpreted {name}')
                v = f(*[float(x) for x in xs])
            elif op == 'le':
                v = out[a[0]] <= out[a[1]]
            elif op == 'lt':
                v = out[a[0]] < out[a[1]]
            elif op == 'eq':
                v = out[a[0]] == out[a[1]]
            elif op == 'and':
                v = all(out[c] for c in a)
            elif op == 'or':
                v = any(out[c] for c in a)
            elif op == 'not':
                v = not out[a[0]]
            elif op == 'bconst':
                v = a[0]
            else:
                raise EngineError(op)
            out[n] = v
        return out

    # --------------------------------------------------------- substitution
    def substitute(self, roots, mapping):
        """Rebuild roots with node->node mapping applied (mapping keys are node
        ids, typically var nodes). Returns list of new ids."""
        out = dict(mapping)
        for n in self.topo(roots):
            if n in out:
                continue
            op = self.ops[n]
            a = self.args[n]
            if op in ('const', 'var', 'bconst'):
                out[n] = n
            elif op == 'add':
                out[n] = self.add(out[a[0]], out[a[1]])
            elif op == 'mul':
                out[n] = self.mul(out[a[0]], out[a[1]])
            elif op == 'div':
                out[n] = self.div(out[a[0]], out[a[1]])
            elif op == 'ipow':
                out[n] = self.ipow(out[a[0]], a[1])
            elif op == 'stop':
                out[n] = self.stop(out[a[0]])
            elif op == 'ite':
                out[n] = self.ite(out[a[0]], out[a[1]], out[a[2]])
            elif op == 'uf':
                out[n] = self.uf(a[0], *[out[x] for x in a[1:]])
            elif op == 'le':
                out[n] = self.le(out[a[0]], out[a[1]])
            elif op == 'lt':
                out[n] = self.lt(out[a[0]], out[a[1]])
            elif op == 'eq':
                out[n] = self.eq(out[a[0]], out[a[1]])
            elif op == 'and':
                out[n] = self.and_(*[out[c] for c in a])
            elif op == 'or':
                out[n] = self.or_(*[out[c] for c in a])
            elif op == 'not':
                out[n] = self.not_(out[a[0]])
            else:
                raise EngineError(op)
        return [out[r] for r in roots]

    # ------------------------------------------------------ differentiation
    def grad(self, out, wrt, honour_stops=True, uf_deriv=None):
        """Reverse-mode symbolic derivative of node `out` w.r.t. the nodes in
        `wrt` (any node ids, normally vars).  honour_stops=True mimics autograd
        (derivative through a 'stop' node is zero)."""
        order = self.topo([out])
        adj = {out: 1}
        wrt_set = set(wrt)
        for n in reversed(order):
            g = adj.get(n)
            if g is None or g == 0:
                continue
            if n in wrt_set:
                continue  # leaf for differentiation purposes
            op = self.ops[n]
            a = self.args[n]

            def acc(c, contrib):
                if contrib == 0:
                    return
                adj[c] = self.add(adj[c], contrib) if c in adj else contrib

            if op in ('const', 'var'):
                continue
            if op == 'add':
                acc(a[0], g)
                acc(a[1], g)
            elif op == 'mul':
                acc(a[0], self.mul(g, a[1]))
                acc(a[1], self.mul(g, a[0]))
            elif op == 'div':
                acc(a[0], self.div(g, a[1]))
                acc(a[1], self.neg(self.div(self.mul(g, n), a[1])))
            elif op == 'ipow':
                k = a[1]
                acc(a[0], self.mul(g, self.mul(self.const(k), self.ipow(a[0], k - 1))))
            elif op == 'stop':
                if not honour_stops:
                    acc(a[0], g)
            elif op == 'ite':
                acc(a[1], self.ite(a[0], g, 0))
                acc(a[2], self.ite(a[0], 0, g))
            elif op == 'uf':
                name = a[0]
                xs = a[1:]
                for k, x in enumerate(xs):
                    d = self.uf_partial(name, xs, k, n, uf_deriv)
                    acc(x, self.mul(g, d))
            else:
                raise EngineError(f'grad through {op}')
        return [adj.get(w, 0) for w in wrt]

    def uf_partial(self, name, xs, k, n, uf_deriv=None):
        if name == 'exp':
            return n
        if name == 'log':
            return self.div(1, xs[0])
        if name == 'sqrt':
            return self.div(1, self.mul(self.const(2), n))
        if name == 'lgamma':
            return self.uf('digamma', xs[0])
        if name == 'log1p':
            return self.div(1, self.add(1, xs[0]))
        if name == 'expm1':
            return self.add(n, 1)
        if name == 'pow':
            if k == 0:
                return self.mul(xs[1], self.uf('pow', xs[0], self.sub(xs[1], 1)))
            return self.mul(n, self.log(xs[0]))
        if uf_deriv is not None:
            r = uf_deriv(self, name, xs, k, n)
            if r is not None:
                return r
        dname = f'd{k}~{name}'
        avals = tuple(self.vals[x] for x in xs)
        if dname not in self.uf_eval and (dname, avals) not in self.uf_witness:
            # deterministic pseudo-witness for derivative symbols
            import hashlib

            h = hashlib.sha1(repr((dname, avals)).encode()).digest()
            self.uf_witness[(dname, avals)] = (int.from_bytes(h[:4], 'big') / 2**32) - 0.5
        return self.uf(dname, *xs)

    # ------------------------------------------------------------- printing
    def to_str(self, n, depth=6):
        op = self.ops[n]
        a = self.args[n]
        if op == 'const':
            return str(a[0])
        if op in ('var',):
            return a[0]
        if op == 'bconst':
            return str(a[0])
        if depth == 0:
            return f'#{n}'
        if op == 'ipow':
            return f'({self.to_str(a[0], depth-1)})^{a[1]}'
        if op == 'uf':
            return f"{a[0]}({', '.join(self.to_str(x, depth-1) for x in a[1:])})"
        sym = {'add': '+', 'mul': '*', 'div': '/', 'le': '<=', 'lt': '<', 'eq': '=='}
        if op in sym:
            return f'({self.to_str(a[0], depth-1)} {sym[op]} {self.to_str(a[1], depth-1)})'
        return f"{op}({', '.join(self.to_str(x, depth-1) for x in a)})"
