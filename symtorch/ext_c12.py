"""Opt-in DIFFERENTIABLE eigh / inverse stubs, used by checks/C12.py only (kept out of tensor.py: that file is shared).

The generic stubs of tensor.py return fresh variables named by a hash of their symbolic input: equal inputs give
equal outputs, but the outputs do not *depend* on the input inside the DAG, so DAG.grad cannot flow through an
eigendecomposition.  When the active trace carries `uf_stubs = True` (set by C12 on its own traces; the default is
off and then the generic handlers of tensor.py run unchanged) the stubs instead return

    e[m]    = eigh{n}_e{m}(S[0,0], ..., S[n-1,n-1])
    V[i,j]  = eigh{n}_v{i}_{j}(S[0,0], ..., S[n-1,n-1])
    W[i,j]  = inv{n}_{i}_{j}(A[0,0], ..., A[n-1,n-1])

i.e. uninterpreted-function nodes of ALL entries of the symbolic input matrix, with the value real torch computed
as witness (d.uf_witness), exactly as h_matrix_exp does.  DAG.grad differentiates such a node by derivative symbols
`d{k}~name` (expr.uf_partial), which are free for the solver: a detach / no_grad / .item() / tensor rebuild on the
path  parameters -> q -> symmetrisation -> eigh -> p_t  makes "gradient with stops" and "gradient without stops"
two different expressions in those symbols and the solver finds a separating point; without such a cut the two
gradients are the same expression.  inverse(V) of the eigenvector matrix stays V^T (eigh contract), as in tensor.py.

No contract rows (V diag(e) V^T = S, ...) are recorded in this mode: C12 compares two derivatives of the same DAG
and never needs them.

Also here (same opt-in flag): the in-place division of a tensor by a torchtree Parameter object (GMRF weights).
Importing this module re-registers the handlers 'linalg_eigh', 'inverse', 'linalg_inv' and the in-place division
names with wrappers that fall through to the generic handlers unless the active trace has uf_stubs = True.
"""
from __future__ import annotations

import torch

from .tensor import HANDLERS, I64, SymTensor, _real_tensor, cur, handler

_generic_eigh = HANDLERS['linalg_eigh']
_generic_inverse = HANDLERS['inverse']


def enabled():
    return bool(getattr(cur(), 'uf_stubs', False))


def _finish(values, ids, rg=False):
    """what tensor.wrap does for every other op: results computed while autograd is switched off carry no history"""
    if not torch.is_grad_enabled():
        d = cur().dag
        ids = _real_tensor([d.stop(i) for i in ids.reshape(-1).tolist()], dtype=I64).reshape(ids.shape)
    r = SymTensor(values, ids)
    r._rg = bool(rg) and torch.is_grad_enabled()
    return r


def _uf_entries(prefix, arg_ids, values, shape):
    """one uninterpreted function per output entry, applied to all entries of the input"""
    d = cur().dag
    avals = tuple(d.vals[x] for x in arg_ids)
    flat = values.reshape(-1).tolist()
    out = []
    for pos, v in enumerate(flat):
        if len(shape) == 2:
            name = f'{prefix}{pos // shape[1]}_{pos % shape[1]}'
        else:
            name = f'{prefix}{pos}'
        d.uf_witness[(name, avals)] = v
        out.append(d.uf(name, *arg_ids))
    return _real_tensor(out, dtype=I64).reshape(shape)


def _eigh_one(Sv, Sids, rg=False):
    t = cur()
    n = Sids.shape[-1]
    ev, V = torch.linalg.eigh(Sv)
    args = Sids.reshape(-1).tolist()
    e_ids = _uf_entries(f'eigh{n}_e', args, ev, (n,))
    V_ids = _uf_entries(f'eigh{n}_v', args, V, (n, n))
    # inverse of the orthonormal eigenvector matrix = its transpose (eigh contract), keyed by the ids actually returned
    e_s, V_s = _finish(ev, e_ids, rg), _finish(V, V_ids, rg)
    t.known_inverse[tuple(V_s._ids.reshape(-1).tolist())] = V_s._ids.t().clone()
    return e_s, V_s


@handler('linalg_eigh')
def h_eigh(func, args, kwargs):
    if not enabled():
        return _generic_eigh(func, args, kwargs)
    S = args[0]
    t = cur()
    t.stubs_used.append('linalg.eigh (uninterpreted functions of the input entries)')
    n = S._ids.shape[-1]
    if S._ids.dim() == 2:
        return torch.return_types.linalg_eigh(_eigh_one(S._v, S._ids, S._rg))
    bshape = tuple(S._ids.shape[:-2])
    Sv = S._v.reshape(-1, n, n)
    Si = S._ids.reshape(-1, n, n)
    pairs = [_eigh_one(Sv[b], Si[b], S._rg) for b in range(Sv.shape[0])]
    e_all = SymTensor(torch.stack([p[0]._v for p in pairs]).reshape(bshape + (n,)),
                      torch.stack([p[0]._ids for p in pairs]).reshape(bshape + (n,)))
    V_all = SymTensor(torch.stack([p[1]._v for p in pairs]).reshape(bshape + (n, n)),
                      torch.stack([p[1]._ids for p in pairs]).reshape(bshape + (n, n)))
    e_all._rg = V_all._rg = bool(S._rg) and torch.is_grad_enabled()
    return torch.return_types.linalg_eigh((e_all, V_all))


def _inverse_one(Av, Aids, rg=False):
    t = cur()
    key = tuple(Aids.reshape(-1).tolist())
    W = torch.linalg.inv(Av)
    if key in t.known_inverse:
        return _finish(W, t.known_inverse[key].clone(), rg)
    n = Aids.shape[-1]
    return _finish(W, _uf_entries(f'inv{n}_', list(key), W, (n, n)), rg)


@handler('inverse', 'linalg_inv')
def h_inverse(func, args, kwargs):
    if not enabled():
        return _generic_inverse(func, args, kwargs)
    A = args[0]
    t = cur()
    t.stubs_used.append('inverse (uninterpreted functions of the input entries)')
    n = A._ids.shape[-1]
    if A._ids.dim() == 2:
        return _inverse_one(A._v, A._ids, A._rg)
    bshape = tuple(A._ids.shape[:-2])
    Av = A._v.reshape(-1, n, n)
    Ai = A._ids.reshape(-1, n, n)
    outs = [_inverse_one(Av[b], Ai[b], A._rg) for b in range(Av.shape[0])]
    r = SymTensor(torch.stack([x._v for x in outs]).reshape(bshape + (n, n)),
                  torch.stack([x._ids for x in outs]).reshape(bshape + (n, n)))
    r._rg = bool(A._rg) and torch.is_grad_enabled()
    return r


# ------------------------------------------------------------------ torchtree Parameter objects as operands
# GMRF._call divides a tensor in place by `self.weights`, which from_json makes a torchtree Parameter (not a tensor); real torch
# resolves that through AbstractParameter.__torch_function__ (every argument with a `.tensor` is replaced by it).  SymTensor's
# own __torch_function__ is consulted first, so the same unwrapping is done here for the in-place division (opt-in traces only).
def _unwrap_parameters(h):
    def wrapped(func, args, kwargs):
        if enabled():
            args = tuple(a.tensor if (hasattr(a, 'tensor') and not isinstance(a, torch.Tensor)) else a for a in args)
        return h(func, args, kwargs)

    return wrapped


for _n in ('__itruediv__', 'div_', 'true_divide_', 'divide_'):
    if _n in HANDLERS:
        HANDLERS[_n] = _unwrap_parameters(HANDLERS[_n])


# ------------------------------------------------------------------ dead branches of torch.where / masked_fill
# torch.where(cond, a, b) evaluates BOTH branches and back-propagates a zero gradient through the unselected one; an operation
# of that branch whose local derivative is not finite there (x / 0, log 0, sqrt 0) turns 0 * inf into NaN, and the NaN reaches
# every leaf the branch depends on - although the value is fine.  DAG.grad differentiates an `ite` by branches and cannot see
# this.  On opt-in traces
#  * every where / masked_fill is recorded element-wise in trace.where_records as (cond node, id if cond, id if not cond,
#    result id), so that the check can state "the unselected branch is well-defined" as an obligation of its own;
#  * a division by the LITERAL constant 0 (x - x collapses to the constant 0 in the hash-consed DAG: the flat segment of a
#    piecewise-linear population function) does not end the run: it yields a fresh symbol `undef!k` with the value torch
#    computes there (nan / +-inf), listed in trace.undefined.  Such a symbol is only legitimate inside an unselected branch.
import math  # noqa: E402

_generic_where = HANDLERS['where']
_generic_masked_fill = HANDLERS['masked_fill']


def prepare(t):
    """to be called once on an opt-in trace, before the code under analysis runs"""
    t.uf_stubs = True
    t.where_records = []
    t.undefined = {}
    d = t.dag
    orig_div = d.div

    def div(a, b):
        if b == 0:
            va = d.vals[a]
            val = math.nan if (va == 0 or math.isnan(va)) else math.copysign(math.inf, va)
            name = f'undef!{len(t.undefined)}'
            u = d._mk('var', (name,), val)
            d.var_ids[name] = u
            t.undefined[u] = a
            return u
        return orig_div(a, b)

    d.div = div


def _cond_nodes(c, shape):
    from .tensor import SymBool

    d = cur().dag
    if isinstance(c, SymBool):
        return c.ids.expand(shape).reshape(-1).tolist()
    return [d.TRUE if x else d.FALSE for x in c.expand(shape).reshape(-1).tolist()]


@handler('where')
def h_where(func, args, kwargs):
    r = _generic_where(func, args, kwargs)
    if enabled() and len(args) == 3 and isinstance(r, SymTensor):
        from .tensor import ids_of

        t = cur()
        shape = r._ids.shape
        ai = ids_of(args[1]).expand(shape).reshape(-1).tolist()
        bi = ids_of(args[2]).expand(shape).reshape(-1).tolist()
        t.where_records.append(('where', list(zip(_cond_nodes(args[0], shape), ai, bi, r._ids.reshape(-1).tolist()))))
    return r


@handler('masked_fill', 'masked_fill_')
def h_masked_fill(func, args, kwargs):
    from .tensor import ids_of

    before = ids_of(args[0]).clone() if enabled() and isinstance(args[0], torch.Tensor) else None
    r = _generic_masked_fill(func, args, kwargs)
    if before is not None and isinstance(r, SymTensor):
        t = cur()
        shape = r._ids.shape
        mask = args[1]
        mask = mask.v if hasattr(mask, 'v') and not isinstance(mask, torch.Tensor) else mask
        d = t.dag
        cn = [d.TRUE if x else d.FALSE for x in mask.expand(shape).reshape(-1).tolist()]
        ri = r._ids.reshape(-1).tolist()
        xi = before.expand(shape).reshape(-1).tolist()
        # where the mask holds the result is the fill value and the original element is the unselected branch
        t.where_records.append(('masked_fill', [(c, res, x, res) for c, x, res in zip(cn, xi, ri)]))
    return r
