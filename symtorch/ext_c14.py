"""Handlers needed by checks/C14.py only (kept out of tensor.py: that file is shared).

`x % 1` / remainder(x, 1) / fmod(x, 1) is what torch.distributions' integer supports evaluate
(`(value % 1 == 0) & (value >= lower)`).  Over the reals the fractional part is not a polynomial, so it
is an uninterpreted function `mod1`; "x is an integer" is then the atom mod1(x) == 0, which a harness
states in its domain.  Any other modulus is unsupported.
"""
from __future__ import annotations

import math

import torch

from .tensor import UnsupportedOp, _fname, check_vals, cur, ew, handler, val_of, wrap


def _mod1(x):
    return math.fmod(math.fmod(x, 1.0) + 1.0, 1.0)


@handler('remainder', '__mod__', 'fmod')
def h_mod(func, args, kwargs):
    x, m = args[0], args[1]
    if isinstance(m, torch.Tensor):
        if hasattr(m, '_ids') or m.numel() != 1:
            raise UnsupportedOp('remainder with a symbolic / non-scalar modulus')
        m = float(val_of(m))
    if float(m) != 1.0 or kwargs:
        raise UnsupportedOp(f'{_fname(func)} with modulus {m} {kwargs}')
    d = cur().dag
    d.uf_eval.setdefault('mod1', _mod1)
    ri = ew(lambda d_, a: d_.uf('mod1', a) if d_.ops[a] != 'const' else d_.const(_mod1(float(d_.cval(a)))), x)
    rv = torch.remainder(x._v, 1.0)
    check_vals(rv, ri, 'remainder')
    return wrap(rv, ri, 'remainder', getattr(x, '_rg', False))
