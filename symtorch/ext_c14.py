"""Handlers needed by checks/C14.py only (kept out of tensor.py: that file is shared).

`x % 1` / remainder(x, 1) / fmod(x, 1) is what torch.distributions' integer supports evaluate
(`(value % 1 == 0) & (value >= lower)`).  Over the reals the fractional part is not a polynomial, so it
is an uninterpreted function `mod1`; "x is an integer" is then the atom mod1(x) == 0, which a harness
states in its domain.  Any other modulus is unsupported.
"""
from __future__ import annotations

import math

import torch

from .tensor import UnsupportedOp, _fname, check_vals, cur, ew, handler, val_of, wrap


def _mod1(x):
    return math.fmod(math.fmod(x, 1.0) + 1.0, 1.0)


@handler('remainder', '__mod__', 'fmod')
def h_mod(func, args, kwargs):
    x, m = args[0], args[1]
    if isinstance(m, torch.Tensor):
        if hasattr(m, '_ids') or m.numel() != 1:
            raise UnsupportedOp('remainder with a symbolic / non-scalar modulus')
        m = float(val_of(m))
    if float(m) != 1.0 or kwargs:
        raise UnsupportedOp(f'{_fname(func)} with modulus {m} {kwargs}')
    d = cur().dag
    d.uf_eval.setdefault('mod1', _mod1)
    ri = ew(lambda d_, a: d_.uf('mod1', a) if d_.ops[a] != 'const' else d_.const(_mod1(float(d_.cval(a)))), x)
    rv = torch.remainder(x._v, 1.0)
    check_vals(rv, ri, 'remainder')
    return wrap(rv, ri, 'remainder', getattr(x, '_rg', False))


# torch.max(x) over all elements when the elements are EQUAL up to rounding (the importance weights at the
# exact posterior): the generic handler picks the winner on torch's float values while the recorded
# path condition is evaluated on the DAG's own float evaluation, so a tie broken by one ulp makes the
# recorded condition false at the witness.  Here the winner is chosen on the DAG values, which makes the
# recorded conditions (winner >= every other element) hold at the witness by construction.
from .tensor import HANDLERS, _real_tensor  # noqa: E402

_generic_max = HANDLERS['max']


@handler('max', 'min')
def h_max_all(func, args, kwargs):
    name = _fname(func)
    x = args[0]
    if len(args) > 1 or kwargs or not hasattr(x, '_ids'):
        return _generic_max(func, args, kwargs)
    t = cur()
    d = t.dag
    flat_i = x._ids.reshape(-1).tolist()
    vals = [d.vals[i] for i in flat_i]
    k = max(range(len(vals)), key=lambda j: vals[j]) if name == 'max' else min(range(len(vals)), key=lambda j: vals[j])
    w = flat_i[k]
    for j, o in enumerate(flat_i):
        if j != k and o != w:
            t.add_pc(d.le(o, w) if name == 'max' else d.le(w, o), name)
    rv = x._v.reshape(-1)[k].clone()
    ri = _real_tensor(w, dtype=torch.int64)
    check_vals(rv, ri, name)
    return wrap(rv, ri, name, getattr(x, '_rg', False))
