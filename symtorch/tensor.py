"""SymTensor: concolic symbolic execution of torch tensor programs.

A SymTensor is a torch.Tensor subclass that carries
  _v   : the ordinary float64 value tensor (the concrete witness), and
  _ids : an int64 tensor of the same shape holding expression-DAG node ids.
Data-movement operations are applied identically to _v and _ids (torch's own
indexing/view/aliasing semantics); arithmetic builds DAG nodes element-wise;
data-dependent decisions are taken on the witness and recorded as path
conditions.  Every arithmetic result is cross-checked against the value real
torch computed (translator validation on every operation of every run).
"""
from __future__ import annotations

import contextlib
import itertools
import math
import numbers

import torch

from .expr import DAG, EngineError

I64 = torch.int64


class UnsupportedOp(EngineError):
    pass


class Trace:
    """One symbolic execution (one witness)."""

    def __init__(self, dag=None, check_values=True):
        self.dag = dag or DAG()
        self.pcs = []  # boolean node ids that hold at the witness
        self._pcset = set()
        self.denominators = []
        self.domains = []  # (kind, node)
        self.concretized = []
        self.nops = 0
        self.nchecked = 0
        self.check_values = check_values
        self.leaves = []  # SymTensors marked requires_grad
        self.stubs_used = []
        self.fresh_counter = itertools.count()
        self.dag.on_denominator = self._on_den
        self.dag.on_domain = self._on_dom
        self.rtol = 1e-7
        self.notes = []
        self.contracts = []
        self.known_inverse = {}

    def _on_den(self, b):
        if b not in self.denominators:
            self.denominators.append(b)

    def _on_dom(self, kind, x):
        if self.dag.ops[x] == 'const':
            return
        if (kind, x) not in self.domains:
            self.domains.append((kind, x))

    def add_pc(self, c, origin=''):
        d = self.dag
        if c == d.TRUE:
            return
        if c == d.FALSE:
            raise EngineError(f'path condition is constant false ({origin})')
        if not d.vals[c]:
            raise EngineError(f'path condition does not hold at witness ({origin}): {d.to_str(c)}')
        if c not in self._pcset:
            self._pcset.add(c)
            self.pcs.append(c)

    def fresh(self, prefix, val):
        return self.dag.var(f'{prefix}!{next(self.fresh_counter)}', val)


_CUR = [None]


def cur() -> Trace:
    t = _CUR[0]
    if t is None:
        raise EngineError('no active Trace')
    return t


@contextlib.contextmanager
def tracing(trace=None, **kw):
    trace = trace or Trace(**kw)
    prev = _CUR[0]
    _CUR[0] = trace
    old_tensor = torch.tensor
    old_as_tensor = torch.as_tensor
    torch.tensor = _patched_tensor
    torch.as_tensor = _patched_as_tensor
    old_dtype = torch.get_default_dtype()
    torch.set_default_dtype(torch.float64)
    try:
        yield trace
    finally:
        torch.tensor = old_tensor
        torch.as_tensor = old_as_tensor
        torch.set_default_dtype(old_dtype)
        _CUR[0] = prev


_real_tensor = torch.tensor
_real_as_tensor = torch.as_tensor


# --------------------------------------------------------------- SymFloat
class SymFloat(float):
    """A Python float carrying an expression id (result of .item()/.tolist())."""

    def __new__(cls, val, nid):
        r = float.__new__(cls, val)
        r.nid = nid
        return r

    @staticmethod
    def _id(x):
        d = cur().dag
        if isinstance(x, SymFloat):
            return x.nid
        if isinstance(x, SymTensor):
            return None
        if isinstance(x, numbers.Real):
            return d.const(x)
        return None

    def _bin(self, other, f, swap=False):
        if isinstance(other, torch.Tensor):
            return NotImplemented
        o = SymFloat._id(other)
        if o is None:
            return NotImplemented
        d = cur().dag
        a, b = (o, self.nid) if swap else (self.nid, o)
        n = f(d, a, b)
        return mkfloat(n)

    def __add__(self, o):
        return self._bin(o, DAG.add)

    def __radd__(self, o):
        return self._bin(o, DAG.add, True)

    def __sub__(self, o):
        return self._bin(o, DAG.sub)

    def __rsub__(self, o):
        return self._bin(o, DAG.sub, True)

    def __mul__(self, o):
        return self._bin(o, DAG.mul)

    def __rmul__(self, o):
        return self._bin(o, DAG.mul, True)

    def __truediv__(self, o):
        return self._bin(o, DAG.div)

    def __rtruediv__(self, o):
        return self._bin(o, DAG.div, True)

    def __pow__(self, o):
        return self._bin(o, DAG.pow)

    def __rpow__(self, o):
        return self._bin(o, DAG.pow, True)

    def __neg__(self):
        return mkfloat(cur().dag.neg(self.nid))

    def __pos__(self):
        return self

    def __abs__(self):
        d = cur().dag
        return mkfloat(d.ite(d.le(0, self.nid), self.nid, d.neg(self.nid)))

    def _cmp(self, o, f, swap=False):
        oid = SymFloat._id(o)
        if oid is None:
            return NotImplemented
        t = cur()
        d = t.dag
        a, b = (oid, self.nid) if swap else (self.nid, oid)
        c = f(d, a, b)
        res = bool(d.vals[c])
        t.add_pc(c if res else d.not_(c), 'SymFloat compare')
        return res

    def __lt__(self, o):
        return self._cmp(o, DAG.lt)

    def __le__(self, o):
        return self._cmp(o, DAG.le)

    def __gt__(self, o):
        return self._cmp(o, DAG.lt, True)

    def __ge__(self, o):
        return self._cmp(o, DAG.le, True)

    def __eq__(self, o):
        r = self._cmp(o, DAG.eq)
        return r

    def __ne__(self, o):
        r = self._cmp(o, DAG.eq)
        return r if r is NotImplemented else not r

    def __hash__(self):
        return float.__hash__(self)

    def __bool__(self):
        return self != 0.0

    def __repr__(self):
        return f'SymFloat({float(self)!r}, #{self.nid})'


def mkfloat(n):
    d = cur().dag
    if d.ops[n] == 'const':
        return float(d.cval(n))
    return SymFloat(d.vals[n], n)


class SymMath:
    """Drop-in for the `math` module inside modules under analysis."""

    def __getattr__(self, k):
        return getattr(math, k)

    @staticmethod
    def _u(name, x, *rest):
        if isinstance(x, SymFloat) or any(isinstance(r, SymFloat) for r in rest):
            d = cur().dag
            ids = [SymFloat._id(v) for v in (x,) + rest]
            return mkfloat(d.uf(name, *ids))
        return getattr(math, name)(x, *rest)

    def exp(self, x):
        return self._u('exp', x)

    def log(self, x, *base):
        if base:
            return self._u('log', x) / self._u('log', base[0])
        return self._u('log', x)

    def sqrt(self, x):
        return self._u('sqrt', x)

    def lgamma(self, x):
        return self._u('lgamma', x)

    def pow(self, x, y):
        if isinstance(x, SymFloat) or isinstance(y, SymFloat):
            d = cur().dag
            return mkfloat(d.pow(SymFloat._id(x), SymFloat._id(y)))
        return math.pow(x, y)

    def fabs(self, x):
        return abs(x)


# --------------------------------------------------------------- SymTensor
class SymTensor(torch.Tensor):
    @staticmethod
    def __new__(cls, v, ids):
        r = torch.Tensor._make_subclass(cls, v, False)
        return r

    def __init__(self, v, ids):
        self._v = v
        self._ids = ids
        self._rg = False
        self._grad = None

    def __repr__(self):
        with torch._C.DisableTorchFunctionSubclass():
            return f'SymTensor({self._v!r}, ids={self._ids.tolist()})'

    __str__ = __repr__

    def __format__(self, spec):
        return repr(self)

    def __deepcopy__(self, memo):
        with torch._C.DisableTorchFunctionSubclass():
            r = SymTensor(self._v.clone(), self._ids.clone())
        r._rg = self._rg
        memo[id(self)] = r
        return r

    def __reduce_ex__(self, proto):
        raise EngineError('pickling a SymTensor')

    def __hash__(self):
        return id(self)

    @classmethod
    def __torch_function__(cls, func, types, args=(), kwargs=None):
        kwargs = kwargs or {}
        name = _fname(func)
        t = cur()
        t.nops += 1
        h = HANDLERS.get(name)
        if h is None:
            raise UnsupportedOp(f'{name} ({func})')
        with torch._C.DisableTorchFunctionSubclass():
            return h(func, args, kwargs)


def _fname(func):
    n = getattr(func, '__name__', None)
    if n == '__get__':
        return 'get:' + getattr(func.__self__, '__name__', '?')
    if n == '__set__':
        return 'set:' + getattr(func.__self__, '__name__', '?')
    if n is None:
        n = str(func)
    mod = getattr(func, '__module__', '') or ''
    if 'linalg' in mod or 'linalg' in getattr(func, '__qualname__', ''):
        if not n.startswith('linalg_'):
            n = 'linalg_' + n
    return n


def is_sym(x):
    return isinstance(x, SymTensor)


def sym(values, ids):
    return SymTensor(values, ids)


def const_ids(x):
    """ids of a plain tensor / number (constants)."""
    d = cur().dag
    if isinstance(x, SymFloat):
        return _real_tensor(x.nid, dtype=I64)
    if isinstance(x, numbers.Number):
        return _real_tensor(d.const(x), dtype=I64)
    if x.dtype == torch.bool:
        return x.to(I64)
    flat = x.reshape(-1).tolist()
    cache = {}
    out = []
    for v in flat:
        i = cache.get(v)
        if i is None:
            i = d.const(v)
            cache[v] = i
        out.append(i)
    return _real_tensor(out, dtype=I64).reshape(x.shape)


def ids_of(x):
    if isinstance(x, SymTensor):
        return x._ids
    if isinstance(x, SymBool):
        raise EngineError('SymBool used as a real tensor')
    return const_ids(x)


def val_of(x):
    if isinstance(x, SymTensor):
        return x._v
    if isinstance(x, SymFloat):
        return float(x)
    return x


def vals_from_ids(ids):
    d = cur().dag
    return _real_tensor([d.vals[i] for i in ids.reshape(-1).tolist()], dtype=torch.float64).reshape(ids.shape)


def from_ids(ids):
    return SymTensor(vals_from_ids(ids), ids)


def new_vars(prefix, values):
    """SymTensor of fresh variables named prefix[i,j..] with the given witness."""
    d = cur().dag
    values = _real_as_tensor(values, dtype=torch.float64)
    flat = values.reshape(-1).tolist()
    idx = list(itertools.product(*[range(s) for s in values.shape])) if values.dim() else [()]
    ids = []
    for k, v in zip(idx, flat):
        nm = prefix + ('[' + ','.join(map(str, k)) + ']' if k else '')
        ids.append(d.var(nm, v))
    return SymTensor(values.clone(), _real_tensor(ids, dtype=I64).reshape(values.shape))


def check_vals(res_v, ids, what):
    t = cur()
    if not t.check_values:
        return
    d = t.dag
    fv = res_v.reshape(-1).tolist()
    fi = ids.reshape(-1).tolist()
    if len(fv) != len(fi):
        raise EngineError(f'{what}: shape mismatch values {tuple(res_v.shape)} ids {tuple(ids.shape)}')
    for a, i in zip(fv, fi):
        b = d.vals[i]
        t.nchecked += 1
        if a == b:
            continue
        if math.isnan(a) and math.isnan(b):
            continue
        if math.isinf(a) or math.isinf(b) or math.isnan(a) or math.isnan(b):
            # saturating witnesses: torch and python may differ at inf/nan edges
            if (math.isinf(a) and math.isinf(b) and (a > 0) == (b > 0)):
                continue
            raise EngineError(f'{what}: engine value {b} != torch value {a} (node {d.to_str(i)})')
        if abs(a - b) > t.rtol * max(1.0, abs(a), abs(b)):
            raise EngineError(f'{what}: engine value {b} != torch value {a} (node {d.to_str(i, 4)})')


def wrap(v, ids, what='op', rg=False):
    if not isinstance(v, torch.Tensor):
        raise EngineError(f'{what}: non-tensor result')
    if v.shape != ids.shape:
        raise EngineError(f'{what}: shape mismatch {tuple(v.shape)} vs {tuple(ids.shape)}')
    if not torch.is_grad_enabled():
        d = cur().dag
        ids = _real_tensor([d.stop(i) for i in ids.reshape(-1).tolist()], dtype=I64).reshape(ids.shape)
    if v.dtype != torch.float64:
        v = v.to(torch.float64)
    r = SymTensor(v, ids)
    r._rg = bool(rg) and torch.is_grad_enabled()
    return r


def any_rg(args):
    for a in args:
        if isinstance(a, SymTensor) and a._rg:
            return True
        if isinstance(a, (list, tuple)) and any_rg(a):
            return True
    return False


def upgrade(x):
    """Turn a plain float tensor into a SymTensor *in place* (same Python object)."""
    if isinstance(x, SymTensor):
        return x
    if not isinstance(x, torch.Tensor) or not x.is_floating_point():
        raise EngineError('cannot write a symbolic value into a non-float tensor')
    ids = const_ids(x)
    v = x.detach() if x.requires_grad else x
    alias = torch.Tensor._make_subclass(torch.Tensor, v, False)
    x.__class__ = SymTensor
    x._v = alias
    x._ids = ids
    x._rg = False
    x._grad = None
    return x


# ----------------------------------------------------------------- SymBool
class SymBool:
    """Lazy boolean tensor: concrete bool witness + boolean node ids.  Consumed by
    where()/logical ops symbolically; anything else concretises it (path
    conditions)."""

    def __init__(self, v, ids):
        self.v = v
        self.ids = ids

    @property
    def shape(self):
        return self.v.shape

    def dim(self):
        return self.v.dim()

    def concretize(self, origin='bool'):
        t = cur()
        d = t.dag
        for b, i in zip(self.v.reshape(-1).tolist(), self.ids.reshape(-1).tolist()):
            t.add_pc(i if b else d.not_(i), origin)
        return self.v

    def __bool__(self):
        return bool(self.concretize('__bool__'))

    def _lift(self, o):
        if isinstance(o, SymBool):
            return o.ids
        if isinstance(o, bool):
            return _real_tensor(cur().dag.bconst(o), dtype=I64)
        if isinstance(o, torch.Tensor) and o.dtype == torch.bool:
            d = cur().dag
            return torch.where(o, d.TRUE, d.FALSE).to(I64)
        raise EngineError(f'bool op with {type(o)}')

    def _bin(self, o, f, vf):
        d = cur().dag
        a, b = torch.broadcast_tensors(self.ids, self._lift(o))
        ov = o.v if isinstance(o, SymBool) else o
        out = [f(d, x, y) for x, y in zip(a.reshape(-1).tolist(), b.reshape(-1).tolist())]
        return SymBool(vf(self.v, ov), _real_tensor(out, dtype=I64).reshape(a.shape))

    def __and__(self, o):
        return self._bin(o, lambda d, x, y: d.and_(x, y), lambda a, b: a & b)

    __rand__ = __and__

    def __or__(self, o):
        return self._bin(o, lambda d, x, y: d.or_(x, y), lambda a, b: a | b)

    __ror__ = __or__

    def __invert__(self):
        d = cur().dag
        out = [d.not_(x) for x in self.ids.reshape(-1).tolist()]
        return SymBool(~self.v, _real_tensor(out, dtype=I64).reshape(self.ids.shape))

    def logical_not(self):
        return ~self

    def any(self, *a, **k):
        if a or k:
            return self.concretize('any').any(*a, **k)
        d = cur().dag
        n = d.or_(*self.ids.reshape(-1).tolist())
        return SymBool(self.v.any(), _real_tensor(n, dtype=I64))

    def all(self, *a, **k):
        if a or k:
            return self.concretize('all').all(*a, **k)
        d = cur().dag
        n = d.and_(*self.ids.reshape(-1).tolist())
        return SymBool(self.v.all(), _real_tensor(n, dtype=I64))

    def item(self):
        return bool(self)

    def to_real(self):
        d = cur().dag
        out = [d.ite(c, 1, 0) for c in self.ids.reshape(-1).tolist()]
        return SymTensor(self.v.to(torch.float64), _real_tensor(out, dtype=I64).reshape(self.ids.shape))

    def to(self, *a, **k):
        dt = a[0] if a else k.get('dtype')
        if dt in (torch.float64, torch.float32) or (isinstance(dt, torch.Tensor) and dt.is_floating_point()):
            return self.to_real()
        return self.concretize('to').to(*a, **k)

    def type(self, dt):
        return self.to(dt)

    def float(self):
        return self.to_real()

    def double(self):
        return self.to_real()

    def __getitem__(self, k):
        return SymBool(self.v[k], self.ids[k])

    def unsqueeze(self, d):
        return SymBool(self.v.unsqueeze(d), self.ids.unsqueeze(d))

    def squeeze(self, *a):
        return SymBool(self.v.squeeze(*a), self.ids.squeeze(*a))

    def expand(self, *a):
        return SymBool(self.v.expand(*a), self.ids.expand(*a))

    def __getattr__(self, name):
        # anything else: concretise and delegate to the plain bool tensor
        if name.startswith('__'):
            raise AttributeError(name)
        v = self.concretize(name)
        return getattr(v, name)

    def __mul__(self, o):
        return self.to_real() * o

    __rmul__ = __mul__

    @classmethod
    def __torch_function__(cls, func, types, args=(), kwargs=None):
        kwargs = kwargs or {}
        name = _fname(func)
        if name == 'where' and len(args) == 3:
            return HANDLERS['where'](func, args, kwargs)
        a0 = args[0] if args else None
        if isinstance(a0, SymBool):
            if name in ('any', 'all'):
                return getattr(a0, name)(*args[1:], **kwargs)
            if name in ('logical_not', 'bitwise_not', '__invert__'):
                return ~a0
            if name in ('logical_and', 'bitwise_and', '__and__'):
                return a0 & args[1]
            if name in ('logical_or', 'bitwise_or', '__or__'):
                return a0 | args[1]
        elif len(args) > 1 and isinstance(args[1], SymBool):
            if name in ('logical_and', 'bitwise_and', '__and__', '__rand__'):
                return args[1] & a0
            if name in ('logical_or', 'bitwise_or', '__or__', '__ror__'):
                return args[1] | a0
            if name in ('mul', '__mul__', '__rmul__'):
                return a0 * args[1].to_real()
        return func(*deb(args, name), **deb(kwargs, name))


def deb(x, origin='arg'):
    """debool: concretise SymBool arguments of generic ops."""
    if isinstance(x, SymBool):
        return x.concretize(origin)
    if isinstance(x, (list, tuple)):
        return type(x)(deb(y, origin) for y in x)
    if isinstance(x, dict):
        return {k: deb(v, origin) for k, v in x.items()}
    return x


# ----------------------------------------------------------------- helpers
def map_args(x, f):
    if isinstance(x, SymTensor):
        return f(x)
    if isinstance(x, (list, tuple)):
        r = [map_args(y, f) for y in x]
        return type(x)(r) if not hasattr(x, '_fields') else type(x)(*r)
    if isinstance(x, dict):
        return {k: map_args(v, f) for k, v in x.items()}
    return x


def ew(f, *operands):
    """element-wise node construction with broadcasting; returns id tensor."""
    d = cur().dag
    its = [ids_of(o) for o in operands]
    if len(its) == 1:
        a = its[0]
        return _real_tensor([f(d, x) for x in a.reshape(-1).tolist()], dtype=I64).reshape(a.shape)
    bs = torch.broadcast_tensors(*its)
    flat = [b.reshape(-1).tolist() for b in bs]
    out = [f(d, *xs) for xs in zip(*flat)]
    return _real_tensor(out, dtype=I64).reshape(bs[0].shape)


def norm_dims(dim, nd):
    if dim is None:
        return list(range(nd))
    if isinstance(dim, int):
        dim = [dim]
    return sorted({(x + nd) % nd if nd else 0 for x in dim})


def reduce_ids(ids, dim, keepdim, fold):
    """fold: list of node ids -> node id."""
    nd = ids.dim()
    if nd == 0:
        out = _real_tensor(fold([int(ids)]), dtype=I64)
        return out
    dims = norm_dims(dim, nd)
    keep = [i for i in range(nd) if i not in dims]
    p = ids.permute(keep + dims)
    kshape = [ids.shape[i] for i in keep]
    n = 1
    for i in dims:
        n *= ids.shape[i]
    nrows = 1
    for k_ in kshape:
        nrows *= k_
    if n == 0:
        rows = [[] for _ in range(nrows)]
    else:
        rows = p.reshape(nrows, n).tolist()
    out = _real_tensor([fold(r) for r in rows], dtype=I64).reshape(kshape)
    if keepdim:
        for i in dims:
            out = out.unsqueeze(i)
    return out


def fold_add(d):
    def f(row):
        acc = 0
        for x in row:
            acc = d.add(acc, x)
        return acc

    return f


def fold_mul(d):
    def f(row):
        acc = 1
        for x in row:
            acc = d.mul(acc, x)
        return acc

    return f


_KWARG_ALIASES = {'axis': 'dim', 'keepdims': 'keepdim'}


def bind(args, kwargs, names, defaults=None):
    defaults = defaults or {}
    out = dict(defaults)
    for n, a in zip(names, args):
        out[n] = a
    for k, v in kwargs.items():
        # torch accepts the numpy spellings axis= / keepdims= for dim= / keepdim=
        out[_KWARG_ALIASES.get(k, k) if _KWARG_ALIASES.get(k) in names else k] = v
    return out


HANDLERS = {}


def handler(*names):
    def deco(f):
        for n in names:
            HANDLERS[n] = f
        return f

    return deco


# ------------------------------------------------------------ passthrough
def h_pass(func, args, kwargs):
    return func(*map_args(args, val_of), **map_args(kwargs, val_of))


for _n in ['get:shape', 'get:dtype', 'get:device', 'get:ndim', 'get:is_leaf', 'get:layout',
           'get:is_cuda', 'get:is_sparse', 'get:is_quantized', 'get:is_meta', 'get:names',
           'get:is_mkldnn', 'get:is_xla', 'get:is_mps', 'get:is_nested', 'get:is_cpu',
           'get:is_xpu', 'get:is_ipu', 'get:is_ort', 'get:is_vulkan', 'get:is_maia', 'get:is_mtia',
           'get:itemsize', 'get:nbytes', 'get:is_sparse_csr', 'get:output_nr', 'get:_version',
           'dim', 'size', 'numel', 'nelement', 'ndimension', 'is_floating_point', 'is_complex',
           'data_ptr', 'stride', 'storage_offset', 'is_contiguous', 'get_device', 'element_size',
           '__len__', 'is_same_size', 'is_signed', 'is_inference', 'has_names', 'is_conj',
           'is_neg', 'untyped_storage', 'result_type', 'is_tensor', 'is_nonzero_', 'can_cast',
           'is_pinned', '_is_view', 'is_set_to', 'is_shared', 'is_coalesced', 'sym_size',
           'is_distributed', '_is_zerotensor', 'get:_base', 'get:grad_fn', 'promote_types']:
    HANDLERS[_n] = h_pass


@handler('get:requires_grad')
def h_get_rg(func, args, kwargs):
    return bool(args[0]._rg)


@handler('set:requires_grad')
def h_set_rg(func, args, kwargs):
    mark_leaf(args[0], bool(args[1]))
    return None


@handler('requires_grad_')
def h_rg_(func, args, kwargs):
    flag = args[1] if len(args) > 1 else kwargs.get('requires_grad', True)
    mark_leaf(args[0], bool(flag))
    return args[0]


def mark_leaf(x, flag=True):
    t = cur()
    x._rg = flag
    if flag:
        # leaf elements must be unique non-constant nodes
        d = t.dag
        ids = x._ids.reshape(-1).tolist()
        seen = set()
        new = []
        changed = False
        for i in ids:
            if d.ops[i] == 'const' or i in seen:
                j = t.fresh('leaf', d.vals[i])
                changed = True
                t.notes.append(f'leaf element {d.to_str(i, 2)} replaced by fresh {d.to_str(j)}')
                new.append(j)
            else:
                new.append(i)
            seen.add(new[-1])
        if changed:
            x._ids.copy_(_real_tensor(new, dtype=I64).reshape(x._ids.shape))
        if not any(x is l for l in t.leaves):
            t.leaves.append(x)
    else:
        t.leaves = [l for l in t.leaves if l is not x]


@handler('get:grad')
def h_get_grad(func, args, kwargs):
    return args[0]._grad


@handler('set:grad')
def h_set_grad(func, args, kwargs):
    args[0]._grad = args[1]
    return None


@handler('get:data')
def h_get_data(func, args, kwargs):
    x = args[0]
    r = SymTensor(x._v, x._ids)  # shares storage, no grad tracking
    return r


@handler('get:T', 'get:mT', 'get:mH', 'get:H')
def h_get_T(func, args, kwargs):
    x = args[0]
    nm = getattr(func.__self__, '__name__')
    if nm in ('T', 'H'):
        perm = list(range(x._v.dim()))[::-1]
        return _keep_rg(SymTensor(x._v.permute(perm), x._ids.permute(perm)), x)
    return _keep_rg(SymTensor(x._v.transpose(-1, -2), x._ids.transpose(-1, -2)), x)


def _keep_rg(r, *src):
    r._rg = any_rg(src) and torch.is_grad_enabled()
    return r


# --------------------------------------------------------------- movement
MOVEMENT = ['__getitem__', 'gather', 'cat', 'concat', 'concatenate', 'stack', 'hstack', 'vstack',
            'expand', 'expand_as', 'reshape', 'reshape_as', 'view', 'view_as', 'unsqueeze',
            'squeeze', 't', 'transpose', 'permute', 'clone', 'split', 'split_with_sizes', 'chunk',
            'repeat', 'flatten', 'unflatten', 'diag', 'diag_embed', 'diagonal', 'index_select',
            'broadcast_to', 'broadcast_tensors', 'tensor_split', 'contiguous', 'flip', 'roll',
            'tril', 'triu', 'narrow', 'select', 'unbind', 'movedim', 'moveaxis', 'swapaxes',
            'swapdims', 'take_along_dim', 'repeat_interleave', 'take', 'atleast_1d', 'atleast_2d',
            'ravel', 'tile', 'unfold', 'as_strided', 'alias', 'squeeze_', 'unsqueeze_', 't_',
            'transpose_', 'column_stack', 'dstack', 'masked_select', 'index', 'adjoint',
            'dsplit', 'hsplit', 'vsplit', 'meshgrid', 'block_diag', 'rot90', 'positive',
            'view_as_real', 'detach_', 'resolve_conj', 'resolve_neg', 'conj', '_to_copy']


def h_move(func, args, kwargs):
    name = _fname(func)
    args = deb(args, name)
    kwargs = deb(kwargs, name)
    rv = func(*map_args(args, val_of), **map_args(kwargs, val_of))
    ri = func(*_ids_args(args), **_ids_kwargs(kwargs))
    rg = any_rg(args)
    return _wrap_struct(rv, ri, name, rg)


def _float_to_ids(x):
    if isinstance(x, SymTensor):
        return x._ids
    if isinstance(x, torch.Tensor) and x.is_floating_point():
        return const_ids(x)
    if isinstance(x, (list, tuple)):
        r = [_float_to_ids(y) for y in x]
        return type(x)(r) if not hasattr(x, '_fields') else type(x)(*r)
    return x


def _ids_args(args):
    return tuple(_float_to_ids(a) for a in args)


def _ids_kwargs(kwargs):
    return {k: _float_to_ids(v) for k, v in kwargs.items() if k not in ('dtype',)}


def _wrap_struct(rv, ri, name, rg=False):
    if isinstance(rv, torch.Tensor):
        if rv.is_floating_point():
            r = wrap(rv, ri, name, rg)
            return r
        return rv
    if isinstance(rv, (list, tuple)):
        out = [_wrap_struct(a, b, name, rg) for a, b in zip(rv, ri)]
        return type(rv)(out) if not hasattr(rv, '_fields') else type(rv)(*out)
    return rv


for _n in MOVEMENT:
    HANDLERS[_n] = h_move


@handler('detach')
def h_detach(func, args, kwargs):
    x = args[0]
    d = cur().dag
    ids = ew(lambda d, a: d.stop(a), x)
    r = SymTensor(x._v, ids)  # shares value storage like torch's detach
    r._rg = False
    return r


@handler('to', 'type', 'float', 'double', 'cpu', 'cuda', 'type_as', 'half', 'bfloat16')
def h_to(func, args, kwargs):
    x = args[0]
    name = _fname(func)
    rv = func(*map_args(args, val_of), **map_args(kwargs, val_of))
    if not rv.is_floating_point():
        # float -> int/bool conversion of symbolic data
        d = cur().dag
        if all(d.ops[i] == 'const' for i in x._ids.reshape(-1).tolist()):
            return rv
        cur().concretized.append(f'{name} to {rv.dtype}')
        return rv
    r = SymTensor(rv.to(torch.float64), x._ids if rv.data_ptr() == x._v.data_ptr() else x._ids.clone())
    r._rg = x._rg
    r._orig_dtype = rv.dtype
    return r


@handler('__setitem__')
def h_setitem(func, args, kwargs):
    x, key, value = args
    key = deb(key, 'setitem key')
    if isinstance(value, SymBool):
        value = value.concretize('setitem value')
    if not isinstance(x, SymTensor):
        if not x.is_floating_point():
            # writing symbolic into int tensor
            raise UnsupportedOp('setitem of symbolic value into non-float tensor')
        upgrade(x)
    vi = ids_of(value) if not isinstance(value, (list, tuple)) else ids_of(_real_tensor(value))
    kv = map_args(key, val_of)
    x._ids[kv] = vi
    x._v[kv] = val_of(value) if not isinstance(value, SymTensor) else value._v
    if isinstance(value, SymTensor) and value._rg and torch.is_grad_enabled():
        x._rg = True
    return None


@handler('copy_')
def h_copy_(func, args, kwargs):
    x, src = args[0], args[1]
    upgrade(x)
    x._ids.copy_(ids_of(src))
    x._v.copy_(val_of(src))
    return x


@handler('fill_', 'zero_')
def h_fill_(func, args, kwargs):
    x = args[0]
    name = _fname(func)
    value = 0.0 if name == 'zero_' else args[1]
    x._ids.copy_(ids_of(value))
    x._v.fill_(val_of(value)) if not isinstance(value, torch.Tensor) else x._v.copy_(val_of(value))
    return x


@handler('masked_fill', 'masked_fill_')
def h_masked_fill(func, args, kwargs):
    x, mask, value = args
    mask = deb(mask, 'masked_fill')
    name = _fname(func)
    vi = ids_of(value)
    if name.endswith('_'):
        upgrade(x)
        x._ids[mask.expand_as(x._ids)] = vi
        x._v.masked_fill_(mask, val_of(value))
        return x
    xi = ids_of(x).clone()
    xi, m = torch.broadcast_tensors(xi, mask)
    xi = xi.clone()
    xi[m] = vi
    return wrap(torch.masked_fill(val_of(x), mask, val_of(value)), xi, name, any_rg(args))


@handler('scatter', 'scatter_', 'index_put_', 'index_put', 'index_copy', 'index_copy_',
         'index_fill', 'index_fill_', 'masked_scatter', 'masked_scatter_', 'scatter_reduce')
def h_scatter(func, args, kwargs):
    name = _fname(func)
    args = deb(args, name)
    x = args[0]
    if name.endswith('_'):
        upgrade(x)
    # python-number payloads become constant ids
    def conv(a):
        if isinstance(a, SymTensor):
            return a._ids
        if isinstance(a, torch.Tensor) and a.is_floating_point():
            return const_ids(a)
        if isinstance(a, float) or isinstance(a, SymFloat):
            return int(const_ids(a))
        if isinstance(a, (list, tuple)):
            return type(a)(conv(y) for y in a)
        return a

    ia = [conv(a) for a in args]
    ik = {k: conv(v) for k, v in kwargs.items()}
    if name.startswith('scatter') and len(args) >= 4 and isinstance(args[3], int) and not isinstance(args[3], bool):
        # scatter(dim, index, value:int) : integer payload is a value
        ia[3] = int(const_ids(args[3]))
    rv = func(*map_args(args, val_of), **map_args(kwargs, val_of))
    ri = getattr(torch.Tensor, name)(*ia, **ik) if hasattr(torch.Tensor, name) else func(*ia, **ik)
    if name.endswith('_'):
        return x
    return wrap(rv, ri, name, any_rg(args))


@handler('scatter_add', 'scatter_add_', 'index_add', 'index_add_')
def h_scatter_add(func, args, kwargs):
    name = _fname(func)
    x = args[0]
    b = bind(args[1:], kwargs, ['dim', 'index', 'source'])
    src = b.get('source', b.get('src'))
    dim, index = b['dim'], b['index']
    if not name.startswith('scatter_add'):
        raise UnsupportedOp(name)
    d = cur().dag
    xi = ids_of(x).clone()
    si = ids_of(src)
    xl = xi
    for pos in itertools.product(*[range(s) for s in index.shape]):
        tgt = list(pos)
        tgt[dim] = int(index[pos])
        tgt = tuple(tgt)
        xl[tgt] = d.add(int(xl[tgt]), int(si[pos]))
    if name.endswith('_'):
        upgrade(x)
        x._v.scatter_add_(dim, index, val_of(src) if isinstance(src, torch.Tensor) else src)
        x._ids.copy_(xl)
        check_vals(x._v, x._ids, name)
        return x
    rv = torch.scatter_add(val_of(x), dim, index, val_of(src))
    check_vals(rv, xl, name)
    return wrap(rv, xl, name, any_rg(args))


@handler('where')
def h_where(func, args, kwargs):
    if len(args) == 1:
        c = deb(args[0], 'where(cond)')
        return torch.where(c)
    c, a, b = args
    if isinstance(c, SymBool):
        d = cur().dag
        ci, ai, bi = torch.broadcast_tensors(c.ids, ids_of(a), ids_of(b))
        out = [d.ite(x, y, z) for x, y, z in zip(ci.reshape(-1).tolist(), ai.reshape(-1).tolist(),
                                                  bi.reshape(-1).tolist())]
        ri = _real_tensor(out, dtype=I64).reshape(ci.shape)
        rv = torch.where(c.v, _fl(val_of(a)), _fl(val_of(b)))
        check_vals(rv, ri, 'where')
        return wrap(rv, ri, 'where', any_rg(args))
    rv = torch.where(c, _fl(val_of(a)), _fl(val_of(b)))
    ri = torch.where(c, ids_of(a), ids_of(b))
    return wrap(rv, ri, 'where', any_rg(args))


def _fl(x):
    if isinstance(x, torch.Tensor):
        return x if x.is_floating_point() else x.to(torch.float64)
    return _real_tensor(float(x), dtype=torch.float64)


@handler('zeros_like', 'ones_like', 'full_like', 'empty_like', 'new_zeros', 'new_ones',
         'new_full', 'new_empty', 'new_tensor', 'rand_like', 'randn_like')
def h_like(func, args, kwargs):
    name = _fname(func)
    if name.startswith('rand'):
        raise UnsupportedOp(name + ' (randomness must be stubbed by the harness)')
    rv = func(*map_args(args, val_of), **map_args(kwargs, val_of))
    if name.startswith('empty') or name == 'new_empty':
        rv = torch.zeros_like(rv)
    if rv.is_floating_point():
        return wrap(rv, const_ids(rv), name)
    return rv


@handler('item')
def h_item(func, args, kwargs):
    x = args[0]
    return mkfloat(int(x._ids.reshape(-1)[0])) if x._ids.numel() == 1 else x._v.item()


@handler('tolist')
def h_tolist(func, args, kwargs):
    x = args[0]

    def rec(ids):
        if ids.dim() == 0:
            return mkfloat(int(ids))
        return [rec(i) for i in ids]

    return rec(x._ids)


@handler('__float__')
def h_float(func, args, kwargs):
    x = args[0]
    d = cur().dag
    i = int(x._ids.reshape(-1)[0])
    if d.ops[i] != 'const':
        cur().concretized.append('float(tensor)')
    return float(x._v)


@handler('__int__', '__index__')
def h_int(func, args, kwargs):
    x = args[0]
    d = cur().dag
    i = int(x._ids.reshape(-1)[0])
    if d.ops[i] != 'const':
        cur().concretized.append('int(tensor)')
    return int(x._v)


@handler('__bool__')
def h_bool(func, args, kwargs):
    x = args[0]
    t = cur()
    d = t.dag
    i = int(x._ids.reshape(-1)[0])
    c = d.not_(d.eq(i, 0))
    res = bool(x._v != 0)
    t.add_pc(c if res else d.not_(c), '__bool__')
    return res


@handler('numpy', '__array__')
def h_numpy(func, args, kwargs):
    x = args[0]
    d = cur().dag
    if any(d.ops[i] != 'const' for i in x._ids.reshape(-1).tolist()):
        cur().concretized.append('numpy()')
    return x._v.numpy()


@handler('__iter__')
def h_iter(func, args, kwargs):
    x = args[0]
    return iter([_keep_rg(SymTensor(x._v[i], x._ids[i]), x) for i in range(x._v.shape[0])])


@handler('__contains__')
def h_contains(func, args, kwargs):
    raise UnsupportedOp('__contains__')


# ------------------------------------------------------------- arithmetic
def _arith(name, nodef, nargs=2):
    def h(func, args, kwargs):
        fn = _fname(func)
        args2 = tuple(a.to_real() if isinstance(a, SymBool) else a for a in args)
        ops = args2[:nargs]
        extra = args2[nargs:]
        if extra or any(k not in ('out',) for k in kwargs):
            if name in ('add', 'sub') and ('alpha' in kwargs or extra):
                alpha = kwargs.get('alpha', extra[0] if extra else 1)
                # through the engine's own mul: a plain `ops[1] * alpha` here runs with torch-function dispatch
                # disabled and would turn a symbolic operand into the constant of its witness value
                if isinstance(ops[1], SymTensor) or isinstance(alpha, (SymTensor, SymFloat)):
                    ops = (ops[0], HANDLERS['mul'](torch.mul, (ops[1], alpha), {}))
                else:
                    ops = (ops[0], ops[1] * alpha)
            elif name == 'div' and kwargs.get('rounding_mode') is None:
                pass
            else:
                raise UnsupportedOp(f'{fn} with extra args {extra} {kwargs}')
        inplace = fn.endswith('_') and not fn.endswith('__') or fn.startswith('__i')
        ri = ew(nodef, *ops)
        if inplace:
            x = ops[0]
            upgrade(x)
            vf = getattr(torch.Tensor, fn)
            vf(x._v, *[val_of(o) for o in ops[1:]])
            x._ids.copy_(ri)
            check_vals(x._v, x._ids, fn)
            if any_rg(ops[1:]) and torch.is_grad_enabled():
                x._rg = True
            if not torch.is_grad_enabled():
                d = cur().dag
                x._ids.copy_(ew(lambda d, a: d.stop(a), x))
            return x
        rv = func(*[val_of(o) for o in ops])
        if not isinstance(rv, torch.Tensor):
            rv = _real_tensor(rv)
        rv = _fl(rv)
        check_vals(rv, ri, fn)
        return wrap(rv, ri, fn, any_rg(ops))

    return h


def _reg_arith(base, nodef, nargs=2, r=None, names=None):
    h = _arith(base, nodef, nargs)
    for n in names or [base, base + '_', f'__{base}__', f'__i{base}__']:
        HANDLERS[n] = h
    if r is not None:
        hr = _arith('r' + base, r, nargs)
        HANDLERS[f'__r{base}__'] = hr


_reg_arith('add', lambda d, a, b: d.add(a, b), r=lambda d, a, b: d.add(b, a))
_reg_arith('sub', lambda d, a, b: d.sub(a, b), r=lambda d, a, b: d.sub(b, a))
HANDLERS['subtract'] = HANDLERS['sub']
HANDLERS['rsub'] = _arith('rsub', lambda d, a, b: d.sub(b, a))
_reg_arith('mul', lambda d, a, b: d.mul(a, b), r=lambda d, a, b: d.mul(b, a))
HANDLERS['multiply'] = HANDLERS['mul']
_reg_arith('div', lambda d, a, b: d.div(a, b), names=['div', 'div_', 'true_divide', 'true_divide_',
                                                     '__truediv__', '__itruediv__', 'divide'])
HANDLERS['__rtruediv__'] = _arith('rdiv', lambda d, a, b: d.div(b, a))
HANDLERS['__rdiv__'] = HANDLERS['__rtruediv__']
_reg_arith('pow', lambda d, a, b: d.pow(a, b), names=['pow', 'pow_', '__pow__', '__ipow__', 'float_power'])
HANDLERS['__rpow__'] = _arith('rpow', lambda d, a, b: d.pow(b, a))


def _unary(name, nodef, names=None):
    h = _arith(name, nodef, 1)
    for n in names or [name, name + '_']:
        HANDLERS[n] = h


_unary('neg', lambda d, a: d.neg(a), ['neg', 'neg_', '__neg__', 'negative'])
_unary('exp', lambda d, a: d.exp(a))
_unary('log', lambda d, a: d.log(a))
_unary('sqrt', lambda d, a: d.sqrt(a))
_unary('rsqrt', lambda d, a: d.div(1, d.sqrt(a)))
_unary('lgamma', lambda d, a: d.uf('lgamma', a))
_unary('digamma', lambda d, a: d.uf('digamma', a))
_unary('log1p', lambda d, a: d.log(d.add(1, a)))
_unary('expm1', lambda d, a: d.sub(d.exp(a), 1))
_unary('reciprocal', lambda d, a: d.div(1, a))
_unary('square', lambda d, a: d.mul(a, a))
_unary('abs', lambda d, a: d.ite(d.le(0, a), a, d.neg(a)), ['abs', 'abs_', '__abs__', 'absolute'])
_unary('sigmoid', lambda d, a: d.div(1, d.add(1, d.exp(d.neg(a)))))
_unary('relu', lambda d, a: d.ite(d.le(0, a), a, 0))
_unary('tanh', lambda d, a: d.div(d.sub(d.exp(d.mul(d.const(2), a)), 1), d.add(d.exp(d.mul(d.const(2), a)), 1)))
_unary('log2', lambda d, a: d.div(d.log(a), d.const(math.log(2))))
_unary('logit', lambda d, a: d.sub(d.log(a), d.log(d.sub(1, a))))


@handler('softplus')
def h_softplus(func, args, kwargs):
    b = bind(args, kwargs, ['input', 'beta', 'threshold'], {'beta': 1.0, 'threshold': 20.0})
    x = b['input']
    if b['beta'] != 1:
        raise UnsupportedOp('softplus beta')
    # over the reals softplus(x) = log(1+exp(x)) (torch switches to identity above
    # the threshold for numerical reasons only)
    ri = ew(lambda d, a: d.log(d.add(1, d.exp(a))), x)
    rv = func(*map_args(args, val_of), **map_args(kwargs, val_of))
    check_vals(rv, ri, 'softplus')
    return wrap(rv, ri, 'softplus', any_rg(args))


@handler('logsigmoid', 'log_sigmoid')
def h_logsigmoid(func, args, kwargs):
    x = args[0]
    ri = ew(lambda d, a: d.neg(d.log(d.add(1, d.exp(d.neg(a))))), x)
    rv = torch.nn.functional.logsigmoid(x._v)
    check_vals(rv, ri, 'logsigmoid')
    return wrap(rv, ri, 'logsigmoid', x._rg)


@handler('pad')
def h_pad(func, args, kwargs):
    b = bind(args, kwargs, ['input', 'pad', 'mode', 'value'], {'mode': 'constant', 'value': None})
    x = b['input']
    if b['mode'] != 'constant':
        raise UnsupportedOp('pad mode')
    val = 0.0 if b['value'] is None else b['value']
    rv = torch.nn.functional.pad(x._v, b['pad'], value=float(val))
    ri = torch.nn.functional.pad(x._ids, b['pad'], value=int(const_ids(val)))
    return wrap(rv, ri, 'pad', x._rg)


@handler('xlogy')
def h_xlogy(func, args, kwargs):
    x, y = args[:2]
    ri = ew(lambda d, a, b: 0 if a == 0 else d.mul(a, d.log(b)), x, y)
    rv = torch.xlogy(_fl(val_of(x)), _fl(val_of(y)))
    check_vals(rv, ri, 'xlogy')
    return wrap(rv, ri, 'xlogy', any_rg(args))


@handler('sum', 'nansum')
def h_sum(func, args, kwargs):
    b = bind(args, kwargs, ['input', 'dim', 'keepdim'], {'dim': None, 'keepdim': False})
    x = b['input']
    if isinstance(x, SymBool):
        return x.concretize('sum').sum(*args[1:], **kwargs)
    d = cur().dag
    ri = reduce_ids(x._ids, b['dim'], b['keepdim'], fold_add(d))
    rv = func(*map_args(args, val_of), **{k: v for k, v in kwargs.items() if k != 'dtype'})
    check_vals(rv, ri, 'sum')
    return wrap(rv, ri, 'sum', x._rg)


@handler('mean')
def h_mean(func, args, kwargs):
    b = bind(args, kwargs, ['input', 'dim', 'keepdim'], {'dim': None, 'keepdim': False})
    x = b['input']
    d = cur().dag
    dims = norm_dims(b['dim'], x._ids.dim())
    n = 1
    for i in dims:
        n *= x._ids.shape[i]
    fa = fold_add(d)
    ri = reduce_ids(x._ids, b['dim'], b['keepdim'], lambda r: d.div(fa(r), d.const(n)))
    rv = func(*map_args(args, val_of), **kwargs)
    check_vals(rv, ri, 'mean')
    return wrap(rv, ri, 'mean', x._rg)


@handler('prod')
def h_prod(func, args, kwargs):
    b = bind(args, kwargs, ['input', 'dim', 'keepdim'], {'dim': None, 'keepdim': False})
    x = b['input']
    d = cur().dag
    ri = reduce_ids(x._ids, b['dim'], b['keepdim'], fold_mul(d))
    rv = func(*map_args(args, val_of), **kwargs)
    check_vals(rv, ri, 'prod')
    return wrap(rv, ri, 'prod', x._rg)


def _cum(name, step):
    def h(func, args, kwargs):
        b = bind(args, kwargs, ['input', 'dim'])
        x = b['input']
        dim = b['dim']
        d = cur().dag
        ids = x._ids
        if ids.dim() == 0:
            ri = ids.clone()
        else:
            p = ids.movedim(dim, -1)
            rows = p.reshape(-1, p.shape[-1]).tolist()
            out = []
            for r in rows:
                acc = None
                o = []
                for e in r:
                    acc = e if acc is None else step(d, acc, e)
                    o.append(acc)
                out.append(o)
            ri = _real_tensor(out, dtype=I64).reshape(p.shape).movedim(-1, dim)
        fn = _fname(func)
        if fn.endswith('_'):
            getattr(x._v, fn)(dim)
            x._ids.copy_(ri)
            check_vals(x._v, x._ids, fn)
            return x
        rv = func(*map_args(args, val_of), **kwargs)
        check_vals(rv, ri, name)
        return wrap(rv, ri, name, x._rg)

    return h


HANDLERS['cumsum'] = HANDLERS['cumsum_'] = _cum('cumsum', lambda d, a, b: d.add(a, b))
HANDLERS['cumprod'] = HANDLERS['cumprod_'] = _cum('cumprod', lambda d, a, b: d.mul(a, b))


@handler('logsumexp')
def h_logsumexp(func, args, kwargs):
    b = bind(args, kwargs, ['input', 'dim', 'keepdim'], {'keepdim': False})
    x = b['input']
    d = cur().dag
    fa = fold_add(d)
    ri = reduce_ids(x._ids, b['dim'], b['keepdim'], lambda r: d.log(fa([d.exp(e) for e in r])))
    rv = func(*map_args(args, val_of), **kwargs)
    check_vals(rv, ri, 'logsumexp')
    return wrap(rv, ri, 'logsumexp', x._rg)


@handler('softmax', 'log_softmax')
def h_softmax(func, args, kwargs):
    name = _fname(func)
    b = bind(args, kwargs, ['input', 'dim'])
    x = b['input']
    dim = b['dim']
    d = cur().dag
    p = x._ids.movedim(dim, -1)
    rows = p.reshape(-1, p.shape[-1]).tolist()
    fa = fold_add(d)
    out = []
    for r in rows:
        es = [d.exp(e) for e in r]
        s = fa(es)
        if name == 'softmax':
            out.append([d.div(e, s) for e in es])
        else:
            ls = d.log(s)
            out.append([d.sub(e, ls) for e in r])
    ri = _real_tensor(out, dtype=I64).reshape(p.shape).movedim(-1, dim)
    rv = func(*map_args(args, val_of), **{k: v for k, v in kwargs.items() if k not in ('_stacklevel', 'dtype')})
    check_vals(rv, ri, name)
    return wrap(rv, ri, name, x._rg)


def matmul_ids(a, b):
    d = cur().dag
    a1 = a.dim() == 1
    b1 = b.dim() == 1
    if a1:
        a = a.unsqueeze(0)
    if b1:
        b = b.unsqueeze(-1)
    bshape = torch.broadcast_shapes(a.shape[:-2], b.shape[:-2])
    a = a.expand(bshape + a.shape[-2:])
    b = b.expand(bshape + b.shape[-2:])
    n, k = a.shape[-2:]
    k2, m = b.shape[-2:]
    if k != k2:
        raise EngineError('matmul shape')
    A = a.reshape(-1, n, k).tolist()
    B = b.reshape(-1, k, m).tolist()
    out = []
    for Ab, Bb in zip(A, B):
        Bt = list(zip(*Bb)) if Bb and Bb[0] else [[] for _ in range(m)]
        ob = []
        for row in Ab:
            orow = []
            for col in Bt:
                acc = 0
                for x, y in zip(row, col):
                    acc = d.add(acc, d.mul(x, y))
                orow.append(acc)
            ob.append(orow)
        out.append(ob)
    r = _real_tensor(out, dtype=I64).reshape(tuple(bshape) + (n, m))
    if a1:
        r = r.squeeze(-2)
    if b1:
        r = r.squeeze(-1)
    return r


@handler('matmul', '__matmul__', 'mm', 'bmm', 'mv', 'dot', 'inner')
def h_matmul(func, args, kwargs):
    a, b = args[:2]
    ri = matmul_ids(ids_of(a), ids_of(b))
    rv = torch.matmul(_fl(val_of(a)), _fl(val_of(b)))
    check_vals(rv, ri, 'matmul')
    return wrap(rv, ri, 'matmul', any_rg(args))


@handler('__rmatmul__')
def h_rmatmul(func, args, kwargs):
    b, a = args[:2]
    ri = matmul_ids(ids_of(a), ids_of(b))
    rv = torch.matmul(_fl(val_of(a)), _fl(val_of(b)))
    check_vals(rv, ri, 'matmul')
    return wrap(rv, ri, 'matmul', any_rg(args))


@handler('ger', 'outer')
def h_outer(func, args, kwargs):
    a, b = args[:2]
    ri = matmul_ids(ids_of(a).unsqueeze(-1), ids_of(b).unsqueeze(0))
    rv = torch.outer(_fl(val_of(a)), _fl(val_of(b)))
    check_vals(rv, ri, 'outer')
    return wrap(rv, ri, 'outer', any_rg(args))


@handler('linear')
def h_linear(func, args, kwargs):
    b = bind(args, kwargs, ['input', 'weight', 'bias'], {'bias': None})
    x, w, bias = b['input'], b['weight'], b['bias']
    ri = matmul_ids(ids_of(x), ids_of(w).transpose(-1, -2))
    rv = torch.nn.functional.linear(_fl(val_of(x)), _fl(val_of(w)), None if bias is None else _fl(val_of(bias)))
    if bias is not None:
        ri = ew(lambda d, p, q: d.add(p, q), from_ids(ri), bias)
    check_vals(rv, ri, 'linear')
    return wrap(rv, ri, 'linear', any_rg([x, w, bias]))


@handler('trace')
def h_trace(func, args, kwargs):
    x = args[0]
    d = cur().dag
    ri = _real_tensor(fold_add(d)(x._ids.diagonal().tolist()), dtype=I64)
    rv = torch.trace(x._v)
    return wrap(rv, ri, 'trace', x._rg)


@handler('clamp', 'clamp_', 'clip')
def h_clamp(func, args, kwargs):
    b = bind(args, kwargs, ['input', 'min', 'max'], {'min': None, 'max': None})
    x = b['input']
    ids = x._ids
    d = cur().dag
    cur_t = x
    ri = ids
    if getattr(cur(), 'ignore_numeric_guards', False):
        def guard(v, lo):
            return isinstance(v, (int, float)) and not isinstance(v, SymFloat) and (
                (lo and 0 <= v < 1e-30) or (not lo and 0 <= 1.0 - v < 1e-6))
        if (b['min'] is None or guard(b['min'], True)) and (b['max'] is None or guard(b['max'], False)):
            cur().notes.append('clamp to finfo.tiny / 1-eps treated as identity (numerical guard)')
            if _fname(func).endswith('_'):
                return x
            return wrap(x._v.clone(), x._ids.clone(), 'clamp', x._rg)
    if b['min'] is not None:
        ri = ew(lambda d, a, m: d.ite(d.lt(a, m), m, a), from_ids(ri), b['min'])
    if b['max'] is not None:
        ri = ew(lambda d, a, m: d.ite(d.lt(m, a), m, a), from_ids(ri), b['max'])
    rv = torch.clamp(x._v, min=val_of(b['min']), max=val_of(b['max']))
    check_vals(rv, ri, 'clamp')
    if _fname(func).endswith('_'):
        x._v.copy_(rv)
        x._ids.copy_(ri)
        return x
    return wrap(rv, ri, 'clamp', x._rg)


@handler('maximum', 'minimum', 'fmax', 'fmin')
def h_maximum(func, args, kwargs):
    name = _fname(func)
    a, b = args[:2]
    if name in ('maximum', 'fmax'):
        ri = ew(lambda d, p, q: d.ite(d.le(p, q), q, p), a, b)
        rv = torch.maximum(_fl(val_of(a)), _fl(val_of(b)))
    else:
        ri = ew(lambda d, p, q: d.ite(d.le(p, q), p, q), a, b)
        rv = torch.minimum(_fl(val_of(a)), _fl(val_of(b)))
    check_vals(rv, ri, name)
    return wrap(rv, ri, name, any_rg(args))


# ------------------------------------------------------------ comparisons
def _cmp(name, nodef, vf):
    def h(func, args, kwargs):
        a, b = args[:2]
        if isinstance(a, SymBool) or isinstance(b, SymBool):
            raise UnsupportedOp(f'{name} on SymBool')
        ri = ew(nodef, a, b)
        rv = vf(_tv(a), _tv(b))
        return SymBool(rv, ri)

    return h


def _tv(x):
    v = val_of(x)
    if isinstance(v, torch.Tensor):
        return v
    return _real_tensor(v)


HANDLERS['lt'] = HANDLERS['__lt__'] = HANDLERS['less'] = _cmp('lt', lambda d, a, b: d.lt(a, b), torch.lt)
HANDLERS['gt'] = HANDLERS['__gt__'] = HANDLERS['greater'] = _cmp('gt', lambda d, a, b: d.lt(b, a), torch.gt)
HANDLERS['le'] = HANDLERS['__le__'] = HANDLERS['less_equal'] = _cmp('le', lambda d, a, b: d.le(a, b), torch.le)
HANDLERS['ge'] = HANDLERS['__ge__'] = HANDLERS['greater_equal'] = _cmp('ge', lambda d, a, b: d.le(b, a), torch.ge)
HANDLERS['eq'] = HANDLERS['__eq__'] = _cmp('eq', lambda d, a, b: d.eq(a, b), torch.eq)
HANDLERS['ne'] = HANDLERS['__ne__'] = HANDLERS['not_equal'] = _cmp('ne', lambda d, a, b: d.not_(d.eq(a, b)), torch.ne)


@handler('isnan', 'isinf', 'isfinite', 'isneginf', 'isposinf')
def h_isnan(func, args, kwargs):
    # over the reals every value is finite; the witness decides and a non-finite
    # witness is flagged (the run can then only be inconclusive)
    x = args[0]
    rv = func(x._v)
    name = _fname(func)
    bad = rv.any() if name != 'isfinite' else (~rv).any()
    if bool(bad):
        cur().notes.append(f'{name}: non-finite witness value')
        cur().concretized.append(f'{name} true at witness')
    return rv


@handler('equal')
def h_equal(func, args, kwargs):
    a, b = args[:2]
    sb = HANDLERS['eq'](torch.eq, (a, b), {})
    return bool(sb.all())


@handler('allclose', 'isclose')
def h_allclose(func, args, kwargs):
    cur().concretized.append('allclose')
    return func(*map_args(args, val_of), **kwargs)


@handler('sign', 'sgn')
def h_sign(func, args, kwargs):
    x = args[0]
    ri = ew(lambda d, a: d.ite(d.lt(0, a), 1, d.ite(d.lt(a, 0), d.const(-1), 0)), x)
    rv = torch.sign(x._v)
    return wrap(rv, ri, 'sign', False)


# ----------------------------------------------------------- decisions
def _rows(ids, dim):
    p = ids.movedim(dim, -1)
    return p, p.reshape(-1, p.shape[-1])


@handler('argsort', 'sort', 'msort')
def h_sort(func, args, kwargs):
    name = _fname(func)
    b = bind(args, kwargs, ['input', 'dim', 'descending', 'stable'],
             {'dim': -1, 'descending': False, 'stable': False})
    x = b['input']
    dim = b['dim'] if name != 'msort' else 0
    desc = b['descending']
    # torch result on the witness (stable so that ties are deterministic)
    vals, perm = torch.sort(x._v, dim=dim, descending=desc, stable=True)
    t = cur()
    d = t.dag
    sid = torch.gather(x._ids, dim, perm) if x._ids.dim() else x._ids
    if x._ids.dim():
        _, rows = _rows(sid, dim)
        for r in rows.tolist():
            for p, q in zip(r, r[1:]):
                t.add_pc(d.le(q, p) if desc else d.le(p, q), 'sort')
    if name == 'argsort':
        return perm
    sv = wrap(vals, sid, 'sort', x._rg)
    if name == 'msort':
        return sv
    return torch.return_types.sort((sv, perm))


@handler('max', 'min', 'amax', 'amin', 'argmax', 'argmin')
def h_max(func, args, kwargs):
    name = _fname(func)
    ismax = 'max' in name
    x = args[0]
    if len(args) > 1 and isinstance(args[1], torch.Tensor):
        return HANDLERS['maximum' if ismax else 'minimum'](torch.maximum if ismax else torch.minimum, args, kwargs)
    b = bind(args, kwargs, ['input', 'dim', 'keepdim'], {'dim': None, 'keepdim': False})
    dim, keepdim = b['dim'], b['keepdim']
    t = cur()
    d = t.dag
    ids = x._ids
    v = x._v
    if dim is None or name in ('amax', 'amin') and isinstance(dim, (list, tuple)):
        if dim is not None:
            raise UnsupportedOp('amax over several dims')
        flat_i = ids.reshape(-1)
        flat_v = v.reshape(-1)
        dv = vals_from_ids(flat_i)  # decide on the DAG's witness values: consistent with the recorded conditions
        k = int(torch.argmax(dv) if ismax else torch.argmin(dv))
        w = int(flat_i[k])
        for j, o in enumerate(flat_i.tolist()):
            if j != k:
                t.add_pc(d.le(o, w) if ismax else d.le(w, o), name)
        if name in ('argmax', 'argmin'):
            return _real_tensor(k)
        return wrap(flat_v[k].clone(), flat_i[k].clone(), name, x._rg)
    idx = (torch.argmax if ismax else torch.argmin)(vals_from_ids(ids), dim=dim, keepdim=True)
    wid = torch.gather(ids, dim, idx)
    wv = torch.gather(v, dim, idx)
    # path conditions: winner >= every element along dim
    allw = wid.expand_as(ids)
    for w, o in zip(allw.reshape(-1).tolist(), ids.reshape(-1).tolist()):
        if w != o:
            t.add_pc(d.le(o, w) if ismax else d.le(w, o), name)
    if not keepdim:
        wid, wv, idx = wid.squeeze(dim), wv.squeeze(dim), idx.squeeze(dim)
    if name in ('argmax', 'argmin'):
        return idx
    r = wrap(wv, wid, name, x._rg)
    if name in ('amax', 'amin'):
        return r
    return (torch.return_types.max if ismax else torch.return_types.min)((r, idx))


@handler('searchsorted', 'bucketize')
def h_searchsorted(func, args, kwargs):
    name = _fname(func)
    if name == 'searchsorted':
        b = bind(args, kwargs, ['sorted_sequence', 'input', 'out_int32', 'right', 'side', 'sorter'],
                 {'right': False, 'side': None, 'out_int32': False, 'sorter': None})
        seq, vals = b['sorted_sequence'], b.get('input', b.get('self'))
    else:
        b = bind(args, kwargs, ['input', 'boundaries', 'out_int32', 'right'], {'right': False, 'out_int32': False})
        seq, vals = b['boundaries'], b['input']
    right = b['right'] or b.get('side') == 'right'
    if b.get('sorter') is not None:
        raise UnsupportedOp('searchsorted sorter')
    sv = _tv(seq)
    vv = _tv(vals)
    res = torch.searchsorted(sv, vv, right=right) if name == 'searchsorted' else torch.bucketize(vv, sv, right=right)
    t = cur()
    d = t.dag
    si = ids_of(seq)
    vi = ids_of(vals)
    n = si.shape[-1]
    if si.dim() == 1:
        seq_rows = [si.tolist()] * max(1, vi.numel())
        vflat = vi.reshape(-1).tolist()
        rflat = res.reshape(-1).tolist()
        triples = list(zip(seq_rows, vflat, rflat))
    else:
        S = si.reshape(-1, n).tolist()
        m = vi.shape[-1]
        V = vi.reshape(-1, m).tolist()
        R = res.reshape(-1, m).tolist()
        triples = []
        for srow, vrow, rrow in zip(S, V, R):
            for ve, re_ in zip(vrow, rrow):
                triples.append((srow, ve, re_))
    for srow, ve, k in triples:
        # left : seq[k-1] <  v <= seq[k] ; right: seq[k-1] <= v < seq[k]
        if k > 0:
            t.add_pc(d.le(srow[k - 1], ve) if right else d.lt(srow[k - 1], ve), name)
        if k < n:
            t.add_pc(d.lt(ve, srow[k]) if right else d.le(ve, srow[k]), name)
    return res


@handler('unique', '_unique2', 'unique_consecutive')
def h_unique(func, args, kwargs):
    name = _fname(func)
    if name == 'unique_consecutive':
        raise UnsupportedOp(name)
    b = bind(args, kwargs, ['input', 'sorted', 'return_inverse', 'return_counts', 'dim'],
             {'sorted': True, 'return_inverse': False, 'return_counts': False, 'dim': None})
    x = b['input']
    if b['dim'] is not None and not (x._ids.dim() == 1 and b['dim'] in (0, -1)):
        raise UnsupportedOp('unique dim')
    t = cur()
    d = t.dag
    uv, inv, cnt = torch.unique(x._v, sorted=True, return_inverse=True, return_counts=True)
    flat = x._ids.reshape(-1).tolist()
    invf = inv.reshape(-1).tolist()
    reps = {}
    for e, g in zip(flat, invf):
        if g in reps:
            t.add_pc(d.eq(reps[g], e), 'unique')
        else:
            reps[g] = e
    order = [reps[g] for g in range(len(uv))]
    for p, q in zip(order, order[1:]):
        t.add_pc(d.lt(p, q), 'unique')
    out = wrap(uv, _real_tensor(order, dtype=I64), 'unique', False)
    res = [out]
    if b['return_inverse']:
        res.append(inv)
    if b['return_counts']:
        res.append(cnt)
    return res[0] if len(res) == 1 else tuple(res)


@handler('nonzero', 'count_nonzero')
def h_nonzero(func, args, kwargs):
    x = args[0]
    sb = HANDLERS['ne'](torch.ne, (x, 0.0), {})
    v = sb.concretize('nonzero')
    return func(v, *args[1:], **kwargs)


@handler('any', 'all')
def h_anyall(func, args, kwargs):
    x = args[0]
    sb = HANDLERS['ne'](torch.ne, (x, 0.0), {})
    return getattr(sb, _fname(func))(*args[1:], **kwargs)


# --------------------------------------------------------------- autograd
@handler('backward')
def h_backward(func, args, kwargs):
    out = args[0]
    b = bind(args[1:], kwargs, ['gradient', 'retain_graph', 'create_graph', 'inputs'], {'gradient': None, 'inputs': None})
    t = cur()
    d = t.dag
    if out._ids.numel() != 1 and b['gradient'] is None:
        raise RuntimeError('grad can be implicitly created only for scalar outputs')
    if b['gradient'] is not None:
        g = ids_of(b['gradient'])
        oid = fold_add(d)([d.mul(a, c) for a, c in zip(out._ids.reshape(-1).tolist(), g.reshape(-1).tolist())])
    else:
        oid = int(out._ids.reshape(-1)[0])
    leaves = b['inputs'] if b['inputs'] is not None else list(t.leaves)
    for L in leaves:
        wrt = L._ids.reshape(-1).tolist()
        gs = d.grad(oid, wrt, honour_stops=True)
        gi = _real_tensor(gs, dtype=I64).reshape(L._ids.shape)
        g = SymTensor(vals_from_ids(gi), gi)
        if L._grad is not None:
            gi2 = ew(lambda d, p, q: d.add(p, q), L._grad, g)
            g = SymTensor(vals_from_ids(gi2), gi2)
        L._grad = g
    return None


def symgrad(out, wrt, honour_stops=True, uf_deriv=None):
    """d out / d wrt as a SymTensor (out: scalar SymTensor, wrt: SymTensor)."""
    d = cur().dag
    oid = int(out._ids.reshape(-1)[0])
    gs = d.grad(oid, wrt._ids.reshape(-1).tolist(), honour_stops=honour_stops, uf_deriv=uf_deriv)
    gi = _real_tensor(gs, dtype=I64).reshape(wrt._ids.shape)
    return SymTensor(vals_from_ids(gi), gi)


# ------------------------------------------------------- torch.tensor patch
def _contains_sym(x):
    if isinstance(x, (SymTensor, SymFloat)):
        return True
    if isinstance(x, (list, tuple)):
        return any(_contains_sym(y) for y in x)
    return False


def _patched_tensor(data, *args, **kwargs):
    if _CUR[0] is not None and _contains_sym(data):
        def rec(x):
            if isinstance(x, SymTensor):
                return x._ids.tolist(), x._v.tolist()
            if isinstance(x, SymFloat):
                return x.nid, float(x)
            if isinstance(x, (list, tuple)):
                pr = [rec(y) for y in x]
                return [p[0] for p in pr], [p[1] for p in pr]
            d = cur().dag
            return d.const(x), float(x)

        ids, vals = rec(data)
        d = cur().dag
        idt = _real_tensor(ids, dtype=I64)
        # torch.tensor() copies data and cuts the autograd history
        idt = _real_tensor([d.stop(i) for i in idt.reshape(-1).tolist()], dtype=I64).reshape(idt.shape)
        kw = {k: v for k, v in kwargs.items() if k in ('device',)}
        r = SymTensor(_real_tensor(vals, dtype=torch.float64, **kw), idt)
        if kwargs.get('requires_grad'):
            mark_leaf(r, True)
        return r
    return _real_tensor(data, *args, **kwargs)


def _patched_as_tensor(data, *args, **kwargs):
    if isinstance(data, SymTensor):
        return data
    if _CUR[0] is not None and _contains_sym(data):
        return _patched_tensor(data, *args, **kwargs)
    return _real_as_tensor(data, *args, **kwargs)


# ------------------------------------------------------------ contract stubs
def _fresh_matrix(prefix, values):
    t = cur()
    k = next(t.fresh_counter)
    return new_vars(f'{prefix}!{k}', values), k


def _functional_name(prefix, ids):
    """name derived from the symbolic input, so that equal inputs give equal outputs (congruence)"""
    import hashlib

    return prefix + '!' + hashlib.sha1(repr(tuple(ids)).encode()).hexdigest()[:10]


def _eigh_one(Sv, Sids):
    t = cur()
    d = t.dag
    ev, V = torch.linalg.eigh(Sv)
    key = Sids.reshape(-1).tolist()
    e_s = new_vars(_functional_name('eig_e', key), ev)
    V_s = new_vars(_functional_name('eig_v', key), V)
    n = Sids.shape[-1]
    Si = Sids.tolist()
    ei = e_s._ids.tolist()
    Vi = V_s._ids.tolist()

    class Rows(dict):
        """contract rows built on demand (a 61x61 codon model would otherwise cost O(n^3) nodes per call)"""

        def __init__(self, fn):
            super().__init__()
            self.fn = fn

        def __missing__(self, key):
            v = self.fn(*key)
            self[key] = v
            return v

    def lhs(i, j):
        acc = 0
        for m in range(n):
            acc = d.add(acc, d.mul(d.mul(Vi[i][m], ei[m]), Vi[j][m]))
        return acc

    recon_lhs = Rows(lhs)
    recon = Rows(lambda i, j: d.eq(recon_lhs[(i, j)], Si[i][j]))

    def orow(i, j):
        acc = 0
        for m in range(n):
            acc = d.add(acc, d.mul(Vi[i][m], Vi[j][m]))
        return d.eq(acc, 1 if i == j else 0)

    def ocol(i, j):
        acc = 0
        for m in range(n):
            acc = d.add(acc, d.mul(Vi[m][i], Vi[m][j]))
        return d.eq(acc, 1 if i == j else 0)

    ortho_rows = Rows(orow)
    ortho_cols = Rows(ocol)

    class LazySym:
        def __init__(self):
            self.v = None

        def get(self):
            if self.v is None:
                self.v = d.and_(*[d.eq(Si[i][j], Si[j][i]) for i in range(n) for j in range(i + 1, n)])
            return self.v

    t.contracts.append({'kind': 'eigh', 'S': SymTensor(Sv, Sids), 'e': e_s, 'V': V_s, 'recon': recon,
                        'recon_lhs': recon_lhs, 'ortho_rows': ortho_rows, 'ortho_cols': ortho_cols,
                        'symmetric_obligation_lazy': LazySym()})
    t.known_inverse[tuple(V_s._ids.reshape(-1).tolist())] = V_s._ids.t().clone()
    return e_s, V_s


@handler('linalg_eigh')
def h_eigh(func, args, kwargs):
    """Functional contract stub: e, V = eigh(S) with S = V diag(e) V^T, V^T V = V V^T = I.
    The contract rows are recorded in trace.contracts (hypotheses for lemma selection).
    eigh reads only one triangle: symmetry of S is recorded as an OBLIGATION.
    Output symbols are named by a hash of the symbolic input (equal inputs -> equal outputs);
    leading batch dimensions are handled matrix by matrix."""
    S = args[0]
    t = cur()
    t.stubs_used.append('linalg.eigh')
    n = S._ids.shape[-1]
    if S._ids.dim() == 2:
        e_s, V_s = _eigh_one(S._v, S._ids)
        return torch.return_types.linalg_eigh((e_s, V_s))
    bshape = tuple(S._ids.shape[:-2])
    Sv = S._v.reshape(-1, n, n)
    Si = S._ids.reshape(-1, n, n)
    es, Vs = [], []
    for b in range(Sv.shape[0]):
        e_b, V_b = _eigh_one(Sv[b], Si[b])
        es.append(e_b)
        Vs.append(V_b)
    e_all = SymTensor(torch.stack([x._v for x in es]).reshape(bshape + (n,)),
                      torch.stack([x._ids for x in es]).reshape(bshape + (n,)))
    V_all = SymTensor(torch.stack([x._v for x in Vs]).reshape(bshape + (n, n)),
                      torch.stack([x._ids for x in Vs]).reshape(bshape + (n, n)))
    return torch.return_types.linalg_eigh((e_all, V_all))


def _inverse_one(Av, Aids):
    t = cur()
    d = t.dag
    key = tuple(Aids.reshape(-1).tolist())
    if key in t.known_inverse:
        # inverse of the orthonormal eigenvector matrix returned by the eigh stub: V^-1 = V^T (contract)
        return SymTensor(torch.linalg.inv(Av), t.known_inverse[key].clone())
    W = torch.linalg.inv(Av)
    W_s = new_vars(_functional_name('inv', key), W)
    n = Aids.shape[-1]
    Ai = Aids.tolist()
    Wi = W_s._ids.tolist()
    left, right = {}, {}
    for i in range(n):
        for j in range(n):
            a1 = a2 = 0
            for m in range(n):
                a1 = d.add(a1, d.mul(Wi[i][m], Ai[m][j]))
                a2 = d.add(a2, d.mul(Ai[i][m], Wi[m][j]))
            left[(i, j)] = d.eq(a1, 1 if i == j else 0)
            right[(i, j)] = d.eq(a2, 1 if i == j else 0)
    t.contracts.append({'kind': 'inverse', 'A': SymTensor(Av, Aids), 'W': W_s, 'left': left, 'right': right})
    return W_s


@handler('inverse', 'linalg_inv')
def h_inverse(func, args, kwargs):
    A = args[0]
    t = cur()
    t.stubs_used.append('inverse')
    n = A._ids.shape[-1]
    if A._ids.dim() == 2:
        return _inverse_one(A._v, A._ids)
    bshape = tuple(A._ids.shape[:-2])
    Av = A._v.reshape(-1, n, n)
    Ai = A._ids.reshape(-1, n, n)
    outs = [_inverse_one(Av[b], Ai[b]) for b in range(Av.shape[0])]
    return SymTensor(torch.stack([x._v for x in outs]).reshape(bshape + (n, n)),
                     torch.stack([x._ids for x in outs]).reshape(bshape + (n, n)))


@handler('matrix_exp', 'linalg_matrix_exp')
def h_matrix_exp(func, args, kwargs):
    """expm stub: result entries are uninterpreted functions of ALL entries of the argument matrix
    (congruence: equal arguments give equal results); the argument is recorded for inspection."""
    A = args[0]
    t = cur()
    d = t.dag
    rv = torch.matrix_exp(A._v)
    n = A._ids.shape[-1]
    flatA = A._ids.reshape(-1, n * n).tolist()
    flatV = rv.reshape(-1, n * n).tolist()
    out = []
    for row, vals in zip(flatA, flatV):
        o = []
        for pos in range(n * n):
            name = f'expm{n}_{pos // n}_{pos % n}'
            key = (name, tuple(d.vals[x] for x in row))
            d.uf_witness[key] = vals[pos]
            o.append(d.uf(name, *row))
        out.append(o)
    ids = _real_tensor(out, dtype=I64).reshape(A._ids.shape)
    if not hasattr(t, 'contracts'):
        t.contracts = []
    res = SymTensor(rv, ids)
    t.contracts.append({'kind': 'matrix_exp', 'A': A, 'out': res})
    t.stubs_used.append('matrix_exp')
    return res
