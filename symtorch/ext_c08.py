"""Handler needed by checks/C08.py only (kept out of tensor.py: that file is shared).

`torch.unique(x, dim=k)` on an input with more than one axis: the slices along `dim` are compared as whole
vectors (lexicographically, in the row-major order of the remaining axes) and returned sorted.  This is what
`PiecewiseLinearCoalescentGrid.log_prob` evaluates on batched node heights (`[B, n]` sampling times, dim=-1).
The grouping and the order are decided on the witness and recorded as path conditions:
  * two slices in one group: every component equal;
  * consecutive distinct groups p < q: equal up to the first differing component, strictly less there.
Everything else (no `dim`, or a one-dimensional input) is delegated to the generic handler.
"""
from __future__ import annotations

import torch

from .tensor import HANDLERS, I64, _real_tensor, bind, check_vals, cur, handler, wrap

_generic_unique = HANDLERS['unique']


@handler('unique', '_unique2')
def h_unique_dim(func, args, kwargs):
    b = bind(args, kwargs, ['input', 'sorted', 'return_inverse', 'return_counts', 'dim'],
             {'sorted': True, 'return_inverse': False, 'return_counts': False, 'dim': None})
    x = b['input']
    if b['dim'] is None or not hasattr(x, '_ids') or x._ids.dim() <= 1:
        return _generic_unique(func, args, kwargs)
    t = cur()
    d = t.dag
    dim = b['dim'] % x._ids.dim()
    uv, inv, cnt = torch.unique(x._v, sorted=True, return_inverse=True, return_counts=True, dim=dim)
    # slices along `dim` as columns of a [R, L] matrix
    idm = x._ids.movedim(dim, -1)
    rest_shape = idm.shape[:-1]
    cols = idm.reshape(-1, idm.shape[-1]).t().tolist()  # L lists of R ids
    invl = inv.reshape(-1).tolist()
    reps = {}
    for col, g in zip(cols, invl):
        if g in reps:
            for a_, b_ in zip(reps[g], col):
                t.add_pc(d.eq(a_, b_), 'unique dim')
        else:
            reps[g] = col
    order = [reps[g] for g in range(uv.shape[dim])]
    for p, q in zip(order, order[1:]):
        for a_, b_ in zip(p, q):
            if d.vals[a_] == d.vals[b_]:
                t.add_pc(d.eq(a_, b_), 'unique dim')
            else:
                t.add_pc(d.lt(a_, b_), 'unique dim')
                break
    ids = _real_tensor(order, dtype=I64).reshape((len(order),) + tuple(rest_shape)).movedim(0, -1).movedim(-1, dim)
    ids = ids.contiguous()
    check_vals(uv, ids, "unique dim")
    out = wrap(uv, ids, "unique dim", False)
    res = [out]
    if b['return_inverse']:
        res.append(inv)
    if b['return_counts']:
        res.append(cnt)
    return res[0] if len(res) == 1 else tuple(res)
