"""Engine extensions used by checks/C15.py (kept out of the shared tensor.py).

* SymMath15: `math` replacement that also keeps math.exp/log/sqrt/pow symbolic when the real code passes
  a one-element tensor (python's math.* calls float(tensor); semantically that is tensor.item()).
* canon(): structural hash of a DAG node (identifies the same path-condition across runs).
"""
from __future__ import annotations

import hashlib
import math

import torch

from .tensor import SymFloat, SymMath, SymTensor, cur, mkfloat


def as_scalar(x):
    """float(tensor) without losing the expression: a one-element SymTensor becomes a SymFloat."""
    if isinstance(x, SymTensor):
        if x._ids.numel() != 1:
            raise TypeError('only one element tensors can be converted to Python scalars')
        return mkfloat(int(x._ids.reshape(-1)[0]))
    if isinstance(x, torch.Tensor):
        return x.item()
    return x


class SymMath15(SymMath):
    def exp(self, x):
        return self._u('exp', as_scalar(x))

    def log(self, x, *base):
        x = as_scalar(x)
        if base:
            return self._u('log', x) / self._u('log', as_scalar(base[0]))
        return self._u('log', x)

    def sqrt(self, x):
        return self._u('sqrt', as_scalar(x))

    def lgamma(self, x):
        return self._u('lgamma', as_scalar(x))

    def pow(self, x, y):
        return SymMath.pow(self, as_scalar(x), as_scalar(y))


class Canon:
    """structural (name based) hash of DAG nodes; equal hashes <=> same expression up to node numbering"""

    def __init__(self, dag):
        self.d = dag
        self.memo = {}

    def __call__(self, n):
        d = self.d
        memo = self.memo
        for m in d.topo([n]):
            if m in memo:
                continue
            op = d.ops[m]
            a = d.args[m]
            if op in ('const', 'var', 'bconst'):
                key = (op, str(a[0]))
            elif op == 'ipow':
                key = (op, memo[a[0]], a[1])
            elif op == 'uf':
                key = (op, a[0]) + tuple(memo[x] for x in a[1:])
            elif op in ('add', 'mul', 'and', 'or', 'eq'):
                key = (op,) + tuple(sorted(memo[x] for x in a))
            else:
                key = (op,) + tuple(memo[x] for x in a)
            memo[m] = hashlib.sha1(repr(key).encode()).hexdigest()[:20]
        return memo[n]


def strip_stop(d, n):
    while d.ops[n] == 'stop':
        n = d.args[n][0]
    return n


def subst(d, roots, mapping):
    """like DAG.substitute, but sub-terms below a mapped node are not visited (a mapped node is opaque)"""
    out = dict(mapping)
    order = []
    seen = set(out)
    stack = [(r, False) for r in roots]
    while stack:
        n, done = stack.pop()
        if done:
            order.append(n)
            continue
        if n in seen:
            continue
        seen.add(n)
        stack.append((n, True))
        for c in d.children(n):
            if c not in seen:
                stack.append((c, False))
    for n in order:
        op = d.ops[n]
        a = d.args[n]
        if op in ('const', 'var', 'bconst'):
            out[n] = n
        elif op == 'add':
            out[n] = d.add(out[a[0]], out[a[1]])
        elif op == 'mul':
            out[n] = d.mul(out[a[0]], out[a[1]])
        elif op == 'div':
            out[n] = d.div(out[a[0]], out[a[1]])
        elif op == 'ipow':
            out[n] = d.ipow(out[a[0]], a[1])
        elif op == 'stop':
            out[n] = d.stop(out[a[0]])
        elif op == 'ite':
            out[n] = d.ite(out[a[0]], out[a[1]], out[a[2]])
        elif op == 'uf':
            out[n] = d.uf(a[0], *[out[x] for x in a[1:]])
        elif op == 'le':
            out[n] = d.le(out[a[0]], out[a[1]])
        elif op == 'lt':
            out[n] = d.lt(out[a[0]], out[a[1]])
        elif op == 'eq':
            out[n] = d.eq(out[a[0]], out[a[1]])
        elif op == 'and':
            out[n] = d.and_(*[out[c] for c in a])
        elif op == 'or':
            out[n] = d.or_(*[out[c] for c in a])
        elif op == 'not':
            out[n] = d.not_(out[a[0]])
        else:
            raise ValueError(op)
    return [out[r] for r in roots]
