"""Engine extensions used by checks/C15.py (kept out of the shared tensor.py).

* SymMath15: `math` replacement that also keeps math.exp/log/sqrt/pow symbolic when the real code passes
  a one-element tensor (python's math.* calls float(tensor); semantically that is tensor.item()).
* canon(): structural hash of a DAG node (identifies the same path-condition across runs).
"""
from __future__ import annotations

import hashlib
import math

import torch

from .tensor import SymFloat, SymMath, SymTensor, cur, mkfloat


def as_scalar(x):
    """float(tensor) without losing the expression: a one-element SymTensor becomes a SymFloat."""
    if isinstance(x, SymTensor):
        if x._ids.numel() != 1:
            raise TypeError('only one element tensors can be converted to Python scalars')
        return mkfloat(int(x._ids.reshape(-1)[0]))
    if isinstance(x, torch.Tensor):
        return x.item()
    return x


class SymMath15(SymMath):
    def exp(self, x):
        return self._u('exp', as_scalar(x))

    def log(self, x, *base):
        x = as_scalar(x)
        if base:
            return self._u('log', x) / self._u('log', as_scalar(base[0]))
        return self._u('log', x)

    def sqrt(self, x):
        return self._u('sqrt', as_scalar(x))

    def lgamma(self, x):
        return self._u('lgamma', as_scalar(x))

    def pow(self, x, y):
        return SymMath.pow(self, as_scalar(x), as_scalar(y))


class Canon:
    """structural (name based) hash of DAG nodes; equal hashes <=> same expression up to node numbering"""

    def __init__(self, dag):
        self.d = dag
        self.memo = {}

    def __call__(self, n):
        d = self.d
        memo = self.memo
        for m in d.topo([n]):
            if m in memo:
                continue
            op = d.ops[m]
            a = d.args[m]
            if op in ('const', 'var', 'bconst'):
                key = (op, str(a[0]))
            elif op == 'ipow':
                key = (op, memo[a[0]], a[1])
            elif op == 'uf':
                key = (op, a[0]) + tuple(memo[x] for x in a[1:])
            elif op in ('add', 'mul', 'and', 'or', 'eq'):
                key = (op,) + tuple(sorted(memo[x] for x in a))
            else:
                key = (op,) + tuple(memo[x] for x in a)
            memo[m] = hashlib.sha1(repr(key).encode()).hexdigest()[:20]
        return memo[n]


def strip_stop(d, n):
    while d.ops[n] == 'stop':
        n = d.args[n][0]
    return n
