"""Engine extensions used by checks/C15.py (kept out of the shared tensor.py).

* SymMath15: `math` replacement that also keeps math.exp/log/sqrt/pow symbolic when the real code passes
  a one-element tensor (python's math.* calls float(tensor); semantically that is tensor.item()).
* canon(): structural hash of a DAG node (identifies the same path-condition across runs).
"""
from __future__ import annotations

import hashlib
import math

import torch

from .tensor import SymFloat, SymMath, SymTensor, cur, mkfloat


def as_scalar(x):
    """float(tensor) without losing the expression: a one-element SymTensor becomes a SymFloat."""
    if isinstance(x, SymTensor):
        if x._ids.numel() != 1:
            raise TypeError('only one element tensors can be converted to Python scalars')
        return mkfloat(int(x._ids.reshape(-1)[0]))
    if isinstance(x, torch.Tensor):
        return x.item()
    return x


class SymMath15(SymMath):
    def exp(self, x):
        return self._u('exp', as_scalar(x))

    def log(self, x, *base):
        x = as_scalar(x)
        if base:
            return self._u('log', x) / self._u('log', as_scalar(base[0]))
        return self._u('log', x)

    def sqrt(self, x):
        return self._u('sqrt', as_scalar(x))

    def lgamma(self, x):
        return self._u('lgamma', as_scalar(x))

    def pow(self, x, y):
        return SymMath.pow(self, as_scalar(x), as_scalar(y))


class Canon:
    """structural (name based) hash of DAG nodes; equal hashes <=> same expression up to node numbering"""

    def __init__(self, dag):
        self.d = dag
        self.memo = {}

    def __call__(self, n):
        d = self.d
        memo = self.memo
        for m in d.topo([n]):
            if m in memo:
                continue
            op = d.ops[m]
            a = d.args[m]
            if op in ('const', 'var', 'bconst'):
                key = (op, str(a[0]))
            elif op == 'ipow':
                key = (op, memo[a[0]], a[1])
            elif op == 'uf':
                key = (op, a[0]) + tuple(memo[x] for x in a[1:])
            elif op in ('add', 'mul', 'and', 'or', 'eq'):
                key = (op,) + tuple(sorted(memo[x] for x in a))
            else:
                key = (op,) + tuple(memo[x] for x in a)
            memo[m] = hashlib.sha1(repr(key).encode()).hexdigest()[:20]
        return memo[n]


def strip_stop(d, n):
    while d.ops[n] == 'stop':
        n = d.args[n][0]
    return n


def subst(d, roots, mapping, drop_stops=False):
    """like DAG.substitute, but sub-terms below a mapped node are not visited (a mapped node is opaque);
    drop_stops=True additionally removes every stop node (detach / no_grad marker) of the rebuilt expressions"""
    out = dict(mapping)
    order = []
    seen = set(out)
    stack = [(r, False) for r in roots]
    while stack:
        n, done = stack.pop()
        if done:
            order.append(n)
            continue
        if n in seen:
            continue
        seen.add(n)
        stack.append((n, True))
        for c in d.children(n):
            if c not in seen:
                stack.append((c, False))
    for n in order:
        op = d.ops[n]
        a = d.args[n]
        if op in ('const', 'var', 'bconst'):
            out[n] = n
        elif op == 'add':
            out[n] = d.add(out[a[0]], out[a[1]])
        elif op == 'mul':
            out[n] = d.mul(out[a[0]], out[a[1]])
        elif op == 'div':
            out[n] = d.div(out[a[0]], out[a[1]])
        elif op == 'ipow':
            out[n] = d.ipow(out[a[0]], a[1])
        elif op == 'stop':
            out[n] = out[a[0]] if drop_stops else d.stop(out[a[0]])
        elif op == 'ite':
            out[n] = d.ite(out[a[0]], out[a[1]], out[a[2]])
        elif op == 'uf':
            out[n] = d.uf(a[0], *[out[x] for x in a[1:]])
        elif op == 'le':
            out[n] = d.le(out[a[0]], out[a[1]])
        elif op == 'lt':
            out[n] = d.lt(out[a[0]], out[a[1]])
        elif op == 'eq':
            out[n] = d.eq(out[a[0]], out[a[1]])
        elif op == 'and':
            out[n] = d.and_(*[out[c] for c in a])
        elif op == 'or':
            out[n] = d.or_(*[out[c] for c in a])
        elif op == 'not':
            out[n] = d.not_(out[a[0]])
        else:
            raise ValueError(op)
    return [out[r] for r in roots]


# ---------------------------------------------------------------------------------------------------
# Dense linear algebra used by GMRFPiecewiseCoalescentBlockUpdatingOperator (small dimensions).
#   linalg.vector_norm : sqrt(sum x_i^2)                                   (exact; sqrt uninterpreted + axioms)
#   linalg.solve       : exact rational expressions (substitution for triangular matrices recognised by their
#                        structural zeros, Cramer's rule for n <= 3 otherwise); every denominator is recorded
#                        as a well-definedness obligation by the DAG
#   linalg.cholesky    : functional CONTRACT stub.  U = cholesky(A, upper=True) are fresh symbols named by a
#                        hash of the symbolic argument (equal arguments -> equal factors) with the contract
#                        U^T U = A, U_ii > 0 (hypotheses) and the OBLIGATIONS "A symmetric" and "A positive
#                        definite" (leading principal minors > 0): recorded in trace.contracts.
# ---------------------------------------------------------------------------------------------------
from .tensor import (UnsupportedOp, _functional_name, _real_tensor, check_vals, handler, ids_of,  # noqa: E402
                     new_vars, val_of, wrap)

I64 = torch.int64


def det_ids(d, M):
    """determinant of a small square matrix of node ids (cofactor expansion along the first row)"""
    n = len(M)
    if n == 1:
        return M[0][0]
    if n == 2:
        return d.sub(d.mul(M[0][0], M[1][1]), d.mul(M[0][1], M[1][0]))
    acc = 0
    for j in range(n):
        if M[0][j] == 0:
            continue
        minor = [[M[r][c] for c in range(n) if c != j] for r in range(1, n)]
        term = d.mul(M[0][j], det_ids(d, minor))
        acc = d.add(acc, term) if j % 2 == 0 else d.sub(acc, term)
    return acc


def _solve_col(d, A, b):
    n = len(A)
    lower = all(A[i][j] == 0 for i in range(n) for j in range(i + 1, n))
    upper = all(A[i][j] == 0 for i in range(n) for j in range(i))
    x = [0] * n
    if lower or upper:
        order = range(n) if lower else range(n - 1, -1, -1)
        for i in order:
            acc = b[i]
            for j in (range(i) if lower else range(i + 1, n)):
                acc = d.sub(acc, d.mul(A[i][j], x[j]))
            x[i] = d.div(acc, A[i][i])
        return x
    if n > 3:
        raise UnsupportedOp('linalg.solve with a full matrix of dimension > 3')
    det = det_ids(d, A)
    for k in range(n):
        Ak = [[(b[r] if c == k else A[r][c]) for c in range(n)] for r in range(n)]
        x[k] = d.div(det_ids(d, Ak), det)
    return x


@handler('linalg_solve')
def h_solve(func, args, kwargs):
    A, B = args[0], args[1]
    if kwargs.get('left', True) is not True or len(args) > 2:
        raise UnsupportedOp('linalg.solve(left=False)')
    Ai, Bi = ids_of(A), ids_of(B)
    Av, Bv = val_of(A), val_of(B)
    if Ai.dim() != 2 or Bi.dim() not in (1, 2):
        raise UnsupportedOp('batched linalg.solve')
    d = cur().dag
    Al = Ai.tolist()
    if Bi.dim() == 1:
        ri = _real_tensor(_solve_col(d, Al, Bi.tolist()), dtype=I64)
    else:
        cols = [_solve_col(d, Al, Bi[:, j].tolist()) for j in range(Bi.shape[1])]
        ri = _real_tensor(cols, dtype=I64).t().contiguous()
    rv = torch.linalg.solve(Av.to(torch.float64), Bv.to(torch.float64))
    check_vals(rv, ri, 'linalg.solve')
    return wrap(rv, ri, 'linalg.solve')


@handler('linalg_vector_norm')
def h_vector_norm(func, args, kwargs):
    x = args[0]
    if len(args) > 1 and args[1] not in (2, 2.0) or kwargs.get('ord', 2) not in (2, 2.0) or kwargs.get('dim') is not None:
        raise UnsupportedOp('linalg.vector_norm: only the 2-norm over all elements')
    d = cur().dag
    acc = 0
    for i in x._ids.reshape(-1).tolist():
        acc = d.add(acc, d.ipow(i, 2))
    ri = _real_tensor(d.sqrt(acc), dtype=I64)
    rv = torch.linalg.vector_norm(x._v)
    check_vals(rv, ri, 'linalg.vector_norm')
    return wrap(rv, ri, 'linalg.vector_norm')


@handler('linalg_cholesky')
def h_cholesky(func, args, kwargs):
    A = args[0]
    upper = bool(kwargs.get('upper', False))
    if A._ids.dim() != 2:
        raise UnsupportedOp('batched linalg.cholesky')
    t = cur()
    d = t.dag
    Fv = torch.linalg.cholesky(A._v, upper=upper)  # raises LinAlgError at a witness that is not positive definite
    n = A._ids.shape[-1]
    Ai = A._ids.tolist()
    base = _functional_name('chol', A._ids.reshape(-1).tolist() + [int(upper)])
    F = [[0] * n for _ in range(n)]
    for i in range(n):
        for j in range(n):
            if (i <= j) if upper else (i >= j):
                F[i][j] = d.var(f'{base}[{i},{j}]', float(Fv[i, j]))
    rows = {}
    for i in range(n):
        for j in range(i, n):
            acc = 0
            for m in range(n):
                acc = d.add(acc, d.mul(F[m][i], F[m][j]) if upper else d.mul(F[i][m], F[j][m]))
            rows[(i, j)] = d.eq(acc, Ai[i][j])
    pos = [d.lt(0, F[i][i]) for i in range(n)]
    sym = [d.eq(Ai[i][j], Ai[j][i]) for i in range(n) for j in range(i + 1, n)]
    minors = [d.lt(0, det_ids(d, [r[:k] for r in Ai[:k]])) for k in range(1, n + 1)]
    ri = _real_tensor(F, dtype=I64)
    res = SymTensor(Fv.to(torch.float64), ri)
    t.contracts.append({'kind': 'cholesky', 'A': A, 'F': res, 'upper': upper, 'rows': rows, 'positive': pos,
                        'symmetric_obligation': sym, 'posdef_obligation': minors})
    t.stubs_used.append('linalg.cholesky')
    return res


@handler('cholesky_inverse')
def h_cholesky_inverse(func, args, kwargs):
    """functional CONTRACT stub of torch.cholesky_inverse(F, upper=False): the argument is read as a CHOLESKY FACTOR
    (only its lower / upper triangle), the result X are fresh symbols named by a hash of the symbolic argument with the
    documented contract  X (F F^T) = (F F^T) X = I   (upper=True: F^T F).  Recorded in trace.contracts."""
    F = args[0]
    upper = bool(args[1]) if len(args) > 1 else bool(kwargs.get('upper', False))
    if F._ids.dim() != 2:
        raise UnsupportedOp('batched cholesky_inverse')
    t = cur()
    d = t.dag
    Xv = torch.cholesky_inverse(F._v, upper=upper)
    n = F._ids.shape[-1]
    Fi = F._ids.tolist()
    T = [[(Fi[i][j] if ((i <= j) if upper else (i >= j)) else 0) for j in range(n)] for i in range(n)]
    A = [[0] * n for _ in range(n)]
    for i in range(n):
        for j in range(n):
            acc = 0
            for m in range(n):
                acc = d.add(acc, d.mul(T[m][i], T[m][j]) if upper else d.mul(T[i][m], T[j][m]))
            A[i][j] = acc
    X = new_vars(_functional_name('cholinv', F._ids.reshape(-1).tolist() + [int(upper)]), Xv.to(torch.float64))
    Xi = X._ids.tolist()
    left, right = {}, {}
    for i in range(n):
        for j in range(n):
            a1 = a2 = 0
            for m in range(n):
                a1 = d.add(a1, d.mul(Xi[i][m], A[m][j]))
                a2 = d.add(a2, d.mul(A[i][m], Xi[m][j]))
            left[(i, j)] = d.eq(a1, 1 if i == j else 0)
            right[(i, j)] = d.eq(a2, 1 if i == j else 0)
    t.contracts.append({'kind': 'cholesky_inverse', 'F': F, 'X': X, 'upper': upper, 'left': left, 'right': right})
    t.stubs_used.append('cholesky_inverse')
    return X
