"""SMT-LIB2 printing of DAG nodes and a solver portfolio (z3 4.8.12, z3 5.1, cvc5
binaries).  Every query is a text file; the first definite answer wins."""
from __future__ import annotations

import os
import re
import shutil
import subprocess
import tempfile
import time
from fractions import Fraction

from .expr import DAG, EngineError

SOLVERS = {
    'z3': ['/usr/bin/z3', '-smt2'],
    'z3new': ['z3-new', '-smt2'],
    'cvc5': ['cvc5', '--lang=smt2', '--produce-models', '--nl-ext-tplanes'],
}

_tmpdir = None


def tmpdir():
    global _tmpdir
    if _tmpdir is None or not os.path.isdir(_tmpdir):
        _tmpdir = tempfile.mkdtemp(prefix='symtorch_')
        import atexit

        atexit.register(lambda d=_tmpdir: shutil.rmtree(d, ignore_errors=True))
    return _tmpdir


def sym(name):
    return '|' + name.replace('|', '!').replace('\\', '!') + '|'


def frac(fr: Fraction):
    if fr.denominator == 1:
        s = f'{abs(fr.numerator)}.0'
    else:
        s = f'(/ {abs(fr.numerator)}.0 {fr.denominator}.0)'
    return f'(- {s})' if fr < 0 else s


DIV_AS_INVERSE = True


def render_defs(dag, roots, prefix=''):
    """define-funs for the cone of `roots`.  Returns (vars, ufs{name:arity}, defs)."""
    d = dag
    P = prefix
    order = d.topo(list(roots))
    decl_vars = []
    ufs = {}
    defs = []
    inverses = set()
    for n in order:
        op = d.ops[n]
        a = d.args[n]
        if op == 'var':
            decl_vars.append(a[0])
            defs.append(f'(define-fun {P}n{n} () Real {sym(a[0])})')
            continue
        if op == 'const':
            defs.append(f'(define-fun {P}n{n} () Real {frac(a[0])})')
            continue
        if op == 'bconst':
            defs.append(f"(define-fun {P}n{n} () Bool {'true' if a[0] else 'false'})")
            continue
        sort = 'Real'
        if op == 'add':
            e = f'(+ {P}n{a[0]} {P}n{a[1]})'
        elif op == 'mul':
            e = f'(* {P}n{a[0]} {P}n{a[1]})'
        elif op == 'div':
            if DIV_AS_INVERSE:
                # a/b = a * inv_b with one shared inverse per denominator, inv_b * b = 1.  Points with
                # b = 0 are excluded by this encoding: b != 0 is a separate well-definedness obligation.
                if a[1] not in inverses:
                    inverses.add(a[1])
                    defs.append(f'(declare-const {P}inv{a[1]} Real)')
                    defs.append(f'(assert (= (* {P}inv{a[1]} {P}n{a[1]}) 1.0))')
                e = f'(* {P}n{a[0]} {P}inv{a[1]})'
            else:
                e = f'(/ {P}n{a[0]} {P}n{a[1]})'
        elif op == 'ipow':
            e = '(* ' + ' '.join([f'{P}n{a[0]}'] * a[1]) + ')'
        elif op == 'stop':
            e = f'{P}n{a[0]}'
        elif op == 'ite':
            e = f'(ite {P}n{a[0]} {P}n{a[1]} {P}n{a[2]})'
        elif op == 'uf':
            name = a[0]
            ufs[name] = len(a) - 1
            e = f"({sym('uf_' + name)} " + ' '.join(f'{P}n{x}' for x in a[1:]) + ')'
        else:
            sort = 'Bool'
            if op == 'le':
                e = f'(<= {P}n{a[0]} {P}n{a[1]})'
            elif op == 'lt':
                e = f'(< {P}n{a[0]} {P}n{a[1]})'
            elif op == 'eq':
                e = f'(= {P}n{a[0]} {P}n{a[1]})'
            elif op == 'and':
                e = '(and ' + ' '.join(f'{P}n{c}' for c in a) + ')'
            elif op == 'or':
                e = '(or ' + ' '.join(f'{P}n{c}' for c in a) + ')'
            elif op == 'not':
                e = f'(not {P}n{a[0]})'
            else:
                raise EngineError(op)
        defs.append(f'(define-fun {P}n{n} () {sort} {e})')
    return decl_vars, ufs, defs


def assemble(var_names, ufs, body_lines, get_value_terms=(), logic=None):
    if logic is None:
        logic = 'QF_UFNRA' if ufs else 'QF_NRA'
    lines = [f'(set-logic {logic})']
    for v in sorted(set(var_names)):
        lines.append(f'(declare-const {sym(v)} Real)')
    for name, ar in sorted(ufs.items()):
        lines.append(f"(declare-fun {sym('uf_' + name)} ({' '.join(['Real'] * ar)}) Real)")
    lines.extend(body_lines)
    lines.append('(check-sat)')
    if get_value_terms:
        lines.append('(get-value (' + ' '.join(get_value_terms) + '))')
    return '\n'.join(lines) + '\n'


class Script:
    """Builds one SMT-LIB script from DAG nodes."""

    def __init__(self, dag: DAG):
        self.dag = dag
        self.asserts = []  # strings
        self.roots = []
        self.extra_decls = []

    def ref(self, n):
        self.roots.append(n)
        return f'n{n}'

    def assert_node(self, n):
        self.asserts.append(self.ref(n))

    def assert_not(self, n):
        self.asserts.append(f'(not {self.ref(n)})')

    def assert_text(self, s):
        self.asserts.append(s)

    def render(self, get_values=(), logic=None):
        vs, ufs, defs = render_defs(self.dag, self.roots + list(get_values), '')
        body = list(self.extra_decls) + defs + [f'(assert {a})' for a in self.asserts]
        return assemble(vs, ufs, body, [f'n{n}' for n in get_values], logic)


# ------------------------------------------------------------------ parsing
_tok = re.compile(r'\(|\)|\|[^|]*\||[^\s()]+')


def parse_sexprs(text):
    toks = _tok.findall(text)
    pos = 0

    def rd():
        nonlocal pos
        t = toks[pos]
        pos += 1
        if t == '(':
            out = []
            while toks[pos] != ')':
                out.append(rd())
            pos += 1
            return out
        return t

    res = []
    while pos < len(toks):
        res.append(rd())
    return res


def sval(e):
    """S-expression value -> Fraction (exact) or float (approximate)."""
    if isinstance(e, str):
        if e.endswith('?'):
            return float(e[:-1])
        if e in ('true', 'false'):
            return e == 'true'
        return Fraction(e)
    if e[0] == '-' and len(e) == 2:
        return -sval(e[1])
    if e[0] == '-' and len(e) == 3:
        return sval(e[1]) - sval(e[2])
    if e[0] == '+':
        return sum(sval(x) for x in e[1:])
    if e[0] == '*':
        r = 1
        for x in e[1:]:
            r = r * sval(x)
        return r
    if e[0] == '/':
        return sval(e[1]) / sval(e[2])
    if e[0] == 'to_real':
        return sval(e[1])
    if e[0] == 'root-obj':
        return _rootobj(e)
    raise EngineError(f'cannot parse model value {e}')


def _rootobj(e):
    # (root-obj poly k): k-th real root of univariate poly in x
    import numpy as np

    def coeffs(p):
        # returns dict power->coef
        if isinstance(p, str):
            if p == 'x':
                return {1: Fraction(1)}
            return {0: Fraction(p)}
        h = p[0]
        if h == '+':
            out = {}
            for q in p[1:]:
                for k, v in coeffs(q).items():
                    out[k] = out.get(k, 0) + v
            return out
        if h == '-':
            if len(p) == 2:
                return {k: -v for k, v in coeffs(p[1]).items()}
            out = dict(coeffs(p[1]))
            for q in p[2:]:
                for k, v in coeffs(q).items():
                    out[k] = out.get(k, 0) - v
            return out
        if h == '*':
            out = {0: Fraction(1)}
            for q in p[1:]:
                c = coeffs(q)
                new = {}
                for k1, v1 in out.items():
                    for k2, v2 in c.items():
                        new[k1 + k2] = new.get(k1 + k2, 0) + v1 * v2
                out = new
            return out
        if h == '^':
            base = coeffs(p[1])
            n = int(p[2])
            out = {0: Fraction(1)}
            for _ in range(n):
                new = {}
                for k1, v1 in out.items():
                    for k2, v2 in base.items():
                        new[k1 + k2] = new.get(k1 + k2, 0) + v1 * v2
                out = new
            return out
        raise EngineError(f'root-obj poly {p}')

    c = coeffs(e[1])
    deg = max(c)
    arr = [float(c.get(k, 0)) for k in range(deg, -1, -1)]
    roots = sorted(r.real for r in np.roots(arr) if abs(r.imag) < 1e-9)
    return float(roots[int(e[2]) - 1])


class Result:
    def __init__(self, status, values=None, solver=None, secs=0.0, raw='', errors=None):
        self.status = status  # 'sat' | 'unsat' | 'unknown'
        self.values = values or {}
        self.solver = solver
        self.secs = secs
        self.raw = raw
        self.errors = errors or []

    def __repr__(self):
        return f'Result({self.status}, {self.solver}, {self.secs:.2f}s)'


SOLVER_MEM_MB = int(os.environ.get('VERIF_SOLVER_MEM_MB', '8192'))
STATS = {'queries': 0, 'by_solver': {}, 'solver_s': 0.0, 'sat': 0, 'unsat': 0, 'unknown': 0}


def _launch(solver, path, timeout):
    cmd = list(SOLVERS[solver])
    if solver in ('z3', 'z3new'):
        # memory cap: an exhausted solver answers "(error out of memory)" = unknown instead of taking the machine down
        cmd += [f'-T:{max(1, int(timeout))}', f'-memory:{SOLVER_MEM_MB}', path]
    else:
        cmd += [f'--tlimit={int(timeout * 1000)}', path]
    return subprocess.Popen(cmd, stdout=subprocess.PIPE, stderr=subprocess.PIPE, text=True)


def _interpret(out):
    lines = out.strip().splitlines()
    errors = [l for l in lines if '(error' in l]
    status = 'unknown'
    for l in lines:
        l = l.strip()
        if l in ('sat', 'unsat', 'unknown', 'timeout'):
            status = l if l in ('sat', 'unsat') else 'unknown'
            break
    rest = out[out.find(status) + len(status):] if status in ('sat', 'unsat') else ''
    return status, errors, rest


def solve_text(text, get_values=(), timeout=30.0, solvers=('z3', 'cvc5', 'z3new'), parallel=False,
               first_timeout=None):
    """Run the portfolio on an SMT-LIB script.  `(error` lines that are not the
    harmless 'model is not available' after unsat make the answer unknown."""
    d = tmpdir()
    fd, path = tempfile.mkstemp(suffix='.smt2', dir=d)
    with os.fdopen(fd, 'w') as f:
        f.write(text)
    t0 = time.time()
    STATS['queries'] += 1
    result = None
    try:
        if parallel:
            procs = {s: _launch(s, path, timeout) for s in solvers}
            deadline = t0 + timeout + 2
            done = {}
            while procs and time.time() < deadline and result is None:
                for s, p in list(procs.items()):
                    if p.poll() is not None:
                        out = p.stdout.read()
                        del procs[s]
                        r = _finish(s, out, get_values, time.time() - t0)
                        done[s] = r
                        if r.status in ('sat', 'unsat'):
                            result = r
                            break
                time.sleep(0.005)
            for p in procs.values():
                p.kill()
            if result is None:
                result = Result('unknown', solver='+'.join(solvers), secs=time.time() - t0,
                                raw=' | '.join(f'{s}:{r.raw[:80]}' for s, r in done.items()))
        else:
            raws = []
            for k, s in enumerate(solvers):
                to = first_timeout if (k == 0 and first_timeout) else timeout
                ts = time.time()
                p = _launch(s, path, to)
                try:
                    out, _ = p.communicate(timeout=to + 2)
                except subprocess.TimeoutExpired:
                    p.kill()
                    out = 'timeout'
                r = _finish(s, out, get_values, time.time() - ts)
                raws.append(f'{s}:{r.raw[:80]}')
                if r.status in ('sat', 'unsat'):
                    result = r
                    break
            if result is None:
                result = Result('unknown', solver='+'.join(solvers), secs=time.time() - t0,
                                raw=' | '.join(raws))
    finally:
        try:
            os.unlink(path)
        except OSError:
            pass
    dt = time.time() - t0
    result.secs = dt
    STATS['solver_s'] += dt
    STATS[result.status] += 1
    if result.solver:
        STATS['by_solver'][result.solver] = STATS['by_solver'].get(result.solver, 0) + 1
    return result


def _finish(solver, out, get_values, secs):
    status, errors, rest = _interpret(out)
    real_errors = [e for e in errors if 'model is not available' not in e
                   and 'Cannot get value' not in e and 'cannot get value' not in e.lower()]
    if real_errors:
        return Result('unknown', solver=solver, secs=secs, raw=out[:400], errors=real_errors)
    values = {}
    if status == 'sat' and get_values:
        try:
            sx = parse_sexprs(rest)
            for blk in sx:
                if isinstance(blk, list):
                    for pair in blk:
                        if isinstance(pair, list) and len(pair) == 2 and isinstance(pair[0], str) \
                                and pair[0].startswith('n'):
                            values[int(pair[0][1:])] = sval(pair[1])
        except Exception as e:  # unparsable model: treat as unknown
            return Result('unknown', solver=solver, secs=secs, raw=out[:400], errors=[repr(e)])
        if len(values) < len(set(get_values)):
            return Result('unknown', solver=solver, secs=secs, raw=out[:400],
                          errors=['incomplete model'])
    return Result(status, values, solver, secs, raw=out[:200])


def check(dag, asserts, negate=None, get_values=(), timeout=30.0, extra_text=(), **kw):
    """asserts: iterable of boolean node ids (hypotheses); negate: boolean node id
    whose negation is asserted (the goal).  Returns Result."""
    sc = Script(dag)
    for a in asserts:
        sc.assert_node(a)
    if negate is not None:
        sc.assert_not(negate)
    for t in extra_text:
        sc.assert_text(t)
    text = sc.render(get_values=get_values)
    return solve_text(text, get_values=get_values, timeout=timeout, **kw), text
