"""C01/K3: `python -m chk.c01_k3_xh <crosshair args>` = `crosshair <args>` after torch/torchtree have been imported.

CrossHair's audit wall also covers imports, and `import torch` spawns ldconfig / probes the temp dir.
Importing the harness (and with it torch + torchtree) first keeps the wall fully engaged for the analysis.
"""
import logging
import sys

if __name__ == '__main__':
    import atexit
    import time

    import chk.c01_k3_harness  # noqa: F401

    atexit.register(lambda: sys.stderr.write(f'C01K3_CPU {time.process_time():.2f}\n'))

    logging.disable(logging.CRITICAL)
    from crosshair.main import main

    sys.argv = ['crosshair'] + sys.argv[1:]
    main()
