"""C17 part 4 (symtorch engine): the restart sequence of the REAL `torchtree.torchtree.main` with one, two and
three `-c/--checkpoint` files.

What is executed: `torchtree.torchtree.main()` itself (argparse on a real `sys.argv`, `argparse.FileType`, `open`,
`remove_comments`, `expand_plates`, the loop over the checkpoint files, `update_parameters`, `process_objects`,
`load_state_dict`) on real files in a scratch directory.  The specification holds several algorithms (Optimizer(s)
and an MCMC whose operators include an HMCOperator with LeapfrogIntegrator, DualAveragingStepSize, AdaptiveStepSize
and MassMatrixAdaptor with FINITE windows that have closed), each writing its own checkpoint through its real
`save_full_state`.

Files transport VALUES: the real files hold the witness values; the only thing replaced is the `json` name inside
torchtree/torchtree.py: its `load` first reads the real file with the real json module (same decoder class), checks
that it equals the witness of the symbolic content kept in memory for that path, and then hands the symbolic content
to main.  Every non-constant float of a checkpoint is a fresh variable r with the hypothesis r == saved term
(chk.c17_resume.Store.leaf), so "what main restored equals what the run had" is a statement the SMT portfolio has to
derive from the file hypotheses.

Rule for several files (read off main(), there is no other documentation): the files are applied in command-line
order; every parameter entry of a file is written into the specification when the file is read and every algorithm
entry replaces an earlier one with the same id.  Hence after the restart sequence
  * EVERY parameter named in ANY file holds the value (dtype, nn flag) recorded in the LAST file that names it,
  * every algorithm has the state recorded in the LAST file that names it (full run-state view + state_dict()),
whatever the order of the files and whether or not the parameter sets of the files overlap.

Counterexamples (solver `sat`, or a concrete difference on the symbolic run) are replayed on plain tensors with real
checkpoint files through the unmodified main(); only a reproduced one is reported.
"""
from __future__ import annotations

import contextlib
import io
import json
import os
import shutil
import sys
import tempfile
import warnings

import torch

from chk import c17_model as M
from chk import c17_resume as R
from torchtree.core.model import CallableModel

TYPE = 'chk.c17_main.Target'


class HarnessError(Exception):
    pass


# ------------------------------------------------------------------------------------------------ the losses
def _uval(q):
    return -sum((0.4 + 0.3 * k) * (v - (1.0 - k)) ** 2 for k, v in enumerate(q)) - 0.3 * q[0] * q[-1]


def _upart(k, q):
    g = -2.0 * (0.4 + 0.3 * k) * (q[k] - (1.0 - k))
    n = len(q)
    if k == 0:
        g -= 0.3 * q[-1]
    if k == n - 1:
        g -= 0.3 * q[0]
    return g


class Target(CallableModel):
    """{"id": .., "type": "chk.c17_main.Target", "parameters": [ids]}: model() = U_id(q), an uninterpreted
    differentiable function of the entries of its parameters (witness / replay interpretation: a coupled quadratic).
    The dictionary of objects main() builds is local to main; from_json keeps a reference to it."""

    dics = []

    def __init__(self, id_, ps):
        super().__init__(id_)
        for i, p in enumerate(ps):
            setattr(self, f'p{i}', p)
        self.ps = ps

    def _call(self, *a, **k):
        from symtorch import SymTensor

        if any(isinstance(p.tensor, SymTensor) for p in self.ps):
            from symtorch import cur, from_ids

            d = cur().dag
            q = torch.cat([p.tensor for p in self.ps], -1)
            name = 'U_' + self.id
            n = q.shape[-1]
            if name not in d.uf_eval:
                d.uf_eval[name] = lambda *v: _uval(v)
                for kk in range(n):
                    d.uf_eval[f'd{kk}~{name}'] = (lambda j: (lambda *v: _upart(j, v)))(kk)
            r = from_ids(torch.tensor(d.uf(name, *q._ids.tolist()), dtype=torch.int64))
            r._rg = any(p.tensor._rg for p in self.ps if isinstance(p.tensor, SymTensor))
            return r
        q = torch.cat([p.tensor.double() for p in self.ps], -1)
        return _uval([q[i] for i in range(q.shape[-1])])

    def _sample_shape(self):
        return torch.Size([])

    @classmethod
    def from_json(cls, data, dic):
        Target.dics.append(dic)
        return cls(data['id'], [dic[i] for i in data['parameters']])


# ------------------------------------------------------------------------------------------- specifications
# witness values of the symbolic inputs (pairwise distinct, away from every default of the specification)
WITNESS = {
    'x0': 0.5, 'x1': 1.5, 'y0': -0.3, 'lr': 0.2, 'lr1': 0.3, 'gamma': 0.5,
    # state the MCMC run is taken to have reached (injected into the real objects before save_full_state)
    'z0': 0.71, 'z1': 1.83, 'w0': -0.47, 'w1': 0.93, 'v0': 2.6, 'sc': 0.61, 'sw': 0.37, 'eps': 0.23, 'm0': 2.0, 'm1': 4.0,
    'dx': -1.25, 'dxb': -0.55, 'dsb': 0.125, 'me0': 0.35, 'me1': 1.45, 'va0': 0.27, 'va1': 0.53,
}
SPEC_INPUTS = ('x0', 'x1', 'y0', 'lr', 'lr1', 'gamma')
Y32_SPEC, Y32_RUN = 0.25, 0.625  # the float32 parameter: concrete (SymTensors are float64), dtype handled by real torch

OPT_SGD = ('torch.optim.SGD', {'momentum': 0.75, 'dampening': 0.25, 'weight_decay': 0.125})
OPT_ADAM = ('torch.optim.Adam', {'betas': [0.75, 0.875], 'eps': 0.0009765625})


def _param(id_, values, **kw):
    return dict({'id': id_, 'type': 'Parameter', 'tensor': list(values)}, **kw)


def _optimizer(id_, algo, params, loss, lr, tmp, sched=None, groups=None, all_=False):
    cls, options = algo
    o = {'id': id_, 'type': 'Optimizer', 'algorithm': cls,
         'options': dict({k: (list(v) if isinstance(v, list) else v) for k, v in options.items()}, lr=lr),
         'maximize': True, 'loss': loss, 'iterations': 2, 'checkpoint': os.path.join(tmp, id_ + '.json'),
         'checkpoint_frequency': 1, 'checkpoint_all': all_, 'parameters': groups if groups is not None else list(params)}
    if sched is not None:
        o['scheduler'] = dict(sched, id=id_ + '.sched', type='Scheduler')
    return o


def _mcmc(tmp, joint, simple, hmc_param):
    """simple: [(operator id, type, parameter id, tuning key, value)]; the HMC operator carries the three adaptors
    with finite windows (the injected counters lie AFTER them: windows that have closed)."""
    ops = [{'id': i, 'type': t, 'parameters': [p], 'weight': 1.0 + k, key: val, 'acceptance_window_length': 3}
           for k, (i, t, p, key, val) in enumerate(simple)]
    if hmc_param is not None:
        ops.append({
            'id': 'hmc', 'type': 'HMCOperator', 'joint': joint, 'parameters': [hmc_param], 'weight': 3.0,
            'integrator': {'id': 'leap', 'type': 'LeapfrogIntegrator', 'steps': 3, 'step_size': 0.1},
            'mass_matrix': _param('mass', [1.0, 1.0]),
            'adaptors': [
                {'id': 'da', 'type': 'DualAveragingStepSize', 'integrator': 'leap', 'mu': 0.4, 'start': 2, 'end': 4},
                {'id': 'ass', 'type': 'AdaptiveStepSize', 'integrator': 'leap', 'start': 1, 'end': 5},
                {'id': 'mma', 'type': 'MassMatrixAdaptor', 'parameters': [hmc_param], 'mass_matrix': 'mass', 'start': 1,
                 'end': 6, 'update_frequency': 2}]})
    return {'id': 'mcmc', 'type': 'MCMC', 'joint': joint, 'operators': ops, 'iterations': 20,
            'checkpoint': os.path.join(tmp, 'mcmc.json'), 'checkpoint_frequency': 1, 'every': 0}


def _target(id_, params):
    return {'id': id_, 'type': TYPE, 'parameters': list(params)}


STEP = {'scheduler': 'torch.optim.lr_scheduler.StepLR', 'step_size': 1}
EXPO = {'scheduler': 'torch.optim.lr_scheduler.ExponentialLR'}

# configuration -> (description, the orders of the files on the command line: quick, thorough)
CONFIGS = {
    'one': ('Optimizer[Adam+StepLR, two param groups] on x,y; one file',
            [('opt',)], [('opt',)]),
    'opt+mcmc': ('Optimizer[SGD] on x,y followed by MCMC[Scaler(z), SlidingWindow(v: float32), HMC(w) with integrator + '
                 'DualAveraging/AdaptiveStepSize/MassMatrix adaptors]; two files, disjoint parameter sets',
                 [('opt', 'mcmc'), ('mcmc', 'opt')], [('opt', 'mcmc'), ('mcmc', 'opt')]),
    'opt+opt': ('two Optimizers on disjoint parameter sets (SGD on x, Adam+ExponentialLR on y); two files',
                [('optx', 'opty'), ('opty', 'optx')], [('optx', 'opty'), ('opty', 'optx')]),
    'three': ('Optimizer[SGD](x), Optimizer[Adam+ExponentialLR](y), MCMC[Scaler(z), SlidingWindow(v), HMC(w)+adaptors]; '
              'three files',
              [('optx', 'opty', 'mcmc'), ('mcmc', 'opty', 'optx'), ('opty', 'mcmc', 'optx')],
              [('optx', 'opty', 'mcmc'), ('mcmc', 'opty', 'optx'), ('opty', 'mcmc', 'optx'), ('optx', 'mcmc', 'opty'),
               ('opty', 'optx', 'mcmc'), ('mcmc', 'optx', 'opty')]),
    'overlap': ('Optimizer[SGD] on x,y (checkpoint_all: opt-1.json, opt-2.json) followed by MCMC[Scaler(y), SlidingWindow(z)]: '
                'y is named in every file with a different value and the Optimizer in two of them; the LAST file decides',
                [('opt-2', 'mcmc'), ('mcmc', 'opt-2'), ('opt-2', 'opt-1'), ('opt-1', 'mcmc', 'opt-2')],
                [('opt-2', 'mcmc'), ('mcmc', 'opt-2'), ('opt-2', 'opt-1'), ('opt-1', 'opt-2'), ('opt-1', 'mcmc', 'opt-2'),
                 ('mcmc', 'opt-2', 'opt-1'), ('opt-2', 'opt-1', 'mcmc')]),
}


def make_spec(config, vals, tmp):
    """The JSON a user would write (vals: name -> float or SymFloat)."""
    x = _param('x', [vals['x0'], vals['x1']])
    y = _param('y', [vals['y0']])
    z = _param('z', [0.11, 0.12])
    w = _param('w', [0.21, 0.22])
    v = _param('v', [Y32_SPEC], dtype='torch.float32')
    simple = [('sc', 'ScalerOperator', 'z', 'scaler', 0.5), ('sw', 'SlidingWindowOperator', 'v', 'width', 0.4)]
    if config == 'one':
        groups = [{'params': ['x']}, {'params': ['y'], 'lr': vals['lr1']}]
        return [x, y, _target('jxy', ['x', 'y']),
                _optimizer('opt', OPT_ADAM, ['x', 'y'], 'jxy', vals['lr'], tmp, dict(STEP, gamma=vals['gamma']), groups)]
    if config == 'opt+mcmc':
        return [x, y, z, w, v, _target('jxy', ['x', 'y']), _optimizer('opt', OPT_SGD, ['x', 'y'], 'jxy', vals['lr'], tmp),
                _target('jzw', ['z', 'w']), _mcmc(tmp, 'jzw', simple, 'w')]
    if config == 'opt+opt':
        return [x, _target('jx', ['x']), _optimizer('optx', OPT_SGD, ['x'], 'jx', vals['lr'], tmp),
                y, _target('jy', ['y']),
                _optimizer('opty', OPT_ADAM, ['y'], 'jy', vals['lr1'], tmp, dict(EXPO, gamma=vals['gamma']))]
    if config == 'three':
        return [x, _target('jx', ['x']), _optimizer('optx', OPT_SGD, ['x'], 'jx', vals['lr'], tmp),
                y, _target('jy', ['y']),
                _optimizer('opty', OPT_ADAM, ['y'], 'jy', vals['lr1'], tmp, dict(EXPO, gamma=vals['gamma'])),
                z, w, v, _target('jzw', ['z', 'w']), _mcmc(tmp, 'jzw', simple, 'w')]
    if config == 'overlap':
        simple = [('sc', 'ScalerOperator', 'y', 'scaler', 0.5), ('sw', 'SlidingWindowOperator', 'z', 'width', 0.4)]
        return [x, y, z, _target('jxy', ['x', 'y']), _optimizer('opt', OPT_SGD, ['x', 'y'], 'jxy', vals['lr'], tmp, all_=True),
                _target('jyz', ['y', 'z']), _mcmc(tmp, 'jyz', simple, None)]
    raise ValueError(config)


def spec_inputs(config):
    names = ['x0', 'x1', 'y0', 'lr']
    if config in ('one', 'opt+opt', 'three'):
        names += ['lr1', 'gamma']
    return names


# --------------------------------------------------------------------------------- populating the run state
def populate(dic, F, tensor):
    """Bring the freshly built algorithms into the state of a run that has been going on: the Optimizers RUN (two real
    iterations, a checkpoint in each); the MCMC state is injected (its proposals are random) and written with its real
    save_full_state.  F(name) -> the value (SymFloat or float) of the input `name`; tensor(list, dtype) builds a tensor."""
    from torchtree.inference.hmc.adaptation import AdaptiveStepSize, DualAveragingStepSize
    from torchtree.inference.hmc.operator import HMCOperator
    from torchtree.inference.mcmc.mcmc import MCMC
    from torchtree.inference.mcmc.operator import SlidingWindowOperator
    from torchtree.optim.optimizer import Optimizer

    for obj in list(dic.values()):
        if isinstance(obj, Optimizer):
            with contextlib.redirect_stdout(io.StringIO()):
                obj.run()
    for obj in list(dic.values()):
        if not isinstance(obj, MCMC):
            continue
        obj._epoch = 7
        for k, op in enumerate(obj._operators):
            op._adapt_count, op._accept, op._reject = 11 + k, 21 + k, 31 + k
            for a in (1, 0, 1)[:k + 1]:
                op._accept_window.append(a)
            if isinstance(op, HMCOperator):
                op._integrator.steps = 4
                op._integrator.step_size = F('eps')
                op._mass_matrix.tensor = tensor([F('m0'), F('m1')], torch.float64)
                for ad in op._adaptors:
                    if isinstance(ad, DualAveragingStepSize):
                        ad._call_counter = 5  # window [2, 4]: closed
                        ad._dual_avg._counter = 3
                        ad._dual_avg.x, ad._dual_avg.x_bar, ad._dual_avg.s_bar = F('dx'), F('dxb'), F('dsb')
                    elif isinstance(ad, AdaptiveStepSize):
                        ad._call_counter, ad._accepted = 6, 2  # window [1, 5]: closed
                    else:
                        ad._call_counter = 9  # window [1, 6]: closed
                        e = ad.variance_estimator
                        e.samples = 8
                        e._mean = tensor([F('me0'), F('me1')], torch.float64)
                        e._variance = tensor([F('va0'), F('va1')], torch.float64)
            elif isinstance(op, SlidingWindowOperator):
                op._width = F('sw')
            else:
                op._scaler = F('sc')
        for name, vals in (('z', ('z0', 'z1')), ('w', ('w0', 'w1'))):
            if name in dic and any(p is dic[name] for p in obj.parameters):
                dic[name].tensor = tensor([F(n) for n in vals], torch.float64)
        if 'y' in dic and any(p is dic['y'] for p in obj.parameters):
            dic['y'].tensor = tensor([F('v0')], torch.float64)  # the MCMC moved y away from where the Optimizer left it
        if 'v' in dic and any(p is dic['v'] for p in obj.parameters):
            dic['v'].tensor = torch.tensor([Y32_RUN], dtype=torch.float32)
        obj.save_full_state()


# ------------------------------------------------------------------------------------------ files and main()
class Files:
    """The checkpoint / specification files of one scenario: real files with the witness values on disk and, per path,
    the symbolic content (`content`) and the state the writing object had (`orig`, no file variables)."""

    def __init__(self, trace, hyps):
        self.inner = R.Store(trace, hyps, 'file')
        self.content = {}
        self.orig = {}
        self.spec = {}  # path -> callable returning a fresh copy of the symbolic specification
        self.real_save = None

    def save(self, file_name, parameters, safely=True, overwrite=False):
        path = os.path.abspath(file_name)
        self.real_save(file_name, _plain(parameters), safely, overwrite)  # the real writer, real file (witness values)
        self.inner.save(path, parameters)
        self.content[path] = self.inner.files[path]
        self.orig[path] = M.json_model(parameters, M._ENC.default, M._DEC.object_hook)

    def read(self, path):
        """the same file read once more"""
        return M.json_model(self.content[path], M._ENC.default, M._DEC.object_hook)


def _plain(x):
    """witness projection of a decoded JSON value"""
    from symtorch import val_of
    from torchtree.core.parameter import Parameter

    if isinstance(x, torch.Tensor):
        v = val_of(x).detach()
        return torch.nn.Parameter(v) if isinstance(x, torch.nn.Parameter) else v
    if isinstance(x, Parameter):
        return Parameter(x.id, _plain(x.tensor))
    if isinstance(x, float):
        return float(x)
    if isinstance(x, (list, tuple)):
        return [_plain(v) for v in x]
    if isinstance(x, dict):
        return {k: _plain(v) for k, v in x.items()}
    return x


def _differs(a, b, path):
    """like chk.c17_model.diff, but floats / tensor entries may differ in the last bits: the witness of a DAG node is
    the node evaluated in Python, the file holds what torch computed (the engine cross-checks the two on every
    operation with the same tolerance)"""
    if isinstance(a, torch.Tensor) and isinstance(b, torch.Tensor):
        if a.dtype != b.dtype or a.shape != b.shape or isinstance(a, torch.nn.Parameter) != isinstance(b, torch.nn.Parameter):
            return M.diff(a, b, path)
        if a.is_floating_point():
            return '' if torch.allclose(a, b, rtol=1e-9, atol=1e-12, equal_nan=True) else path + ':values'
        return M.diff(a, b, path)
    if isinstance(a, float) and isinstance(b, float):
        return '' if (a == b or abs(a - b) <= 1e-12 + 1e-9 * abs(a)) else path + ':value'
    if isinstance(a, list) and isinstance(b, list) and len(a) == len(b):
        for i, (x, y) in enumerate(zip(a, b)):
            dd = _differs(x, y, f'{path}[{i}]')
            if dd:
                return dd
        return ''
    if isinstance(a, dict) and isinstance(b, dict) and list(a.keys()) == list(b.keys()):
        for k in a:
            dd = _differs(a[k], b[k], f'{path}[{k}]')
            if dd:
                return dd
        return ''
    return M.diff(a, b, path)


class JsonShim:
    """stands for the name `json` inside torchtree/torchtree.py"""

    def __init__(self, files):
        self.files = files
        self.reads = []

    def __getattr__(self, k):
        return getattr(json, k)

    def load(self, fp, *a, **kw):
        real = json.load(fp, *a, **kw)
        path = os.path.abspath(getattr(fp, 'name', ''))
        self.reads.append(path)
        f = self.files
        if path in f.spec:
            sym = f.spec[path]()
        elif path in f.content:
            sym = f.read(path)
        else:
            return real
        dd = _differs(real, _plain(sym), 'file')
        if dd:
            raise HarnessError(f'the real file {os.path.basename(path)} differs from the witness of its symbolic content: {dd}')
        return sym


@contextlib.contextmanager
def patched(files):
    """save_parameters of the two algorithm modules -> Files.save (which calls the real writer); json of torchtree.py ->
    JsonShim.  files None: nothing is replaced (replays)."""
    import torchtree.inference.mcmc.mcmc as MC
    import torchtree.optim.optimizer as O
    import torchtree.torchtree as TT

    if files is None:
        yield None
        return
    saved = (O.save_parameters, MC.save_parameters, TT.json)
    files.real_save = saved[0]
    shim = JsonShim(files)
    O.save_parameters = MC.save_parameters = files.save
    TT.json = shim
    try:
        yield shim
    finally:
        O.save_parameters, MC.save_parameters, TT.json = saved


def call_main(spec_path, checkpoints, dry=True):
    """torchtree.torchtree.main() with a real command line.  -> the dictionary of objects main built."""
    import torchtree.torchtree as TT

    argv = ['torchtree', spec_path]
    for c in checkpoints:
        argv += ['-c', c]
    if dry:
        argv.append('--dry')
    old_argv, old_dtype = sys.argv, torch.get_default_dtype()
    n = len(Target.dics)
    sys.argv = argv
    try:
        with contextlib.redirect_stdout(io.StringIO()), warnings.catch_warnings():
            warnings.simplefilter('ignore')
            TT.main()
    finally:
        sys.argv = old_argv
        torch.set_default_dtype(old_dtype)
    if len(Target.dics) == n:
        raise HarnessError('main() built no Target: the specification was not processed')
    dic = Target.dics[-1]
    del Target.dics[n:]
    return dic


def file_of(tmp, name):
    return os.path.join(tmp, name + '.json')


def expected(order, read):
    """Rule: files in command-line order, the last file naming an id decides.  read(name) -> decoded content.
    -> ({parameter id: (entry, position)}, {algorithm id: (entry, position)})"""
    params, algos = {}, {}
    for pos, name in enumerate(order):
        for entry in read(name):
            if entry['type'] in ('torchtree.Parameter', 'Parameter'):
                params[entry['id']] = (entry, pos)
            else:
                algos[entry['id']] = (entry, pos)
    return params, algos


def latest_file(obj):
    """name (without .json) of the file holding the latest state the live object wrote"""
    base = os.path.basename(obj.checkpoint)[:-5]
    return f'{base}-{obj._epoch - 1}' if getattr(obj, 'checkpoint_all', False) else base


def position(pos, n):
    return 'only' if n == 1 else 'first' if pos == 0 else 'last' if pos == n - 1 else 'middle'


def state_items(obj):
    """run state of an algorithm as {path: value}: the attribute view of chk.c17_model (MCMC: every operator,
    integrator, adaptor, mass matrices) and state_dict()"""
    from torchtree.inference.mcmc.mcmc import MCMC

    out = {}
    if isinstance(obj, MCMC):
        seen = {}
        for cls, path, owner, attr in M.view(obj):
            key = f'{cls}.{path}'
            seen[key] = seen.get(key, 0) + 1
            out[f'{key}#{seen[key]}'] = getattr(owner, attr)
    out['state_dict'] = M.json_model(obj.state_dict(), M._ENC.default, M._DEC.object_hook)
    return out


# ------------------------------------------------------------------------------------------- symbolic scenario
def symbolic_scenario(config, orders, tmp):
    """Must run inside tracing().  -> dict(V, domain, hyps, pcs, goals, problems).
    goals: (label, node, kind, order, entries); problems: (order, text) found concretely on the symbolic run."""
    from symtorch.tensor import cur, mkfloat

    R.install_handlers()
    t = cur()
    d = t.dag
    V = {}

    def F(name):
        if name not in V:
            V[name] = d.var(name, WITNESS[name])
        return mkfloat(V[name])

    def tensor(values, dtype):
        return torch.tensor(list(values), dtype=dtype)

    vals = {n: (F(n) if n in spec_inputs(config) else WITNESS[n]) for n in SPEC_INPUTS}
    domain = [d.lt(0, V['lr'])]
    if 'lr1' in V:
        domain += [d.lt(0, V['lr1']), d.lt(0, V['gamma']), d.lt(V['gamma'], 1)]
    hyps, problems, goals = [], [], []
    files = Files(t, hyps)
    spec_path = os.path.join(tmp, 'spec.json')
    with open(spec_path, 'w') as fp:
        json.dump(_plain(make_spec(config, vals, tmp)), fp)  # the file holds the witness
    files.spec[os.path.abspath(spec_path)] = lambda: make_spec(config, vals, tmp)
    with patched(files) as shim:
        first = call_main(spec_path, [])  # the first launch: builds everything from the specification
        initial = {i: o.tensor.tolist() for i, o in first.items() if type(o).__name__ == 'Parameter'}
        populate(first, F, tensor)
        domain += [d.lt(0, V[n]) for n in ('eps', 'm0', 'm1', 'sc', 'sw') if n in V]
        written = {os.path.basename(p)[:-5]: p for p in files.content}
        for order in orders:
            missing = [n for n in order if n not in written]
            if missing:
                problems.append((order, f'no checkpoint file {missing} was written'))
                continue
            nread = len(shim.reads)
            try:
                dic = call_main(spec_path, [written[n] for n in order])
            except HarnessError:
                raise
            except Exception as e:
                problems.append((order, f'restart-raises:{type(e).__name__}:{e}'))
                continue
            if shim.reads[nread:] != [os.path.abspath(spec_path)] + [written[n] for n in order]:
                problems.append((order, f'main read {[os.path.basename(p) for p in shim.reads[nread:]]}'))
            # what the run had when the files were written, by the rule "the last file naming an id decides"
            params, algos = expected(order, lambda n: files.orig[written[n]])
            tag = ' '.join('-c ' + n for n in order)
            eqs, prob, twin = [], [], []
            for pid, (entry, pos) in params.items():
                where = f'parameter[{pid}]@{position(pos, len(order))}'
                if pid not in dic:
                    prob.append(where + ':missing')
                    continue
                got = dic[pid].tensor
                R.compare(d, entry['tensor'], got.tolist(), where, eqs, prob)
                if str(got.dtype) != entry['dtype']:
                    prob.append(where + ':dtype')
                if isinstance(got, torch.nn.Parameter) != bool(entry.get('nn', False)):
                    prob.append(where + ':nn-flag')
                R.compare(d, initial[pid], got.tolist(), where, twin, [])
            goals.append((f'{tag}: every parameter named in any file holds the value of the last file naming it '
                          f'({len(eqs)} symbolic entries)', d.and_(*[e for _, e in eqs]) if eqs else d.TRUE, 'parameters',
                          order, [p for p, _ in eqs]))
            if twin and not any(g[2] == 'twin' for g in goals):
                goals.append((f'{tag}: TWIN (must fail) the parameters still hold the values of the specification',
                              d.and_(*[e for _, e in twin]), 'twin', order, [p for p, _ in twin]))
            for aid, (entry, pos) in algos.items():
                where = f'{entry["type"]}[{aid}]@{position(pos, len(order))}'
                if aid not in dic:
                    prob.append(where + ':missing')
                    continue
                eqs2 = []
                # (a) state_dict() of the restarted algorithm against the state the writer had
                R.compare(d, R.strip(entry), M.json_model(dic[aid].state_dict(), M._ENC.default, M._DEC.object_hook),
                          where + ':state_dict', eqs2, prob)
                # (b) attribute view against the live object that wrote the file, when that file is its latest state
                if order[pos] == latest_file(first[aid]):
                    a, b = state_items(first[aid]), state_items(dic[aid])
                    for k in a:
                        if k == 'state_dict':
                            continue
                        if k not in b:
                            prob.append(f'{where}:{k}:missing')
                        else:
                            R.compare(d, a[k], b[k], f'{where}:{k}', eqs2, prob)
                goals.append((f'{tag}: {where} has the state of the last file naming it ({len(eqs2)} symbolic entries)',
                              d.and_(*[e for _, e in eqs2]) if eqs2 else d.TRUE, 'state', order, [p for p, _ in eqs2]))
            for p in prob:
                problems.append((order, p))
        if config in RUN_CONFIGS:
            _run_phase(d, config, files, first, written, spec_path, goals, problems)
    return {'V': V, 'domain': domain, 'hyps': hyps, 'pcs': list(t.pcs), 'goals': goals, 'problems': problems,
            'nfiles': len(files.content)}


# configurations whose algorithms are all deterministic: the restart is also executed WITHOUT --dry
RUN_CONFIGS = {'one': ('opt',), 'opt+opt': ('optx', 'opty')}
RUN = '--run'
NOT_STATE = ('id', 'type', 'iteration')


def _run_phase(d, config, files, first, written, spec_path, goals, problems):
    """main() without --dry: every algorithm is restored and then RUN by main itself (each Optimizer was interrupted in
    its last iteration, which the restarted run repeats: one further update and one checkpoint each).  The live
    objects of the first launch then perform that same update; the files written by the two must agree (aligned by the
    number of updates; the iteration label is not compared, see the resume clause)."""
    from torchtree.optim.optimizer import Optimizer

    names = RUN_CONFIGS[config]
    order = (RUN,) + names
    before = {n: files.orig[written[n]] for n in names}
    try:
        call_main(spec_path, [written[n] for n in names], dry=False)
    except HarnessError:
        raise
    except Exception as e:
        problems.append((order, f'run-after-restart-raises:{type(e).__name__}:{e}'))
        return
    resumed = {n: files.orig[written[n]] for n in names}
    for n in names:
        if resumed[n] is before[n]:
            problems.append((order, f'{n}: the run after the restart wrote no checkpoint'))
            return
    for obj in list(first.values()):
        if isinstance(obj, Optimizer):
            obj.iterations += 1
            with contextlib.redirect_stdout(io.StringIO()):
                obj.run()
    eqs, prob, twin = [], [], []
    for n in names:
        f, r = files.orig[written[n]], resumed[n]
        R.compare(d, R.params_of(f), R.params_of(r), f'{n}:parameters', eqs, prob)
        R.compare(d, R.strip(f[0], NOT_STATE), R.strip(r[0], NOT_STATE), f'{n}:state', eqs, prob)
        R.compare(d, R.params_of(before[n]), R.params_of(r), f'{n}:parameters', twin, [])
    tag = ' '.join('-c ' + n for n in names)
    goals.append((f'{tag} (no --dry): TWIN (must fail) the run after the restart does not move the parameters',
                  d.and_(*[e for _, e in twin]) if twin else d.TRUE, 'twin', order, [p for p, _ in twin]))
    goals.append((f'{tag} (no --dry): parameters, optimiser and scheduler state written by the run main starts after the '
                  f'restart == those of the uninterrupted objects after the same number of updates ({len(eqs)} symbolic '
                  f'entries)', d.and_(*[e for _, e in eqs]) if eqs else d.TRUE, 'run', order, [p for p, _ in eqs]))
    for p in prob:
        problems.append((order, 'run-after-restart:' + p))


def replay_run(config, values):
    """-> (reproduced, signature, detail): real main without --dry, real files"""
    from torchtree.optim.optimizer import Optimizer

    vals = dict(WITNESS)
    vals.update({k: float(v) for k, v in (values or {}).items() if k in WITNESS})
    names = RUN_CONFIGS[config]
    sig = 'torchtree.main:run-after-restart-differs-from-uninterrupted-run'
    tmp = tempfile.mkdtemp(prefix='c17main')
    old = torch.get_default_dtype()
    try:
        spec_path = os.path.join(tmp, 'spec.json')
        with open(spec_path, 'w') as fp:
            json.dump(make_spec(config, vals, tmp), fp)
        first = call_main(spec_path, [])
        torch.set_default_dtype(torch.float64)
        with warnings.catch_warnings():
            warnings.simplefilter('ignore')
            populate(first, lambda n: vals[n], lambda v, dt: torch.tensor(list(v), dtype=dt))

        def read(n):
            with open(file_of(tmp, n)) as fp:
                return json.load(fp)

        before = {n: read(n) for n in names}
        try:
            call_main(spec_path, [file_of(tmp, n) for n in names], dry=False)
        except Exception as e:
            return True, f'torchtree.main:run-after-restart-raises-{type(e).__name__}', repr(e)
        resumed = {n: read(n) for n in names}
        torch.set_default_dtype(torch.float64)
        for obj in list(first.values()):
            if isinstance(obj, Optimizer):
                obj.iterations += 1
                with contextlib.redirect_stdout(io.StringIO()), warnings.catch_warnings():
                    warnings.simplefilter('ignore')
                    obj.run()
        for n in names:
            f, r = read(n), resumed[n]
            if r == before[n]:
                return True, sig, f'{n}: the run after the restart left the checkpoint of the interrupted run unchanged'
            dd = M.diff(R.params_of(f), R.params_of(r), f'{n}:parameters') or \
                M.diff(R.strip(f[0], NOT_STATE), R.strip(r[0], NOT_STATE), f'{n}:state')
            if dd:
                return True, sig, (f'{dd}: uninterrupted {R.params_of(f)} / after the restart {R.params_of(r)} '
                                   f'(checkpoint restarted from: {R.params_of(before[n])})')
        return False, '', 'the run after the restart writes what the uninterrupted objects write'
    finally:
        torch.set_default_dtype(old)
        shutil.rmtree(tmp, ignore_errors=True)


# ------------------------------------------------------------------------------------------ concrete replay
def replay(config, order, values):
    """The same scenario on the unmodified code with plain tensors and real files only.
    -> (reproduced, signature, detail)"""
    from torchtree.core.utils import TensorDecoder

    if order and order[0] == RUN:
        return replay_run(config, values)

    vals = dict(WITNESS)
    vals.update({k: float(v) for k, v in (values or {}).items() if k in WITNESS})
    order = tuple(order)
    tmp = tempfile.mkdtemp(prefix='c17main')
    try:
        spec_path = os.path.join(tmp, 'spec.json')
        with open(spec_path, 'w') as fp:
            json.dump(make_spec(config, vals, tmp), fp)
        first = call_main(spec_path, [])
        old = torch.get_default_dtype()
        torch.set_default_dtype(torch.float64)
        try:
            with warnings.catch_warnings():
                warnings.simplefilter('ignore')
                populate(first, lambda n: vals[n], lambda v, dt: torch.tensor(list(v), dtype=dt))
        finally:
            torch.set_default_dtype(old)
        for n in order:
            if not os.path.exists(file_of(tmp, n)):
                return True, f'torchtree.main:checkpoint-file-{n}-not-written', 'no file'

        def read(n):
            with open(file_of(tmp, n)) as fp:
                return json.load(fp, cls=TensorDecoder)

        try:
            dic = call_main(spec_path, [file_of(tmp, n) for n in order])
        except Exception as e:
            who = M._raiser_class(e, 'main')
            return True, f'torchtree.main:restart-raises-{type(e).__name__}[{who}]', f'restart with {order} raises {e!r}'
        params, algos = expected(order, read)
        n = len(order)
        found = []
        multi = {}
        for name in order:
            for entry in read(name):
                multi[entry['id']] = multi.get(entry['id'], 0) + 1
        for pid, (entry, pos) in params.items():
            which = ('named-in-several-files-last-file-does-not-decide' if multi[pid] > 1 else
                     f'of-the-{position(pos, n)}-of-{n}-checkpoint-files-not-restored')
            if pid not in dic:
                found.append((f'torchtree.main:parameter-{which}', f'{pid} missing'))
                continue
            want = torch.tensor(entry['tensor'], dtype=getattr(torch, entry['dtype'].split('.')[-1]))
            dd = M.diff(want, dic[pid].tensor.detach(), f'parameter[{pid}]')
            if dd:
                kind = dd.split(':')[-1]
                found.append((f'torchtree.main:parameter-{which}' + ('' if kind == 'values' else f':{kind}'),
                              f'{pid}: file {order[pos]} has {entry["tensor"]} ({entry["dtype"]}), after the restart '
                              f'{dic[pid].tensor.tolist()} ({dic[pid].tensor.dtype})'))
        for aid, (entry, pos) in algos.items():
            which = ('named-in-several-files-last-file-does-not-decide' if multi[aid] > 1 else
                     f'of-the-{position(pos, n)}-of-{n}-checkpoint-files-not-restored')
            if aid not in dic:
                found.append((f'torchtree.main:{entry["type"]}-state-{which}', f'{aid} missing'))
                continue
            now = M.checkpoint_real(dic[aid].state_dict())
            dd = M.diff(R.strip(entry), now, 'state_dict')
            if not dd and order[pos] == latest_file(first[aid]):
                a, b = state_items(first[aid]), state_items(dic[aid])
                for k in a:
                    if k != 'state_dict':
                        dd = M.diff(a[k], b.get(k), k)
                        if dd:
                            break
            if dd:
                found.append((f'torchtree.main:{entry["type"]}-state-{which}:{_stable(dd)}',
                              f'{aid} (file {order[pos]}): {dd}'))
        if not found:
            return False, '', f'every parameter and every algorithm restored with {order} at {vals}'
        return True, found[0][0], '; '.join(f'{s} ({x})' for s, x in found[:4])
    finally:
        shutil.rmtree(tmp, ignore_errors=True)


def _stable(dd):
    """a field name without indices / values: 'state_dict[operators][2][integrator][step_size]:value' -> 'integrator.step_size'"""
    path, _, why = dd.rpartition(':')
    parts = [p for p in path.replace(']', '').split('[') if p and not p.isdigit()]
    parts = [p.split('#')[0] for p in parts if p not in ('state_dict', 'operators', 'adaptors')]
    return '.'.join(parts[-2:]) + ('' if why in ('value', 'values') else ':' + why)


# ------------------------------------------------------------------------------------------------ the task
BOUNDS_TEXT = (
    'symtorch: the real torchtree.torchtree.main (argparse, real files, update_parameters, process_objects, '
    'load_state_dict; --dry) restarted with 1, 2 and 3 -c files; configurations {configs}; Optimizers reach their state by '
    'two real iterations (real torch.optim steps, uninterpreted loss), the MCMC state (iteration, counters, acceptance '
    'windows, tuning values, integrator, dual averaging, Welford estimator, mass matrix, parameter values) is injected '
    'with pairwise distinct non-default values and written by the real save_full_state; adaptor windows are finite and '
    'closed; symbolic: initial parameter values, learning rates, scheduler decay, every float of the MCMC state and of its '
    'parameters; concrete: counters, one float32 parameter (dtype check); orders of the files: {orders}')


def _cmdline(order):
    if order and order[0] == RUN:
        return ' '.join('-c ' + n + '.json' for n in order[1:]) + ' (without --dry)'
    return ' '.join('-c ' + n + '.json' for n in order) + ' --dry'


def describe(sig):
    if 'last-file-does-not-decide' in sig:
        return ('restart with several -c files that name the same parameter / algorithm: the files are applied in '
                'command-line order, so the last file naming an id decides; the restarted run holds something else')
    if ':parameter-' in sig:
        return ('restart with several -c files: a parameter saved in one of the checkpoint files does not hold the saved '
                'value after the restart sequence of torchtree.main (the algorithm state of that file may be loaded, its '
                'parameters are not)')
    if 'run-after-restart' in sig:
        return ('torchtree.main without --dry: the run main starts after restoring the checkpoints does not continue the '
                'interrupted run (state loaded after / not before run(), or not at all)')
    if '-state-' in sig:
        return ('restart through torchtree.main: an algorithm does not have the state recorded in its checkpoint file '
                'after the restart sequence (a later load overwrote it, or it was never loaded)')
    return sig


def main_task(task, tr):
    """task = ('main', config, orders, timeout)"""
    import time

    from symtorch.explore import prove
    from symtorch.tensor import tracing
    import torchtree.torchtree as TT
    from torchtree.core.parameter import Parameter
    from torchtree.core.utils import TensorDecoder, update_parameters
    from torchtree.inference.hmc.adaptation import AdaptiveStepSize, DualAveragingStepSize, MassMatrixAdaptor
    from torchtree.inference.hmc.integrator import LeapfrogIntegrator
    from torchtree.inference.hmc.operator import HMCOperator
    from torchtree.inference.mcmc.mcmc import MCMC
    from torchtree.inference.mcmc.operator import MCMCOperator
    from torchtree.optim.lr_scheduler import Scheduler
    from torchtree.optim.optimizer import Optimizer

    _, config, orders, timeout = task
    orders = [tuple(o) for o in orders]
    label = f'main[{config}]'
    tr.fn(TT.main, update_parameters, Parameter.from_json, TensorDecoder.object_hook, Optimizer.from_json, Optimizer.run,
          Optimizer.save_full_state, Optimizer.state_dict, Optimizer.load_state_dict, Scheduler.load_state_dict,
          MCMC.from_json, MCMC.save_full_state, MCMC.state_dict, MCMC.load_state_dict, MCMCOperator.load_state_dict,
          HMCOperator.from_json, HMCOperator._state_dict, HMCOperator._load_state_dict, HMCOperator.update_mass_matrices,
          LeapfrogIntegrator.load_state_dict, DualAveragingStepSize.load_state_dict, AdaptiveStepSize.load_state_dict,
          MassMatrixAdaptor.load_state_dict, M.json_model)
    tr.stubs |= {
        'main: the name `json` inside torchtree/torchtree.py is replaced by chk.c17_main.JsonShim: load() reads the real '
        'file with the real json module (same decoder class), checks it against the witness of the symbolic content '
        'kept for that path and returns the symbolic content; save_parameters of optim/optimizer.py and '
        'inference/mcmc/mcmc.py is wrapped: the real writer writes the real file, the symbolic content goes through '
        'chk.c17_model.json_model and every non-constant float becomes a fresh variable constrained to the saved value',
        'main: the loss objects of the specification are chk.c17_main.Target (an uninterpreted differentiable function '
        'of its parameters); their from_json keeps a reference to the dictionary of objects main() builds',
    }
    tr.assumptions |= {
        'main: rule for several -c files (read off main): files are applied in command-line order; for an id (parameter '
        'or algorithm) named in several files the LAST file on the command line decides',
        'main: the restart sequence is executed with --dry (everything main does before the first run()); for the '
        'configurations whose algorithms are all deterministic (' + ', '.join(RUN_CONFIGS) + ') main is also executed '
        'without --dry and the checkpoints written by the runs it starts are compared with the uninterrupted objects '
        '(longer resumed trajectories: resume clause); the MCMC state is injected, not reached by a run (random '
        'proposals), Optimizer states are reached by real iterations',
    }
    t0 = time.time()
    tmp = tempfile.mkdtemp(prefix='c17main')
    try:
        with tracing() as t:
            d = t.dag
            try:
                out = symbolic_scenario(config, orders, tmp)
            except Exception as e:
                import traceback

                tr.inconc(f'{label}: symbolic execution failed: {type(e).__name__}: {e} {traceback.format_exc()[-700:]}')
                return
            tr.witness_runs += 1 + len(orders)
            tr.ops_checked += t.nchecked
            tr.regions += 1
            if t.concretized:
                tr.inconc(f'{label}: concretised {t.concretized[:3]}')
                return
            V = out['V']
            hyps = out['domain'] + out['pcs'] + out['hyps']
            if not all(bool(d.vals[h]) for h in hyps):
                tr.inconc(f'{label}: the witness does not satisfy the hypotheses (vacuous)')
                return
            if out['pcs']:
                st, r, _ = prove(d, out['domain'], d.and_(*out['pcs']), timeout=timeout, tr=tr, label=label + ' coverage',
                                 parallel=True)
                if st != 'proved':
                    tr.inconc(f'{label}: path conditions {[d.to_str(p, 4) for p in out["pcs"]][:6]} do not follow from '
                              f'the domain ({st}): further regions would have to be explored')
                    return
            tr.closures += 1
            witness = {n: d.vals[i] for n, i in V.items()}
            dead = set()

            def judge(order, vals_list, glabel, why):
                detail = ''
                for vals in vals_list:
                    ok, sig, detail = replay(config, order, vals)
                    tr.witness_runs += 1
                    if ok:
                        tr.violation(sig, f'{describe(sig)} [{label}, torchtree {_cmdline(order)}; '
                                          f'{why}: {glabel}; real run with real files: {detail[:600]}]',
                                     {'kind': 'main', 'config': config, 'order': list(order), 'values': vals,
                                      'signature': sig})
                        tr.sample({'case': label, 'order': list(order), 'counterexample': vals, 'signature': sig,
                                   'replayed_on_real_files': True})
                        dead.add(order)
                        return True
                tr.inconc(f'{label}: {why} for "{glabel}" ({order}) but the real main with real files shows no difference '
                          f'({detail[:200]})')
                dead.add(order)
                return False

            for order, text in out['problems']:
                if order not in dead:
                    judge(order, [witness], text, 'concrete difference on the symbolic run')
            for glabel, node, kind, order, paths in out['goals']:
                if kind == 'twin':
                    st, _, _ = R.decide(d, hyps, node, V, tr, f'{label} {glabel}', timeout, exact=False)
                    if st != 'refuted' or bool(d.vals[node]):
                        tr.inconc(f'{label}: reachability twin "{glabel}" was not refuted ({st}): proofs of the other '
                                  f'goals could be vacuous')
                        return
                    continue
                if order in dead:
                    continue
                st, vals, how = R.decide(d, hyps, node, V, tr, f'{label} {glabel}', timeout)
                if st == 'proved':
                    continue
                if st == 'refuted':
                    judge(order, [vals, witness], glabel, 'solver counterexample')
                else:
                    judge(order, [witness], glabel, 'solver undecided, witness tried')
            tr.sample({'case': label, 'what': CONFIGS[config][0], 'orders': [list(o) for o in orders],
                       'goals': [g[0] for g in out['goals']][:4], 'file_variables': len(out['hyps']),
                       'files': out['nfiles'], 'dag_nodes': len(d.ops), 'seconds': round(time.time() - t0, 1)}, limit=2)
    finally:
        shutil.rmtree(tmp, ignore_errors=True)
