"""C06 dates: `python -m chk.c06_dates_xh <crosshair args>` = `crosshair <args>` after torch, torchtree and the
harness module (which parses the enumerated newick strings with the real code and builds the real
TimeTreeModel objects) have been imported - `import torch` spawns ldconfig / probes the temp dir, which
CrossHair's audit wall rejects.  The wall stays engaged for the analysis itself.

Float model: CrossHair 0.0.110 represents a float either as a z3 Real (98 %) or as an IEEE-754 double
(2 %, z3 FP theory) and forks on that choice the first time a float meets a symbolic value - including
`symbolic_int == 0.0`.  The FP branch answers `unknown` on to_fp(to_real(int)) terms, so no condition that
touches a float can be "Confirmed over all paths".  With C06D_REALS=1 (default) the FP alternative is
removed: floats are exact reals.  On the harness domain (dates = multiples of 0.25 below 1e6, or ints)
every float64 operation of the analysed code is exact, so the real model is faithful there.
"""
import logging
import os
import sys

if __name__ == '__main__':
    os.environ['C06D_ACTIVE'] = '1'
    import chk.c06_dates_harness  # noqa: F401

    logging.disable(logging.CRITICAL)
    if os.environ.get('C06D_REALS', '1') == '1':
        import crosshair.libimpl.builtinslib as _B

        _B._PYTYPE_TO_WRAPPER_TYPE[float] = ((_B.RealBasedSymbolicFloat, 1.0),)
    from crosshair.main import main

    sys.argv = ['crosshair'] + sys.argv[1:]
    main()
