"""C06 dates: `python -m chk.c06_dates_xh <crosshair args>` = `crosshair <args>` after torch, torchtree and the
harness module (which parses the enumerated newick strings with the real code and builds the real
TimeTreeModel objects) have been imported - `import torch` spawns ldconfig / probes the temp dir, which
CrossHair's audit wall rejects.  The wall stays engaged for the analysis itself.

Float model.  CrossHair 0.0.110 represents a symbolic float either as a z3 Real (RealBasedSymbolicFloat,
chosen with 98 %) or as an IEEE-754 double in z3's FP theory (PreciseIeeeSymbolicFloat, 2 %); it forks on that
choice the first time a float meets a symbolic value (even `symbolic_int == 0.0`) and it caps the verdict of
every path that created a Real-based float at "unknown".  Measured on update_leaf_heights with three dates:
the FP branch does not terminate in 4 minutes (z3 `unknown` on max/min/subtract over doubles), the Real
branch finishes in 3 s.  So no condition that touches a float can ever be "Confirmed over all paths" with the
stock settings.  This launcher therefore (C06D_REALS=1, the default)
    * removes the FP alternative: a symbolic float is a real number (inf / nan stay separate concrete cases),
    * switches off the cap: "Confirmed over all paths" then means: confirmed over the REALS.
That is the same reading as everywhere else in /verif (vlib.core.REAL_NOTE): nothing is claimed about
rounding.  Where the dates are multiples of 0.25 below 2**50 (or ints) every float64 operation of the code
under analysis (max, min, ==, one subtraction) is exact, so on such inputs the real model IS float64.
"""
import logging
import os
import sys

if __name__ == '__main__':
    os.environ['C06D_ACTIVE'] = '1'
    import chk.c06_dates_harness  # noqa: F401

    logging.disable(logging.CRITICAL)
    if os.environ.get('C06D_REALS', '1') == '1':
        import crosshair.libimpl.builtinslib as _B
        from crosshair.statespace import StateSpace as _S

        _B._PYTYPE_TO_WRAPPER_TYPE[float] = ((_B.RealBasedSymbolicFloat, 1.0),)
        _S.cap_result_at_unknown = lambda self: None
    from crosshair.main import main

    sys.argv = ['crosshair'] + sys.argv[1:]
    main()
