"""C13 target binding, tiny registered classes, loader mirror and structural description.

Everything the CrossHair harnesses (chk/c13_harness.py) and the concrete replays (checks/C13.py)
share.  The code under test is the *real* torchtree.core.utils (process_object, process_objects,
remove_comments, expand_plates, register_class/get_class) and JSONSerializable.from_json_safe.

Sensitivity testing without touching /repo: if the environment variable C13_UTILS_MODULE names a
python file, that file is loaded *as* ``torchtree.core.utils`` before torchtree is imported, so the
whole library (Parameter, Distribution, from_json_safe, ...) consistently uses it.
"""
from __future__ import annotations

import importlib.util
import os
import sys
from collections.abc import MutableMapping

OVERRIDE = os.environ.get('C13_UTILS_MODULE') or None
if OVERRIDE and 'torchtree.core.utils' not in sys.modules:
    _spec = importlib.util.spec_from_file_location('torchtree.core.utils', OVERRIDE)
    _mod = importlib.util.module_from_spec(_spec)
    sys.modules['torchtree.core.utils'] = _mod
    _spec.loader.exec_module(_mod)

import torch  # noqa: E402
from torchtree.core import utils as U  # noqa: E402
from torchtree.core.parameter import Parameter, TransformedParameter  # noqa: E402
from torchtree.core.serializable import JSONSerializable  # noqa: E402
from torchtree.distributions.distributions import Distribution  # noqa: E402
from torchtree.distributions.joint_distribution import JointDistributionModel  # noqa: E402
from torchtree.evolution.taxa import Taxa, Taxon  # noqa: E402
from torchtree.evolution.tree_model_flexible import FlexibleTimeTreeModel  # noqa: E402

MAXLEN = int(os.environ.get('C13_MAXLEN', '2'))
SMALL_DOMAIN = ('p', 'q', 'pq')  # ids that become attribute names (Container members): concretised
KEY_DOMAIN = ('', 'a', 'x', 'id', 'ignore')  # suffixes of `_`-comment keys: concretised (dict keys)
BRACE_ALPHA = '{:012'


# ------------------------------------------------------------------ tiny registered classes
class C13N(JSONSerializable):
    """Minimal model class: one optional child `x` and an optional list `children`, parsed the way
    the real classes do it (process_object / process_objects on the sub-specifications)."""

    KNOWN_KEYS = ('id', 'type', 'x', 'children', 'ignore')

    def __init__(self, id_, x, children, extra=0):
        self.id = id_
        self.x = x
        self.children = children
        self.payload = 0
        self.extra = extra  # number of keys from_json was handed beyond KNOWN_KEYS (comment keys that survived)

    @classmethod
    def from_json(cls, data, dic):
        x = U.process_object(data['x'], dic) if 'x' in data else None
        children = U.process_objects(data['children'], dic) if 'children' in data else []
        extra = len([k for k in data if k not in cls.KNOWN_KEYS])
        return cls(data['id'], x, children, extra)


class C13Picky(JSONSerializable):
    """Class whose from_json reads the key named by data['need'] (KeyError(key) when it is absent,
    raised explicitly with the key as a real dict does: CrossHair's dict shim raises a bare KeyError)."""

    def __init__(self, id_):
        self.id = id_
        self.x = None
        self.children = []

    @classmethod
    def from_json(cls, data, dic):
        need = data['need']
        if need not in data:
            raise KeyError(need)
        data[need]
        return cls(data['id'])


class C13S(JSONSerializable):
    """Minimal *self-registering* model class (the pattern of the real FlexibleTimeTreeModel): from_json
    processes the optional child `pre` first, then -- after the same guard the real class has -- puts the
    new object into the registry under its own id, and only then processes `x` and `children`, so that a
    (transitively) nested object can refer back to it by id."""

    KNOWN_KEYS = ('id', 'type', 'pre', 'x', 'children', 'ignore')

    def __init__(self, id_, pre, extra=0):
        self.id = id_
        self.pre = pre
        self.x = None
        self.children = []
        self.payload = 0
        self.extra = extra

    @classmethod
    def from_json(cls, data, dic):
        id_ = data['id']
        pre = U.process_object(data['pre'], dic) if 'pre' in data else None
        if id_ in dic:  # tree_model_flexible.py: `if id_ in dic: raise JSONParseError(...)` before dic[id_] = tree_model
            raise U.JSONParseError('Object with ID `{}\' already exists'.format(id_))
        obj = cls(id_, pre, len([k for k in data if k not in cls.KNOWN_KEYS]))
        dic[id_] = obj
        if 'x' in data:
            obj.x = U.process_object(data['x'], dic)
        if 'children' in data:
            obj.children = U.process_objects(data['children'], dic)
        return obj


U.register_class(C13N, 'C13N')
U.register_class(C13Picky, 'C13Picky')
U.register_class(C13S, 'C13S')


# ------------------------------------------------------------------ registry that keeps keys symbolic
class Reg(MutableMapping):
    """Association-list mapping with dict semantics for str keys (insertion order, overwrite in
    place).  A real dict would hash the key, which makes CrossHair realise (= enumerate) the id;
    with linear == search the ids stay symbolic.  Concrete replays use a real dict."""

    def __init__(self):
        self.pairs = []

    def __getitem__(self, k):
        for kk, v in self.pairs:
            if kk == k:
                return v
        raise KeyError(k)

    def __setitem__(self, k, v):
        for i in range(len(self.pairs)):
            if self.pairs[i][0] == k:
                self.pairs[i] = (self.pairs[i][0], v)
                return
        self.pairs.append((k, v))

    def __delitem__(self, k):
        for i in range(len(self.pairs)):
            if self.pairs[i][0] == k:
                del self.pairs[i]
                return
        raise KeyError(k)

    def __iter__(self):
        return iter([k for k, _ in self.pairs])

    def __len__(self):
        return len(self.pairs)

    def __contains__(self, k):
        for kk, _ in self.pairs:
            if kk == k:
                return True
        return False


# ------------------------------------------------------------------ domains (used in `pre:` lines)
def idstr(s):
    """an id that is only ever *defined*: any unicode string of length 1..MAXLEN"""
    return 0 < len(s) <= MAXLEN


def refstr(s):
    """a string that is (also) used as a reference: additionally no '{' (documented range syntax)"""
    return 0 < len(s) <= MAXLEN and '{' not in s


def smallstr(s):
    """ids that torchtree turns into attribute names (setattr needs a real str)"""
    for cand in SMALL_DOMAIN:
        if s == cand:
            return True
    return False


def keydom(s):
    for cand in KEY_DOMAIN:
        if s == cand:
            return True
    return False


def concretize(s, domain):
    """pure-python case split: returns the concrete member of `domain` equal to s"""
    for cand in domain:
        if s == cand:
            return cand
    raise AssertionError('outside domain')


def small(s):
    return concretize(s, SMALL_DOMAIN)


def ckey(k):
    return '_' + concretize(k, KEY_DOMAIN)


def pat(code, *xs):
    """equality pattern: xs[i] == xs[j]  iff  code[i] == code[j]"""
    for i in range(len(xs)):
        for j in range(i + 1, len(xs)):
            if (xs[i] == xs[j]) != (code[i] == code[j]):
                return False
    return True


def bracestr(s):
    return 0 < len(s) <= 4 and all(c in BRACE_ALPHA for c in s) and '{' in s


def anystr(s):
    return len(s) <= MAXLEN


def missingkey(s):
    return len(s) <= MAXLEN and distinct(s, 'id', 'type', 'need')


def distinct(*xs):
    for i in range(len(xs)):
        for j in range(i + 1, len(xs)):
            if xs[i] == xs[j]:
                return False
    return True


# ------------------------------------------------------------------ spec node builders
def N(i, **kw):
    d = {'id': i, 'type': 'C13N'}
    d.update(kw)
    return d


def NI(i, flag, **kw):  # node carrying an `ignore` marker
    d = {'id': i, 'type': 'C13N', 'ignore': flag}
    d.update(kw)
    return d


def SR(i, **kw):  # self-registering node
    d = {'id': i, 'type': 'C13S'}
    d.update(kw)
    return d


def PICKY(i, need):
    return {'id': i, 'type': 'C13Picky', 'need': need}


def P(i):
    return {'id': i, 'type': 'Parameter', 'tensor': [1.0, 2.0]}


def TP(i, x):
    return {'id': i, 'type': 'TransformedParameter', 'transform': 'torch.distributions.ExpTransform', 'x': x}


def D(i, x, **params):
    d = {'id': i, 'type': 'Distribution', 'distribution': 'torch.distributions.Exponential', 'x': x}
    d['parameters'] = params if params else {'rate': 1.0}
    return d


def TAXA(i):
    return {'id': i, 'type': 'Taxa', 'taxa': [{'id': n, 'type': 'Taxon', 'attributes': {'date': 0.0}}
                                              for n in ('taxonA', 'taxonB', 'taxonC')]}


def FT(i, heights, taxa=None):
    """the real self-registering class: taxa are processed before, internal_heights after it registers itself"""
    return {'id': i, 'type': 'FlexibleTimeTreeModel', 'newick': '((taxonA:1,taxonB:1):1,taxonC:2);',
            'taxa': TAXA('taxa00') if taxa is None else taxa, 'internal_heights': heights}


def TPH(i, tree, x):
    """node-height transform that needs the tree model it parametrises (parameters are processed before x)"""
    return {'id': i, 'type': 'TransformedParameter',
            'transform': 'torchtree.evolution.tree_height_transform.DifferenceNodeHeightTransform',
            'parameters': {'tree_model': tree}, 'x': x}


def J(i, ds):
    return {'id': i, 'type': 'JointDistributionModel', 'distributions': ds}


def PLATE_VAR(stem, obj_of):
    """plate with a `${i}` wildcard over 0:2; obj_of(id_template) -> object spec"""
    return {'type': 'Plate', 'range': '0:2', 'var': 'i', 'object': obj_of(stem + '${i}')}


def PLATE_STAR(stem, obj_of):
    return {'type': 'Plate', 'range': '0:2', 'object': obj_of(stem + '*')}


# ------------------------------------------------------------------ loader: mirror of torchtree.torchtree.main
def load_spec(data, dic):
    """Lines 75-96 of torchtree/torchtree.py (json.load result -> remove_comments -> expand_plates
    -> process_objects on every top-level element), without checkpoint handling / run()."""
    U.remove_comments(data)
    U.expand_plates(data)
    objs = []
    for element in data:
        objs.append(U.process_objects(element, dic))
    return objs


TAGS = {'C13N': 'N', 'C13S': 'S', 'C13Picky': 'K', 'Parameter': 'P', 'TransformedParameter': 'T', 'Distribution': 'D',
        'JointDistributionModel': 'J', 'FlexibleTimeTreeModel': 'F', 'Taxa': 'X', 'Taxon': 'Y'}


def real_tag(o):
    t = TAGS.get(type(o).__name__, 'X')
    if isinstance(o, (C13N, C13S)) and o.extra:
        t += 'e'  # the object saw keys it should never see (e.g. a `_` comment key that was not removed)
    return t


def real_kids(o):
    """(role, child) edges of a loaded object, in specification order."""
    if isinstance(o, (C13N, C13Picky, C13S)):
        kids = []
        if isinstance(o, C13S) and o.pre is not None:
            kids.append(('pre', o.pre))
        if o.x is not None:
            kids.append(('x', o.x))
        for c in o.children:
            kids.append(('c', c))
        return kids
    if isinstance(o, TransformedParameter):
        kids = [('tree_model', o.transform.tree)] if hasattr(o.transform, 'tree') else []
        return kids + [('x', o.x)]
    if isinstance(o, FlexibleTimeTreeModel):
        return [('taxa', o._taxa), ('h', o._internal_heights)]
    if isinstance(o, Taxa):
        return [('t', t) for t in o.data]
    if isinstance(o, Distribution):
        kids = [('x', o.x)]
        for name, p in o.dict_parameters.items():
            if p.id is not None:
                kids.append((name, p))
        return kids
    if isinstance(o, JointDistributionModel):
        c = o._distributions
        return [('d', m) for m in list(c._models.values()) + list(c._parameters.values())]
    return []


def real_id(o):
    return o.id


def _update_through(holder_get, other_gets, token):
    """update the shared object through one holder, observe it through the others"""
    o = holder_get()
    if isinstance(o, Parameter):
        new = torch.full_like(o.tensor, float(token))
        o.tensor = new
        for g in other_gets:
            if not bool(torch.equal(g().tensor, new)):
                return False
    setattr(o, 'payload', token)
    for g in other_gets:
        if getattr(g(), 'payload', None) != token:
            return False
    return True


def describe(objs, reg_pairs, kids_fn, tag_fn, id_fn, do_updates=True):
    """Structure of the loaded graph up to renaming of ids: objects are numbered in depth-first
    discovery order by *instance identity*; a second encounter of the same instance prints ^n.
    reg= lists, sorted by instance number, the instance each registry key maps to ('!' when the key
    differs from that object's own id, '?' when the instance is not reachable from the top level).
    upd= number of shared instances (>= 2 holders) on which an update through the first holder was
    observed through every other holder."""
    num = {}
    holders = {}

    def d(o, getter):
        if isinstance(o, (list, tuple)):
            return '[' + ','.join(d(e, (lambda o=o, i=i: o[i])) for i, e in enumerate(o)) + ']'
        if o is None:
            return '-'
        k = id(o)
        if k in num:
            holders[num[k]].append(getter)
            return '^%d' % num[k]
        n = num[k] = len(num)
        holders[n] = [getter]
        s = '%s%d' % (tag_fn(o), n)
        kids = kids_fn(o)
        if kids:
            parts = []
            for idx, (role, c) in enumerate(kids):
                parts.append(role + '=' + d(c, (lambda o=o, idx=idx: kids_fn(o)[idx][1])))
            s += '(' + ','.join(parts) + ')'
        return s

    top = ' '.join(d(o, (lambda objs=objs, i=i: objs[i])) for i, o in enumerate(objs))
    reg = []
    for k, v in reg_pairs:
        n = num.get(id(v))
        reg.append((len(num) if n is None else n, ('?' if n is None else str(n)) + ('' if k == id_fn(v) else '!')))
    reg = [t for _, t in sorted(reg)]  # the property does not constrain registry insertion order
    shared = [n for n in sorted(holders) if len(holders[n]) >= 2]
    if do_updates:
        okc = 0
        for t, n in enumerate(shared):
            if _update_through(holders[n][0], holders[n][1:], 40 + t):
                okc += 1
        upd = str(okc) if okc == len(shared) else 'FAIL'
    else:
        upd = str(len(shared))
    return 'ok|' + top + '|reg=' + ','.join(reg) + '|upd=' + upd


def run(data, registry=None):
    """Load a specification with the real code; return its structural description or err|<Exception>.
    Only Exception is caught (CrossHair steers with BaseException subclasses)."""
    dic = Reg() if registry is None else registry
    try:
        objs = load_spec(data, dic)
    except Exception as e:
        return 'err|' + type(e).__name__
    pairs = dic.pairs if isinstance(dic, Reg) else list(dic.items())
    try:
        return describe(objs, pairs, real_kids, real_tag, real_id)
    except Exception as e:  # a loaded graph the description cannot walk (never the case on well-formed output)
        return 'bad|describe-' + type(e).__name__
