"""C18, caller level: the REAL checkpointing loops (Optimizer._run, Optimizer._run_closure, MCMC.run,
HMC.run and the save_full_state wrappers between them and save_parameters) executed on the modelled
file system of chk/c18_model.py.

What is real: the algorithm classes of torchtree (their run loops, the checkpoint condition
`epoch % checkpoint_frequency == 0`, the construction of the checkpoint file name, the binding of
safely / overwrite / checkpoint_all on the way down) and save_parameters itself.  What is stubbed:
the numerical collaborators (loss / joint, torch optimiser, MCMC operator, HMC integrator), print and
the SIGINT handler - none of them touches the file system.

The harness functions at the bottom carry PEP316 contracts for CrossHair:
    ca        checkpoint_all option (symbolic bool)
    kind      checkpoint name: 0 -> 'ckpt.json', 1 -> 'ckpt' (no '.json' to substitute the epoch into)
    freq      checkpoint_frequency, iters = iterations, epoch0 = epoch the run starts at (resumed run)
    n0,o0,w0  pre-state of name / name.old / name.new          (-1 absent, 0..K-1 truncated, K complete)
    fresh     True: no other file exists in the directory; False: every other base name b the algorithm writes
              (per-epoch names 'ckpt-<epoch>.json' left by an earlier run / the run this one resumes) starts with
              b / b.old / b.new in the same state (n0, o0, w0)
    crash_at  index of the file-system operation of the whole run before which the process dies
    lost      buffered chunks that never reach the disk
Result: (c1_ok, c2_ok, ind_ok, died_mid_write, crashed, ops, number of save_parameters calls) where, for every
family b / b.old / b.new, from each boundary (start of the run, return of each completed save_parameters call)
at which something existed under b / b.old / b.new to the next boundary or the state the crash leaves,
    c1_ok   some complete file at the boundary  ==> some complete file afterwards
    c2_ok   b not truncated at the boundary     ==> b not truncated afterwards
    ind_ok  final class triple in INV (so the argument repeats for the next run)
"""
from __future__ import annotations

import inspect
import os as _os
import sys

from chk import c18_model as M
from chk.c18_model import K

NAMES = {0: M.NAME, 1: 'ckpt'}


def _triples(s):
    return frozenset((int(t[0]), int(t[1]), int(t[2])) for t in s.split(',') if t)


INV = _triples(_os.environ.get('C18_INV', '100'))
SEL = _triples(_os.environ.get('C18_SEL', '100'))  # pre-state classes (of every family) this process covers
ENTRY = _os.environ.get('C18_ENTRY', 'Optimizer._run')
CA = _os.environ.get('C18_CA', '*')  # '0' / '1' / '*': which values of checkpoint_all this process covers
KIND = _os.environ.get('C18_KIND', '*')
FRESH = _os.environ.get('C18_FRESH', '*')
FMAX = int(_os.environ.get('C18_FMAX', '2'))  # checkpoint_frequency 1..FMAX
NMAX = int(_os.environ.get('C18_NMAX', '2'))  # iterations, start epoch 1..NMAX
AMAX = NMAX * (K + 7) + 2  # more operations than NMAX checkpoint writes can issue


# ---------------------------------------------------------------------------------- stubs of the collaborators
class _Loss(float):
    def backward(self):
        return None

    def __neg__(self):
        return _Loss(-float(self))


class _LossModel:
    samples = 1

    def __call__(self):
        return _Loss(1.0)


class _Param:
    """stands for a torchtree Parameter inside the Optimizer loop (never serialised: json.dump is modelled)"""

    def __init__(self):
        import torch

        self.requires_grad = False
        self.grad = torch.zeros(1)

    def fire_parameter_changed(self):
        return None

    def parameters(self):
        return []


class _TorchOpt:
    def __init__(self):
        self.n = 0

    def step(self, closure=None):
        self.n += 1
        if closure is not None:
            closure()

    def zero_grad(self):
        return None

    def state_dict(self):
        return {'state': {0: {'func_evals': self.n, 'n_iter': self.n}}, 'param_groups': []}

    def load_state_dict(self, state):
        return None


_LBFGS = None


def _lbfgs():
    global _LBFGS
    if _LBFGS is None:
        import torch

        class _FakeLBFGS(_TorchOpt, torch.optim.LBFGS):  # isinstance(.., torch.optim.LBFGS) routes run() to _run_closure
            def __init__(self):
                _TorchOpt.__init__(self)

        _LBFGS = _FakeLBFGS
    return _LBFGS()


class _Handler:
    stop = False


class _Operator:
    id = 'op'
    weight = 1.0
    _accept = 1
    _reject = 1
    tuning_parameter = 1.0

    def __init__(self):
        self.parameters = [_Param()]

    def step(self):
        import torch

        return torch.tensor(0.0)

    def accept(self):
        return None

    def reject(self):
        return None

    def tune(self, *a, **kw):
        return None

    def state_dict(self):
        return {'id': self.id}

    def load_state_dict(self, state):
        return None

    def smoothed_acceptance_rate(self):
        return 0.5


def _joint():
    import torch

    return torch.tensor(-1.0)


class _Integrator:
    step_size = 0.1

    def __call__(self, model, parameters, momentum, inverse_mass_matrix):
        return momentum


# ---------------------------------------------------------------------------------- the algorithms (real classes)
def _mk_optimizer(lbfgs):
    def build(name, ca, freq, iters, epoch0):
        from torchtree.optim.optimizer import Optimizer

        opt = Optimizer('opt', [_Param()], _LossModel(), _lbfgs() if lbfgs else _TorchOpt(), iters,
                        checkpoint=name, checkpoint_frequency=freq, checkpoint_all=ca)
        # a resumed run: the way torchtree.py restores an algorithm from a checkpoint
        opt.load_state_dict({'iteration': epoch0, 'optimizer': {'state': {}, 'param_groups': []}})
        return opt

    return build


def _mk_mcmc(name, ca, freq, iters, epoch0):
    from torchtree.inference.mcmc.mcmc import MCMC

    m = MCMC('mcmc', _joint, [_Operator()], iters, checkpoint=name, checkpoint_frequency=freq, checkpoint_all=ca,
             every=0)
    m.load_state_dict({'iteration': epoch0, 'operators': []})
    return m


def _mk_hmc(name, ca, freq, iters, epoch0):
    import torch
    from torchtree.core.parameter import Parameter
    from torchtree.inference.hmc.hmc import HMC

    # HMC has no resumable epoch: epoch0 is not an input of this algorithm
    return HMC([Parameter('x', torch.zeros(2))], _joint, iters, _Integrator(), checkpoint=name,
               checkpoint_frequency=freq, checkpoint_all=ca, every=1000)


# entry -> (module of the loop, builder, functions of the library on the path to save_parameters)
ENTRIES = {
    'Optimizer._run': ('torchtree.optim.optimizer', _mk_optimizer(False),
                       ('Optimizer.run', 'Optimizer._run', 'Optimizer.save_full_state')),
    'Optimizer._run_closure': ('torchtree.optim.optimizer', _mk_optimizer(True),
                               ('Optimizer.run', 'Optimizer._run_closure', 'Optimizer.save_full_state')),
    'MCMC.run': ('torchtree.inference.mcmc.mcmc', _mk_mcmc, ('MCMC.run', 'MCMC.save_full_state')),
    'HMC.run': ('torchtree.inference.hmc.hmc', _mk_hmc, ('HMC.run',)),
}


def _noprint(*a, **kw):
    return None


class Ctx:
    """Per-run bookkeeping: the save_parameters calls with their bound flags, and the two clauses checked from
    every call boundary (= the state a completed write left) to the next boundary / the final state."""

    def __init__(self, fs):
        self.fs = fs
        self.calls = []  # (file name, safely, overwrite, op index at entry) of every save_parameters call
        self.snap = {}  # base name -> class triple at the latest boundary
        self.c1 = self.c2 = self.ind = True

    def boundary(self, final=False):
        fs = self.fs
        for base, pre in list(fs.families.items()):
            a = self.snap.get(base)
            if a is None:
                a = (cls(pre[0]), cls(pre[1]), cls(pre[2]))
            b = fs.family_classes(base)
            if a != (0, 0, 0):  # (0,0,0): nothing existed under this name - outside "written over an existing one"
                if 1 in a and 1 not in b:
                    self.c1 = False
                if a[0] != 2 and b[0] == 2:
                    self.c2 = False
                if final and b not in INV:
                    self.ind = False
            self.snap[base] = b


_SIG = {}


def _signature(real):
    """(positional parameter names, defaults) of the real save_parameters, read once per process"""
    if real not in _SIG:
        names, defaults = [], {}
        for p in inspect.signature(real).parameters.values():
            if p.kind is not p.POSITIONAL_OR_KEYWORD:
                return None
            names.append(p.name)
            if p.default is not p.empty:
                defaults[p.name] = p.default
        _SIG[real] = (tuple(names), defaults)
    return _SIG[real]


def _recording(real, ctx):
    sig = _signature(real)

    def save_parameters(*a, **kw):
        # the binding Python itself performs for real(*a, **kw) (a TypeError of the real call surfaces below)
        if sig is None or len(a) > len(sig[0]):
            ctx.fs._gap('save_parameters signature not positional-or-keyword / too many arguments')
        args = dict(sig[1])
        for nm, v in zip(sig[0], a):
            args[nm] = v
        for nm in kw:
            args[nm] = kw[nm]
        if 'file_name' not in args or 'safely' not in args or 'overwrite' not in args:
            ctx.fs._gap('save_parameters no longer has file_name / safely / overwrite parameters')
        ctx.calls.append((args['file_name'], bool(args['safely']), bool(args['overwrite']), ctx.fs.ops))
        out = real(*a, **kw)
        if not ctx.fs.dead:
            ctx.boundary()
        return out

    return save_parameters


_KEYS = {}


def _plan(mod, fs, os_obj, json_obj, direct):
    """chk.c18_model.patch_plan with the scan of the module namespace done once per process"""
    keys = _KEYS.get(mod.__name__)
    if keys is None:
        import types

        keys = []
        for k, v in list(vars(mod).items()):
            if isinstance(v, types.ModuleType):
                if v is _os:
                    keys.append((k, 'os', None))
                elif v.__name__ == 'json':
                    keys.append((k, 'json', None))
                elif v is _os.path:
                    keys.append((k, 'os.path', None))
                elif v.__name__.split('.')[0] in M._GAP_MODULES:
                    keys.append((k, 'gap', v.__name__))
            elif id(v) in direct:
                keys.append((k, 'direct', id(v)))
        _KEYS[mod.__name__] = keys
    plan = {'open': fs.open}
    for k, tag, x in keys:
        if tag == 'os':
            plan[k] = os_obj
        elif tag == 'json':
            plan[k] = json_obj
        elif tag == 'os.path':
            plan[k] = os_obj.path
        elif tag == 'gap':
            plan[k] = M._Shim(fs, x)
        else:
            plan[k] = direct[x]
    return plan


def run_algo(entry, ca, kind, freq, iters, epoch0, pre, other, crash_at, lost, trace=None):
    """One run of the real algorithm loop on the model.  Returns (ModelFS, Ctx)."""
    modname, build, _ = ENTRIES[entry]
    target = M.target_module()
    caller = sys.modules.get(modname)
    if caller is None:
        import importlib

        caller = importlib.import_module(modname)
    name = NAMES[0] if kind == 0 else NAMES[1]
    fs = M.ModelFS(pre[0], pre[1], pre[2], crash_at, lost, trace=trace, other=other, primary=name)
    ctx = Ctx(fs)
    algo = build(name, ca, freq, iters, epoch0)
    os_obj, json_obj, direct = M._os_shim(fs), M._json_shim(fs), M._direct_map(fs)
    plan_t = _plan(target, fs, os_obj, json_obj, direct)
    plan_c = _plan(caller, fs, os_obj, json_obj, direct)
    plan_c['print'] = _noprint
    if 'SignalHandler' in vars(caller):
        plan_c['SignalHandler'] = _Handler
    real = vars(caller).get('save_parameters')
    if real is not target.save_parameters and _os.environ.get('C18_TARGET_MODULE') is None:
        fs._gap(f'{modname}.save_parameters is not torchtree.core.parameter_utils.save_parameters')
    plan_c['save_parameters'] = _recording(target.save_parameters, ctx)
    err = None
    with M.patched(target, plan_t), M.patched(caller, plan_c):
        try:
            algo.run()
        except Exception as e:  # Crash, or an error raised by the code under test (never BaseException)
            err = e
    fs.error = type(err).__name__ if err is not None else None
    if fs.gap is not None:
        raise M.ModelGap(fs.gap)
    if err is not None and not fs.crashed:
        raise M.ModelGap(f'{entry} raised {type(err).__name__}: {err} without a crash (stub too thin?)')
    if not fs.dead:
        for h in fs.handles:
            if not h.closed:
                raise M.ModelGap('handle left open at normal return (not modelled)')
    ctx.boundary(final=True)
    return fs, ctx


def cls(n):
    if n == -1:
        return 0
    if n == M.K:  # read at call time: the driver switches chunk counts with model_for(K)
        return 1
    return 2


def summary(fs, ctx):
    return (ctx.c1, ctx.c2, ctx.ind, fs.midwrite, fs.crashed, fs.ops, len(ctx.calls))


# ---------------------------------------------------------------------------------- CrossHair contracts
def pick(sel, v) -> bool:
    return sel == '*' or int(sel) == int(v)


def adom(ca: bool, kind: int, fresh: bool, freq: int, iters: int, epoch0: int, n0: int, o0: int, w0: int,
         crash_at: int, lost: int) -> bool:
    return (0 <= kind <= 1 and 1 <= freq <= FMAX and 1 <= iters <= NMAX and 1 <= epoch0 <= NMAX
            and -1 <= n0 <= K and -1 <= o0 <= K and -1 <= w0 <= K and 0 <= crash_at <= AMAX and 0 <= lost <= K
            and pick(CA, ca) and pick(KIND, kind) and pick(FRESH, fresh) and (cls(n0), cls(o0), cls(w0)) in SEL)


def other_of(fresh, pre):
    """pre-state of the families other than the checkpoint name; evaluated only when the run touches one"""
    return lambda: (-1, -1, -1) if fresh else pre


def _go(ca, kind, fresh, freq, iters, epoch0, n0, o0, w0, crash_at, lost):
    pre = (n0, o0, w0)
    fs, ctx = run_algo(ENTRY, ca, kind, freq, iters, epoch0, pre, other_of(fresh, pre), crash_at, lost)
    return summary(fs, ctx)


def algo(ca: bool, kind: int, fresh: bool, freq: int, iters: int, epoch0: int, n0: int, o0: int, w0: int,
         crash_at: int, lost: int):
    """
    pre: adom(ca, kind, fresh, freq, iters, epoch0, n0, o0, w0, crash_at, lost)
    post: _[0] and _[1] and _[2]
    """
    return _go(ca, kind, fresh, freq, iters, epoch0, n0, o0, w0, crash_at, lost)


def algo_twin(ca: bool, kind: int, fresh: bool, freq: int, iters: int, epoch0: int, n0: int, o0: int, w0: int,
              crash_at: int, lost: int):
    """
    pre: adom(ca, kind, fresh, freq, iters, epoch0, n0, o0, w0, crash_at, lost)
    post: not _[3]
    """
    return _go(ca, kind, fresh, freq, iters, epoch0, n0, o0, w0, crash_at, lost)
