"""C17 part 3 (symtorch engine): an Optimizer run resumed from a checkpoint continues the same run.

The REAL torchtree code is executed on symbolic values: `Optimizer.from_json` builds the torch optimiser and the
`Scheduler` from a specification whose initial parameter values, learning rates and scheduler decay are symbolic
(`SymFloat`s in the JSON), `Optimizer.run` performs real `torch.optim` steps on `SymTensor`s against an
UNINTERPRETED differentiable loss U (gradients = uninterpreted partial derivatives, as in checks/C16.py),
`Optimizer.save_full_state` hands the state to the checkpoint writer, the restart follows `torchtree.main`
(`update_parameters`, `process_objects`, `load_state_dict`, `run`).

Only the file is replaced: `save_parameters` is captured and the state goes through chk.c17_model.json_model
(the JSON data model validated against the real json module, with the real ParameterEncoder.default /
TensorDecoder.object_hook).  A file transports VALUES, not terms: every non-constant float that crosses the
checkpoint is replaced by a fresh variable r with the hypothesis r == saved value, so the solver has to derive
that the resumed run computes the same states (congruence over U's gradient symbols + arithmetic).

Goals per interruption point N (checkpoint written in iteration N), all decided by the SMT portfolio:
  * restart state: every float / tensor entry of state_dict() of the restarted Optimizer (iteration, per-parameter
    optimiser state, param_groups hyper-parameters, scheduler state) equals the entry that was written;
    structure, key types, ints, bools and strings are compared concretely;
  * trajectory: the parameter values (and the whole optimiser / scheduler state) written by the resumed run after
    its j-th update equal those written by the uninterrupted run after N + j updates, j = 1..K+1;
  * coverage: the path conditions met on the way (e.g. torch's `0 <= lr` validation) follow from the domain.
A `sat` / undecided goal is replayed on the real code with plain tensors and real checkpoint FILES (json.dump /
json.load through save_parameters and TensorDecoder); only then is it reported.
"""
from __future__ import annotations

import contextlib
import io
import json
import os
import tempfile
import warnings

import torch

from chk import c17_model as M

# ------------------------------------------------------------------------------------------ engine extension
_INSTALLED = [False]


def install_handlers():
    """torch.optim's single-tensor update rules use a few fused in-place ops that symtorch/tensor.py does not
    know (`lerp_`, `addcmul_`, `addcdiv_`), and `add(other, alpha=)` with a symbolic `other`, which the stock
    handler multiplies outside the DAG (the product becomes a constant: sound witness, wrong term).  They are
    registered here (local to the C17 worker processes); every result is cross-checked against torch's own
    concrete result by `check_vals` like any other symtorch op."""
    if _INSTALLED[0]:
        return
    _INSTALLED[0] = True
    from symtorch import tensor as T
    from symtorch.tensor import HANDLERS, SymFloat, SymTensor, any_rg, check_vals, ew, upgrade, val_of, wrap

    def fval(x):
        return float(x) if isinstance(x, (SymFloat, float, int)) else val_of(x)

    def finish_inplace(x, fn, ri, operands):
        x._ids.copy_(ri)
        check_vals(x._v, x._ids, fn)
        if any_rg(operands) and torch.is_grad_enabled():
            x._rg = True
        if not torch.is_grad_enabled():
            x._ids.copy_(ew(lambda d, a: d.stop(a), x))
        return x

    def fused(nodef, scalar_kw):
        def h(func, args, kwargs):
            fn = T._fname(func)
            x, a, b = args[0], args[1], args[2]
            s = kwargs.get(scalar_kw, args[3] if len(args) > 3 else 1)
            unknown = set(kwargs) - {scalar_kw}
            if unknown:
                raise T.UnsupportedOp(f'{fn} with {sorted(unknown)}')
            ri = ew(nodef, x, a, b, s)
            if fn.endswith('_'):
                upgrade(x)
                if tuple(ri.shape) != tuple(x._ids.shape):
                    raise T.UnsupportedOp(f'{fn}: broadcasting in-place result')
                getattr(torch.Tensor, fn)(x._v, val_of(a), val_of(b), **{scalar_kw: fval(s)})
                return finish_inplace(x, fn, ri, (a, b))
            rv = func(val_of(x), val_of(a), val_of(b), **{scalar_kw: fval(s)})
            check_vals(rv, ri, fn)
            return wrap(rv, ri, fn, any_rg((x, a, b)))

        return h

    HANDLERS['addcmul'] = HANDLERS['addcmul_'] = fused(lambda d, x, a, b, s: d.add(x, d.mul(s, d.mul(a, b))), 'value')
    HANDLERS['addcdiv'] = HANDLERS['addcdiv_'] = fused(lambda d, x, a, b, s: d.add(x, d.mul(s, d.div(a, b))), 'value')

    def h_lerp(func, args, kwargs):
        fn = T._fname(func)
        x, end = args[0], args[1]
        w = kwargs.get('weight', args[2] if len(args) > 2 else None)
        ri = ew(lambda d, a, b, c: d.add(a, d.mul(c, d.sub(b, a))), x, end, w)
        wv = fval(w)
        if fn.endswith('_'):
            upgrade(x)
            if tuple(ri.shape) != tuple(x._ids.shape):
                raise T.UnsupportedOp(f'{fn}: broadcasting in-place result')
            torch.Tensor.lerp_(x._v, val_of(end), wv)
            return finish_inplace(x, fn, ri, (end, w))
        rv = torch.lerp(val_of(x), val_of(end), wv)
        check_vals(rv, ri, fn)
        return wrap(rv, ri, fn, any_rg((x, end, w)))

    HANDLERS['lerp'] = HANDLERS['lerp_'] = h_lerp

    def alpha_fix(name):
        orig = HANDLERS[name]

        def h(func, args, kwargs):
            extra = args[2:]
            if 'alpha' in kwargs or extra:
                alpha = kwargs.get('alpha', extra[0] if extra else 1)
                other = args[1]
                if isinstance(other, (SymTensor, SymFloat)) or isinstance(alpha, SymFloat):
                    prod = HANDLERS['mul'](torch.mul, (other, alpha), {})  # the product is a DAG term
                    return orig(func, (args[0], prod), {k: v for k, v in kwargs.items() if k != 'alpha'})
            return orig(func, args, kwargs)

        return h

    for n in ('add', 'add_', 'sub', 'sub_'):
        HANDLERS[n] = alpha_fix(n)
    # copy.deepcopy (torch.optim.Optimizer.load_state_dict copies the param_groups) must keep the expression id
    SymFloat.__getnewargs__ = lambda self: (float(self), self.nid)
    SymFloat.__deepcopy__ = lambda self, memo: self
    SymFloat.__copy__ = lambda self: self


# ----------------------------------------------------------------------------------------------- the loss
DIM = 3  # q = (x[0], x[1], y[0])
_A = (0.7, 1.1, 0.4)
_M = (1.0, 0.0, -1.0)


def U_value(q):
    """Witness interpretation of the uninterpreted objective (also the objective of the concrete replays)."""
    return -sum(_A[k] * (q[k] - _M[k]) ** 2 for k in range(DIM)) - 0.3 * q[0] * q[1] + 0.2 * q[1] * q[2]


def U_partial(k, q):
    g = -2.0 * _A[k] * (q[k] - _M[k])
    if k == 0:
        g -= 0.3 * q[1]
    elif k == 1:
        g += -0.3 * q[0] + 0.2 * q[2]
    else:
        g += 0.2 * q[1]
    return g


def _targets():
    from torchtree.core.model import CallableModel

    class SymTarget(CallableModel):
        """model() = U(q), an uninterpreted function of all parameter entries; backward() delivers the
        uninterpreted partial derivatives d{k}~U(q)."""

        def __init__(self, ps):
            super().__init__('joint')
            for i, p in enumerate(ps):
                setattr(self, f'p{i}', p)  # registers the model as listener of the parameter (cache invalidation)
            self.ps = ps

        def _call(self, *a, **k):
            from symtorch import SymTensor, cur, from_ids

            d = cur().dag
            q = torch.cat([p.tensor for p in self.ps], -1)
            out = d.uf('U', *q._ids.tolist())
            r = from_ids(torch.tensor(out, dtype=torch.int64))
            r._rg = any(p.tensor._rg for p in self.ps if isinstance(p.tensor, SymTensor))
            return r

        def _sample_shape(self):
            return torch.Size([])

        @classmethod
        def from_json(cls, data, dic):
            raise NotImplementedError

    class RealTarget(CallableModel):
        def __init__(self, ps):
            super().__init__('joint')
            for i, p in enumerate(ps):
                setattr(self, f'p{i}', p)  # registers the model as listener of the parameter (cache invalidation)
            self.ps = ps

        def _call(self, *a, **k):
            q = torch.cat([p.tensor.double() for p in self.ps], -1)
            return U_value([q[0], q[1], q[2]])

        def _sample_shape(self):
            return torch.Size([])

        @classmethod
        def from_json(cls, data, dic):
            raise NotImplementedError

    return SymTarget, RealTarget


def register_uf(d):
    d.uf_eval['U'] = lambda *q: U_value(q)
    for k in range(DIM):
        d.uf_eval[f'd{k}~U'] = (lambda kk: (lambda *q: U_partial(kk, q)))(k)


# ------------------------------------------------------------------------------------------ specifications
# name -> (torch class, options other than lr; all differ from torch's defaults so that a restart that falls
# back to defaults / to the specification is visible)
ALGOS = {
    'SGD': ('torch.optim.SGD', {'momentum': 0.75, 'dampening': 0.25, 'weight_decay': 0.125}),
    'SGD-nesterov': ('torch.optim.SGD', {'momentum': 0.5, 'nesterov': True}),
    'Adam': ('torch.optim.Adam', {'betas': [0.75, 0.875], 'eps': 0.0009765625}),
    'AdamW': ('torch.optim.AdamW', {'betas': [0.5, 0.75], 'eps': 0.0009765625, 'weight_decay': 0.125}),
    'Adagrad': ('torch.optim.Adagrad', {'lr_decay': 0.5, 'initial_accumulator_value': 0.25, 'eps': 0.0009765625}),
    'RMSprop': ('torch.optim.RMSprop', {'alpha': 0.75, 'momentum': 0.5, 'centered': True, 'eps': 0.0009765625}),
    'Adadelta': ('torch.optim.Adadelta', {'rho': 0.75, 'eps': 0.0009765625}),
    'ASGD': ('torch.optim.ASGD', {'lambd': 0.125, 'alpha': 0.75, 't0': 2.0}),
}
# name -> scheduler specification; GAMMA is replaced by the (symbolic) decay
SCHEDS = {
    'none': None,
    'StepLR': {'scheduler': 'torch.optim.lr_scheduler.StepLR', 'step_size': 2, 'gamma': 'GAMMA'},
    'StepLR1': {'scheduler': 'torch.optim.lr_scheduler.StepLR', 'step_size': 1, 'gamma': 'GAMMA'},
    'ExponentialLR': {'scheduler': 'torch.optim.lr_scheduler.ExponentialLR', 'gamma': 'GAMMA'},
    'LambdaLR': {'scheduler': 'torch.optim.lr_scheduler.LambdaLR', 'lr_lambda': 'lambda epoch: 1.0 / (1.0 + epoch)'},
    'MultiplicativeLR': {'scheduler': 'torch.optim.lr_scheduler.MultiplicativeLR', 'lr_lambda': 'lambda epoch: 0.75'},
    'MultiStepLR': {'scheduler': 'torch.optim.lr_scheduler.MultiStepLR', 'milestones': [2, 3], 'gamma': 'GAMMA'},
    'CosineAnnealingLR': {'scheduler': 'torch.optim.lr_scheduler.CosineAnnealingLR', 'T_max': 4, 'eta_min': 0.015625},
    'LinearLR': {'scheduler': 'torch.optim.lr_scheduler.LinearLR', 'start_factor': 0.25, 'total_iters': 3},
    'PolynomialLR': {'scheduler': 'torch.optim.lr_scheduler.PolynomialLR', 'total_iters': 6, 'power': 2},
    'ConstantLR': {'scheduler': 'torch.optim.lr_scheduler.ConstantLR', 'factor': 0.5, 'total_iters': 2},
    'CosineAnnealingWarmRestarts': {'scheduler': 'torch.optim.lr_scheduler.CosineAnnealingWarmRestarts', 'T_0': 3},
    # the two schedulers that also move momentum / beta1 in the param_groups
    'OneCycleLR': {'scheduler': 'torch.optim.lr_scheduler.OneCycleLR', 'max_lr': 'LR', 'total_steps': 12},
    'CyclicLR': {'scheduler': 'torch.optim.lr_scheduler.CyclicLR', 'base_lr': 0.0625, 'max_lr': 'LR', 'step_size_up': 2},
}
CYCLES_MOMENTUM = ('OneCycleLR', 'CyclicLR')


def compatible(algo, sched):
    """torch refuses momentum-cycling schedulers for optimisers without momentum / betas"""
    return sched not in CYCLES_MOMENTUM or algo in ('SGD', 'SGD-nesterov', 'Adam', 'AdamW', 'RMSprop')
INPUTS = ('x0', 'x1', 'y0', 'lr', 'lr1', 'gamma')
WITNESS = {'x0': 0.5, 'x1': 1.5, 'y0': -0.3, 'lr': 0.2, 'lr1': 0.3, 'gamma': 0.5}


def make_spec(algo, sched, groups, vals, iterations, checkpoint, frequency=1):
    """The JSON a user would write (vals: name -> float or SymFloat)."""
    cls, options = ALGOS[algo]
    opt = {
        'id': 'opt', 'type': 'Optimizer', 'algorithm': cls, 'options': dict(options, lr=vals['lr']), 'maximize': True,
        'loss': 'joint', 'iterations': iterations, 'checkpoint': checkpoint, 'checkpoint_frequency': frequency,
        'checkpoint_all': True,
    }
    opt['options'] = {k: (list(v) if isinstance(v, list) else v) for k, v in opt['options'].items()}
    if groups == 2:  # per-group hyper-parameters: the second group has its own learning rate
        opt['parameters'] = [{'params': ['x']}, {'params': ['y'], 'lr': vals['lr1']}]
    else:
        opt['parameters'] = ['x', 'y']
    s = SCHEDS[sched]
    if s is not None:
        opt['scheduler'] = dict({k: (vals['gamma'] if v == 'GAMMA' else vals['lr'] if v == 'LR' else list(v)
                                     if isinstance(v, list) else v) for k, v in s.items()}, id='sched', type='Scheduler')
    return [
        {'id': 'x', 'type': 'Parameter', 'tensor': [vals['x0'], vals['x1']]},
        {'id': 'y', 'type': 'Parameter', 'tensor': [vals['y0']]},
        opt,
    ]


def uses(sched, groups):
    """names of the symbolic inputs a configuration depends on"""
    names = ['x0', 'x1', 'y0', 'lr']
    if groups == 2:
        names.append('lr1')
    if SCHEDS[sched] is not None and 'GAMMA' in SCHEDS[sched].values():
        names.append('gamma')
    return names


def launch(data, target_cls, checkpoint=None, run=True):
    """What torchtree.main does with a specification (and a decoded checkpoint): update_parameters, then for every
    element process_objects / load_state_dict / run.  The loss object is placed in the registry when the
    parameters exist (it stands for the model part of the specification)."""
    from torchtree.core.runnable import Runnable
    from torchtree.core.utils import process_objects, update_parameters

    others = {}
    if checkpoint is not None:
        tensors = {}
        for param in checkpoint:
            if param['type'] in ('torchtree.Parameter', 'Parameter'):
                tensors[param['id']] = param
            else:
                others[param['id']] = param
        update_parameters(data, tensors)
    dic = {}
    for element in data:
        if element.get('type') == 'Optimizer' and 'joint' not in dic:
            dic['joint'] = target_cls([dic['x'], dic['y']])
        obj = process_objects(element, dic)
        if checkpoint is not None and hasattr(obj, 'id') and obj.id in others and hasattr(obj, 'load_state_dict'):
            obj.load_state_dict(others[obj.id])
        if isinstance(obj, Runnable) and run:
            with contextlib.redirect_stdout(io.StringIO()):
                obj.run()
    return dic


# ------------------------------------------------------------------------------------------- symbolic run
class Store:
    """In-memory stand-in for the checkpoint files of one run: file name -> decoded content."""

    def __init__(self, trace, hyps, fresh_tag):
        self.files = {}
        self.trace = trace
        self.hyps = hyps
        self.tag = fresh_tag
        self.count = 0

    def leaf(self, x):
        """a float written to the file and read back: a fresh variable with the same value"""
        from symtorch import SymFloat

        if not isinstance(x, SymFloat):
            return x
        d = self.trace.dag
        if d.ops[x.nid] == 'const':
            return x
        self.count += 1
        v = d.var(f'{self.tag}#{self.count}', d.vals[x.nid])
        self.hyps.append(d.eq(v, x.nid))
        return SymFloat(d.vals[v], v)

    def save(self, file_name, parameters, safely=True, overwrite=False):
        self.files[file_name] = M.json_model(parameters, M._ENC.default, M._DEC.object_hook, None, leaf=self.leaf)


@contextlib.contextmanager
def captured_files(store):
    import torchtree.optim.optimizer as O

    orig = O.save_parameters
    O.save_parameters = store.save
    try:
        yield
    finally:
        O.save_parameters = orig


def _nid(x):
    from symtorch import SymFloat
    from symtorch.tensor import cur

    if isinstance(x, SymFloat):
        return x.nid
    return cur().dag.const(x)


def compare(d, a, b, path, eqs, problems):
    """a: what was written, b: what is there after the restart / in the other run.  Symbolic leaves -> equality
    nodes (eqs: list of (path, node)); everything else is compared concretely (problems: list of paths)."""
    from symtorch import SymFloat, SymTensor

    if isinstance(a, torch.Tensor) or isinstance(b, torch.Tensor):
        if not (isinstance(a, torch.Tensor) and isinstance(b, torch.Tensor)):
            problems.append(path + ':tensor-vs-other')
            return
        if tuple(a.shape) != tuple(b.shape):
            problems.append(path + ':shape')
            return
        if isinstance(a, SymTensor) or isinstance(b, SymTensor):
            from symtorch import ids_of

            ia, ib = ids_of(a).reshape(-1).tolist(), ids_of(b).reshape(-1).tolist()
            eqs.append((path, d.and_(*[d.eq(x, y) for x, y in zip(ia, ib)]) if ia else d.TRUE))
            return
        if a.dtype != b.dtype:
            problems.append(path + ':dtype')
        elif a.numel() and not bool((a == b).all()):
            problems.append(path + ':values')
        return
    if isinstance(a, bool) or isinstance(b, bool) or a is None or b is None or isinstance(a, str) or isinstance(b, str):
        if type(a) is not type(b) or a != b:
            problems.append(path + ':value')
        return
    if isinstance(a, float) or isinstance(b, float):
        if not (isinstance(a, float) and isinstance(b, float)):
            problems.append(path + ':type')
        elif isinstance(a, SymFloat) or isinstance(b, SymFloat):
            eqs.append((path, d.eq(_nid(a), _nid(b))))
        elif float(a) != float(b):
            problems.append(path + ':value')
        return
    if isinstance(a, int) or isinstance(b, int):
        if type(a) is not type(b) or a != b:
            problems.append(path + ':value')
        return
    if isinstance(a, (list, tuple)) and isinstance(b, (list, tuple)):
        if len(a) != len(b):
            problems.append(path + ':length')
            return
        for i, (x, y) in enumerate(zip(a, b)):
            compare(d, x, y, f'{path}[{i}]', eqs, problems)
        return
    if isinstance(a, dict) and isinstance(b, dict):
        ka, kb = list(a.keys()), list(b.keys())
        for k in ka:
            if k not in b:
                problems.append(f'{path}[{k}]:key-lost' if not any(str(k) == str(k2) for k2 in kb)
                                else path + ':int-keys-become-str')
        for k in kb:
            if k not in a:
                problems.append(f'{path}[{k}]:key-added')
        for k in ka:
            if k in b:
                compare(d, a[k], b[k], f'{path}[{k}]', eqs, problems)
        return
    if callable(a) and callable(b):
        return
    if type(a) is not type(b) or a != b:
        problems.append(path + ':value')


def _epoch_of(file_name):
    return int(file_name.rsplit('-', 1)[1].split('.')[0])


def strip(entry, drop=('id', 'type')):
    return {k: v for k, v in entry.items() if k not in drop}


def params_of(ckpt):
    return {e['id']: e['tensor'] for e in ckpt if e['type'] in ('torchtree.Parameter', 'Parameter')}


def symbolic_run(algo, sched, groups, points, K):
    """-> dict with hyps, goals [(label, node, kind, N)], concrete problems, input variable nodes, trace stats.
    Must be called inside `tracing()`."""
    from symtorch.tensor import cur, mkfloat

    install_handlers()
    t = cur()
    d = t.dag
    register_uf(d)
    SymTarget, _ = _targets()
    names = uses(sched, groups)
    V = {n: d.var(n, WITNESS[n]) for n in names}
    vals = {n: (mkfloat(V[n]) if n in V else WITNESS[n]) for n in INPUTS}
    domain = [d.lt(0, V['lr'])]
    if 'lr1' in V:
        domain.append(d.lt(0, V['lr1']))
    if 'gamma' in V:
        domain += [d.lt(0, V['gamma']), d.lt(V['gamma'], 1)]
    hyps = []
    problems = []  # (N, signature-ish text) found concretely on the symbolic run (structure, exceptions)
    goals = []
    T_full = max(points) + K + 1
    full = Store(t, hyps, 'full')
    with captured_files(full), warnings.catch_warnings():
        warnings.simplefilter('ignore')
        launch(make_spec(algo, sched, groups, vals, T_full, 'full.json'), SymTarget)
    npcs_full = len(t.pcs)
    for N in points:
        ck = full.files.get(f'full-{N}.json')
        if ck is None:
            problems.append((N, f'no checkpoint written in iteration {N}'))
            continue
        again = M.json_model(ck, M._ENC.default, M._DEC.object_hook)  # the same file read a second time (reference)
        res = Store(t, hyps, f'res{N}')
        last = N + K
        try:
            with captured_files(res), warnings.catch_warnings():
                warnings.simplefilter('ignore')
                dic = launch(make_spec(algo, sched, groups, vals, last, 'res.json'), SymTarget,
                             checkpoint=ck, run=False)
        except Exception as e:
            problems.append((N, f'restart-raises:{M._raiser_class(e, "Optimizer")}:{type(e).__name__}:{e}'))
            continue
        opt = dic['opt']
        # --- state right after the restart == state written
        eqs, prob = [], []
        now = M.json_model(opt.state_dict(), M._ENC.default, M._DEC.object_hook)
        compare(d, strip(again[0]), now, 'state', eqs, prob)
        compare(d, params_of(again), {p.id: p.tensor.tolist() for p in opt.parameters}, 'parameters', eqs, prob)
        for p in prob:
            problems.append((N, 'restart-state:' + p))
        goals.append((f'N={N}: state_dict() of the restarted Optimizer and the parameter values equal what was written '
                      f'({len(eqs)} symbolic entries)', d.and_(*[e for _, e in eqs]) if eqs else d.TRUE, 'state', N,
                      [p for p, _ in eqs]))
        # --- resumed run
        try:
            with captured_files(res), warnings.catch_warnings(), contextlib.redirect_stdout(io.StringIO()):
                warnings.simplefilter('ignore')
                opt.run()
        except Exception as e:
            problems.append((N, f'resumed-run-raises:{type(e).__name__}:{e}'))
            continue
        written = sorted((k for k in res.files if k.startswith('res-')), key=_epoch_of)
        if not written:
            problems.append((N, 'resumed-run:no checkpoint written after the restart'))
        for j, name in enumerate(written, 1):
            # aligned by the number of updates, not by the iteration label (the resumed run repeats iteration N)
            r = res.files[name]
            f = full.files.get(f'full-{N + j}.json')
            if f is None:
                break
            if j == 1 and not any(g[2] == 'twin' for g in goals):
                eqs, prob = [], []
                compare(d, params_of(again), params_of(r), 'parameters', eqs, prob)
                goals.append((f'N={N}: TWIN (must fail) the first update of the resumed run does not move the parameters',
                              d.and_(*[x for _, x in eqs]) if eqs else d.TRUE, 'twin', N, [p for p, _ in eqs]))
            eqs, prob = [], []
            compare(d, params_of(f), params_of(r), 'parameters', eqs, prob)
            goals.append((f'N={N}: parameters after update {j} of the resumed run == after update {N + j} of the '
                          f'uninterrupted run', d.and_(*[x for _, x in eqs]) if eqs else d.TRUE, 'trajectory', N,
                          [p for p, _ in eqs]))
            eqs2 = []
            compare(d, strip(f[0], ('id', 'type', 'iteration')), strip(r[0], ('id', 'type', 'iteration')), 'state',
                    eqs2, prob)
            goals.append((f'N={N}: optimiser and scheduler state after update {j} of the resumed run == after update '
                          f'{N + j} of the uninterrupted run', d.and_(*[x for _, x in eqs2]) if eqs2 else d.TRUE,
                          'trajectory-state', N, [p for p, _ in eqs2]))
            for p in prob:
                problems.append((N, f'resumed-run:update {j}:' + p))
    return {'V': V, 'domain': domain, 'hyps': hyps, 'goals': goals, 'problems': problems, 'pcs': list(t.pcs),
            'npcs_full': npcs_full, 'T_full': T_full}


# ------------------------------------------------------------------------------------------ concrete replay
def replay(algo, sched, groups, N, K, values):
    """The same history on the real code with plain tensors and real checkpoint files.
    -> (reproduced, signature, detail)"""
    _, RealTarget = _targets()
    vals = dict(WITNESS)
    vals.update({k: float(v) for k, v in values.items() if k in WITNESS})
    old = torch.get_default_dtype()
    torch.set_default_dtype(torch.float64)
    try:
        with tempfile.TemporaryDirectory() as tmp, warnings.catch_warnings():
            warnings.simplefilter('ignore')
            last = N + K
            launch(make_spec(algo, sched, groups, vals, last + 1, os.path.join(tmp, 'full.json')), RealTarget)
            a = launch(make_spec(algo, sched, groups, vals, N, os.path.join(tmp, 'run.json')), RealTarget)['opt']
            path = os.path.join(tmp, f'run-{N}.json')
            if not os.path.exists(path):
                return True, f'Optimizer.run:no-checkpoint-in-iteration-{N}', 'no checkpoint file'
            from torchtree.core.utils import TensorDecoder

            with open(path) as fp:
                ck = json.load(fp, cls=TensorDecoder)
            with open(path) as fp:
                ref = json.load(fp, cls=TensorDecoder)
            try:
                dic = launch(make_spec(algo, sched, groups, vals, last, os.path.join(tmp, 'res.json')), RealTarget,
                             checkpoint=ck, run=False)
            except Exception as e:
                who = M._raiser_class(e, 'Optimizer')
                if isinstance(e, KeyError) and len(e.args) == 1 and isinstance(e.args[0], str):
                    return True, f'{who}.load_state_dict:KeyError-{e.args[0]}', f'restart raises {e!r}'
                return True, f'{who}.load_state_dict:raises-{type(e).__name__}', f'restart raises {e!r}'
            b = dic['opt']
            found = []
            if b._epoch != ref[0]['iteration']:
                found.append(('Optimizer.load_state_dict:_epoch-not-restored', f'{b._epoch} vs {ref[0]["iteration"]}'))
            for pa, pb in zip(a.parameters, b.parameters):
                dd = M.diff(pa.tensor.detach(), pb.tensor.detach(), f'parameter[{pa.id}]')
                if dd:
                    found.append((f'update_parameters:{dd.split(":")[-1]}-not-restored', dd))
            ia, ib = M._optimizer_items(a), M._optimizer_items(b)
            if len(ia) != len(ib):
                found.append(('Optimizer.load_state_dict:state-structure-differs', ''))
            else:
                for (cls, pth, oa, na), (_, _, ob, nb) in zip(ia, ib):
                    if pth == '_epoch':
                        continue  # a finished iteration N (its counter is N + 1), b is about to repeat it
                    dd = M.diff(getattr(oa, na), getattr(ob, nb), pth)
                    if dd:
                        found.append((M._sig_field(cls, pth, dd), dd))
            try:
                with contextlib.redirect_stdout(io.StringIO()):
                    b.run()
            except Exception as e:
                found.append((f'Optimizer.run:raises-after-restart-{type(e).__name__}', repr(e)))
                return True, found[0][0], '; '.join(f'{s} ({x})' for s, x in found)
            div = None
            written = sorted((k for k in os.listdir(tmp) if k.startswith('res-')), key=_epoch_of)
            if not written:
                found.append(('Optimizer.run:no-checkpoint-after-restart', ''))
            for j, name in enumerate(written, 1):
                if not os.path.exists(os.path.join(tmp, f'full-{N + j}.json')):
                    break
                with open(os.path.join(tmp, name)) as fp:
                    r = json.load(fp)
                with open(os.path.join(tmp, f'full-{N + j}.json')) as fp:
                    f = json.load(fp)
                pr, pf = params_of(r), params_of(f)
                if pr != pf:
                    div = (j, pf, pr)
                    break
            if div is not None:
                found.append((f'Optimizer.run:trajectory-differs-after-restart[{algo}+{sched}]',
                              f'update {div[0]} after the restart: uninterrupted {div[1]} resumed {div[2]}'))
            if not found:
                return False, '', f'state and trajectory identical at {vals}'
            return True, found[0][0], '; '.join(f'{s} ({x})' for s, x in found[:4]) + f' at {vals}'
    finally:
        torch.set_default_dtype(old)


# ----------------------------------------------------------------------------------- deciding the goals
def abstract_nonlinear(d, roots):
    """Sound generalisation for PROVING: products of two non-constant terms, quotients and powers become
    applications of uninterpreted symbols MUL / DIV / POWn (with the ground commutativity instances of MUL).
    Every real model is a model of the abstraction, so `unsat` of the abstraction is `unsat` of the original;
    `sat` of the abstraction means nothing (the exact query is asked next).  Both runs apply the same
    operations to values that the hypotheses make equal, so congruence + linear arithmetic normally suffices."""
    d.uf_eval.setdefault('MUL', lambda a, b: a * b)
    d.uf_eval.setdefault('DIV', lambda a, b: (a / b) if b != 0 else float('nan'))
    out = {}
    comm = []
    for n in d.topo(roots):
        op = d.ops[n]
        a = d.args[n]
        if op in ('const', 'var', 'bconst'):
            out[n] = n
        elif op == 'add':
            out[n] = d.add(out[a[0]], out[a[1]])
        elif op == 'mul':
            x, y = out[a[0]], out[a[1]]
            if d.ops[x] == 'const' or d.ops[y] == 'const':
                out[n] = d.mul(x, y)
            else:
                m1, m2 = d.uf('MUL', x, y), d.uf('MUL', y, x)
                if m1 != m2:
                    comm.append(d.eq(m1, m2))
                out[n] = m1
        elif op == 'div':
            out[n] = d.uf('DIV', out[a[0]], out[a[1]])
        elif op == 'ipow':
            k = int(a[1])
            d.uf_eval.setdefault(f'POW{k}', (lambda kk: (lambda v: v ** kk))(k))
            out[n] = d.uf(f'POW{k}', out[a[0]])
        elif op == 'stop':
            out[n] = d.stop(out[a[0]])
        elif op == 'ite':
            out[n] = d.ite(out[a[0]], out[a[1]], out[a[2]])
        elif op == 'uf':
            out[n] = d.uf_raw(a[0], *[out[x] for x in a[1:]]) if a[0] in d.uf_eval else d.uf(a[0], *[out[x] for x in a[1:]])
        elif op == 'le':
            out[n] = d.le(out[a[0]], out[a[1]])
        elif op == 'lt':
            out[n] = d.lt(out[a[0]], out[a[1]])
        elif op == 'eq':
            out[n] = d.eq(out[a[0]], out[a[1]])
        elif op == 'and':
            out[n] = d.and_(*[out[c] for c in a])
        elif op == 'or':
            out[n] = d.or_(*[out[c] for c in a])
        elif op == 'not':
            out[n] = d.not_(out[a[0]])
        else:
            raise ValueError(op)
    return [out[r] for r in roots], comm


def decide(d, hyps, node, V, tr, label, timeout, exact=True):
    """-> (status, values) with status proved / refuted / unknown; `proved` may come from the abstraction."""
    from symtorch.explore import _to_float, prove

    if node == d.TRUE:
        st, _, _ = prove(d, [], node, tr=tr, label=label)
        return 'proved', None, 'identical terms'
    roots, comm = abstract_nonlinear(d, list(hyps) + [node])
    st, r, _ = prove(d, roots[:-1] + comm, roots[-1], timeout=max(10.0, timeout / 2), tr=tr, label=label + ' [abstraction]',
                     parallel=True)
    if st == 'proved':
        return 'proved', None, 'congruence + linear arithmetic (products/quotients uninterpreted)'
    if not exact:
        return ('refuted' if st == 'refuted' else 'unknown'), None, 'abstraction only'
    st, r, _ = prove(d, list(hyps), node, timeout=timeout, get_values=list(V.values()), tr=tr, label=label,
                     parallel=True)
    vals = None
    if st == 'refuted':
        vals = {n: _to_float(r.values[i]) for n, i in V.items() if i in r.values}
    return st, vals, 'exact real arithmetic'


# ------------------------------------------------------------------------------------------------ the task
BOUNDS_TEXT = (
    'symtorch: real torchtree Optimizer (from_json -> run -> save_full_state -> restart as torchtree.main -> run) over '
    'real torch.optim update rules {algos} x schedulers {scheds} x {groups} param group(s) (second group with its own '
    'learning rate); two parameters (shapes [2] and [1], float64); symbolic: initial parameter values, learning '
    'rate(s) > 0, scheduler decay gamma in (0,1); the loss is an uninterpreted differentiable function of all '
    'parameter entries; interruption at every checkpointed iteration N in {points} (checkpoint_frequency 1), {K1} '
    'further updates compared after the restart; all other hyper-parameters concrete and different from torch defaults')


def describe(sig):
    if sig.startswith('Optimizer.run:trajectory-differs-after-restart'):
        return ('an Optimizer run restarted from its checkpoint does not visit the parameter states of the uninterrupted '
                'run although every inspected state entry was restored (' + sig.split('[')[-1].rstrip(']') + ')')
    if '.load_state_dict:' in sig and sig.endswith('-not-restored'):
        what = sig.split(':')[1][:-len('-not-restored')]
        return (f"{sig.split('.load_state_dict')[0]}: {what} is not the same after writing a checkpoint and restarting "
                f"from it (e.g. the learning rate a scheduler had reached falls back to the value of the specification), "
                f"so the resumed run leaves the trajectory of the uninterrupted run")
    return sig


def resume_task(task, tr):
    """task = ('resume', algo, sched, groups, points, K, timeout)"""
    import time

    from symtorch.explore import prove
    from symtorch.tensor import tracing
    from torchtree.core.parameter import Parameter
    from torchtree.core.parameter_encoder import ParameterEncoder
    from torchtree.core.utils import TensorDecoder, TensorEncoder, update_parameters
    from torchtree.optim.lr_scheduler import Scheduler
    from torchtree.optim.optimizer import Optimizer

    _, algo, sched, groups, points, K, timeout = task
    label = f'resume[{algo}+{sched},groups={groups}]'
    tr.fn(Optimizer.from_json, Optimizer.run, Optimizer._run, Optimizer.state_dict, Optimizer.load_state_dict,
          Optimizer.save_full_state, Scheduler.from_json, Scheduler.step, Scheduler.state_dict, Scheduler.load_state_dict,
          update_parameters, Parameter.from_json, ParameterEncoder.default, TensorEncoder.default,
          TensorDecoder.object_hook, M.json_model, abstract_nonlinear)
    tr.stubs |= {
        'resume: torchtree.optim.optimizer.save_parameters (file writing: C18) is captured; the state passes through '
        'chk.c17_model.json_model (real ParameterEncoder.default / TensorDecoder.object_hook) and every non-constant '
        'float crossing the file becomes a fresh variable constrained to equal the saved value',
        'resume: the loss is an uninterpreted function U(q) (witness / replay interpretation: a coupled quadratic); its '
        'gradient is the tuple of uninterpreted partial derivatives',
        'resume: symtorch handlers for lerp_/addcmul_/addcdiv_ and add(other, alpha=) are registered locally '
        '(chk/c17_resume.install_handlers), cross-checked against torch on every call',
    }
    tr.assumptions |= {
        'resume: trajectories are compared as sequences of states: the checkpoint stores the iteration counter before '
        'it is incremented, so the resumed run repeats iteration N and, for the same `iterations`, performs one update '
        'more than the uninterrupted run (noted, not judged)',
        'resume: dict key types (int vs str) are not visible after the JSON model on both sides; they are judged by the '
        'CrossHair cases and, here, through their effect on the trajectory',
        'resume: goals proved on the abstraction (products / quotients / powers uninterpreted, MUL commutative) hold '
        'for every interpretation, hence without any definedness side condition; goals that need exact arithmetic are '
        'only accepted together with a proof that torch\'s denominators are non-zero and its sqrt arguments non-negative',
    }
    t0 = time.time()
    with tracing() as t:
        d = t.dag
        try:
            out = symbolic_run(algo, sched, groups, points, K)
        except Exception as e:
            import traceback

            tr.inconc(f'{label}: symbolic execution failed: {type(e).__name__}: {e} {traceback.format_exc()[-600:]}')
            return
        tr.witness_runs += 1 + len(points)
        tr.ops_checked += t.nchecked
        tr.regions += 1
        if t.concretized:
            tr.inconc(f'{label}: concretised {t.concretized[:3]}')
            return
        V = out['V']
        hyps = out['domain'] + out['pcs'] + out['hyps']
        if not all(bool(d.vals[h]) for h in hyps):
            tr.inconc(f'{label}: the witness does not satisfy the hypotheses (vacuous)')
            return
        # coverage: the explored region is the whole domain
        if out['pcs']:
            st, r, _ = prove(d, out['domain'], d.and_(*out['pcs']), timeout=timeout, tr=tr,
                             label=label + ' coverage', parallel=True)
            if st != 'proved':
                tr.inconc(f'{label}: path conditions {[d.to_str(p, 4) for p in out["pcs"]]} do not follow from the domain '
                          f'({st}): further regions would have to be explored')
                return
        tr.closures += 1
        witness = {n: d.vals[i] for n, i in V.items()}
        dead = {}  # N -> signature already reported
        lemmas = {}  # N -> goals already proved for that interruption point

        def judge(N, vals_list, glabel, why):
            for vals in vals_list:
                ok, sig, detail = replay(algo, sched, groups, N, K, vals)
                tr.witness_runs += 1
                if ok:
                    tr.violation(sig, f'{describe(sig)} [{label}, interrupted in iteration {N}; {why}: {glabel}; real run: '
                                      f'{detail[:700]}]',
                                 {'kind': 'resume', 'algo': algo, 'sched': sched, 'groups': groups, 'N': N, 'K': K,
                                  'values': vals, 'signature': sig})
                    tr.sample({'case': label, 'N': N, 'counterexample': vals, 'signature': sig,
                               'replayed_on_real_files': True})
                    dead[N] = sig
                    return True
            tr.inconc(f'{label}: {why} for "{glabel}" but the real run with real files shows no difference at '
                      f'{vals_list} ({detail[:200]})')
            dead[N] = None
            return False

        for N, text in out['problems']:
            if N in dead:
                continue
            judge(N, [witness], text, 'concrete difference on the symbolic run')
        for g in out['goals']:
            glabel, node, kind, N, paths = g
            if kind == 'twin':
                # reachability twin: a goal that is false by construction must not be provable from the hypotheses
                st, _, _ = decide(d, hyps, node, V, tr, f'{label} {glabel}', timeout, exact=False)
                if st != 'refuted' or bool(d.vals[node]):
                    tr.inconc(f'{label}: reachability twin "{glabel}" was not refuted ({st}, value at the witness '
                              f'{d.vals[node]}): proofs of the other goals could be vacuous')
                    return
                continue
            if N in dead:
                continue
            # lemma chaining: what was proved for this interruption point (state after the restart, states after the
            # earlier updates) is a hypothesis for the later updates - one congruence step per update
            st, vals, how = decide(d, hyps + lemmas.get(N, []), node, V, tr, f'{label} {glabel}', timeout)
            if st == 'proved':
                lemmas.setdefault(N, []).append(node)
                if how.startswith('exact') and (t.denominators or t.domains):
                    from symtorch.axioms import ground_axioms

                    obl = [d.not_(d.eq(b, 0)) for b in t.denominators]
                    obl += [d.lt(0, x) if k == 'pos' else d.le(0, x) for k, x in t.domains]
                    allok = d.and_(*obl)
                    st2, _, _ = prove(d, hyps + ground_axioms(d, [allok]), allok, timeout=timeout, tr=tr,
                                      label=label + ' definedness', parallel=True)
                    if st2 != 'proved':
                        tr.inconc(f'{label}: "{glabel}" needs exact arithmetic and the definedness of torch\'s own '
                                  f'quotients / square roots was not proved ({st2})')
                continue
            if st == 'refuted':
                judge(N, [vals, witness], glabel, 'solver counterexample')
            else:
                judge(N, [witness], glabel, 'solver undecided, witness tried')
        shown = [g for g in out['goals'] if g[2] == 'trajectory']
        if shown:
            g = shown[-1]
            tr.sample({'case': label, 'points': list(points), 'goal': g[0], 'entries': g[4][:4], 'first_entry_resumed_vs_uninterrupted': d.to_str(g[1], 5)[:300],
                       'file_variables': len(out['hyps']), 'dag_nodes': len(d.ops), 'seconds': round(time.time() - t0, 1)},
                      limit=2)
