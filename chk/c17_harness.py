"""C17 CrossHair harness: PEP316 contracts over the real torchtree state_dict / load_state_dict code.

Every `*_rt` function performs one checkpoint round trip (chk.c17_model.roundtrip) with *symbolic* counters,
tuning values, window contents, flags, configuration selectors and adaptation-window bounds (`finite`, `ws`, `we`:
the adaptors are built with the class defaults or with a finite window [ws, we], so the symbolic call counters lie
before, inside or after it), and returns '' or the signature of the
first problem found (load raised / read a key that was never written / a state field differs / state_dict
differs after reload).  `crosshair check --report_all` must answer "Confirmed over all paths" for the
property to count as held.  Every `*_twin` function has the same precondition and body but a post-condition
that must be REFUTED (it says the end of the body is never reached), so a vacuous precondition or an
always-raising body cannot pass for a proof.

The docstrings are read raw by CrossHair; keep `pre:` / `post:` on their own lines.
"""
from chk import c17_model as M


# ------------------------------------------------------------------------------- simple MCMC operators
def ScalerOperator_rt(adapt: int, acc: int, rej: int, tune: float, w0: int, w1: int, w2: int, nw: int) -> str:
    """
    pre: 0 <= nw <= 3
    post: __return__ == ''
    """
    return M.first_problem('ScalerOperator', (adapt, acc, rej, tune, w0, w1, w2, nw))


def ScalerOperator_twin(adapt: int, acc: int, rej: int, tune: float, w0: int, w1: int, w2: int, nw: int) -> str:
    """
    pre: 0 <= nw <= 3
    post: __return__ != 'reached'
    """
    return M.reached('ScalerOperator', (adapt, acc, rej, tune, w0, w1, w2, nw))


def SlidingWindowOperator_rt(adapt: int, acc: int, rej: int, tune: float, w0: int, w1: int, w2: int, nw: int) -> str:
    """
    pre: 0 <= nw <= 3
    post: __return__ == ''
    """
    return M.first_problem('SlidingWindowOperator', (adapt, acc, rej, tune, w0, w1, w2, nw))


def SlidingWindowOperator_twin(adapt: int, acc: int, rej: int, tune: float, w0: int, w1: int, w2: int,
                               nw: int) -> str:
    """
    pre: 0 <= nw <= 3
    post: __return__ != 'reached'
    """
    return M.reached('SlidingWindowOperator', (adapt, acc, rej, tune, w0, w1, w2, nw))


def DirichletOperator_rt(adapt: int, acc: int, rej: int, tune: float, w0: int, w1: int, w2: int, nw: int) -> str:
    """
    pre: 0 <= nw <= 3
    post: __return__ == ''
    """
    return M.first_problem('DirichletOperator', (adapt, acc, rej, tune, w0, w1, w2, nw))


def DirichletOperator_twin(adapt: int, acc: int, rej: int, tune: float, w0: int, w1: int, w2: int, nw: int) -> str:
    """
    pre: 0 <= nw <= 3
    post: __return__ != 'reached'
    """
    return M.reached('DirichletOperator', (adapt, acc, rej, tune, w0, w1, w2, nw))


def GMRFPiecewiseCoalescentBlockUpdatingOperator_rt(adapt: int, acc: int, rej: int, tune: float, w0: int, w1: int,
                                                    w2: int, nw: int) -> str:
    """
    pre: 0 <= nw <= 3
    post: __return__ == ''
    """
    return M.first_problem('GMRFPiecewiseCoalescentBlockUpdatingOperator', (adapt, acc, rej, tune, w0, w1, w2, nw))


def GMRFPiecewiseCoalescentBlockUpdatingOperator_twin(adapt: int, acc: int, rej: int, tune: float, w0: int, w1: int,
                                                      w2: int, nw: int) -> str:
    """
    pre: 0 <= nw <= 3
    post: __return__ != 'reached'
    """
    return M.reached('GMRFPiecewiseCoalescentBlockUpdatingOperator', (adapt, acc, rej, tune, w0, w1, w2, nw))


# ----------------------------------------------------------------------------------- HMC building blocks
def LeapfrogIntegrator_rt(steps: int, step_size: float) -> str:
    """
    post: __return__ == ''
    """
    return M.first_problem('LeapfrogIntegrator', (steps, step_size))


def LeapfrogIntegrator_twin(steps: int, step_size: float) -> str:
    """
    post: __return__ != 'reached'
    """
    return M.reached('LeapfrogIntegrator', (steps, step_size))


def AdaptiveStepSize_rt(cc: int, accepted: int, use_rate: bool, finite: bool, ws: int, we: int) -> str:
    """
    post: __return__ == ''
    """
    return M.first_problem('AdaptiveStepSize', (cc, accepted, use_rate, finite, ws, we))


def AdaptiveStepSize_twin(cc: int, accepted: int, use_rate: bool, finite: bool, ws: int, we: int) -> str:
    """
    post: __return__ != 'reached'
    """
    return M.reached('AdaptiveStepSize', (cc, accepted, use_rate, finite, ws, we))


def DualAveragingStepSize_rt(cc: int, cnt: int, xkind: int, f: float, finite: bool, ws: int, we: int) -> str:
    """
    pre: 0 <= xkind <= 2
    post: __return__ == ''
    """
    return M.first_problem('DualAveragingStepSize', (cc, cnt, xkind, f, finite, ws, we))


def DualAveragingStepSize_twin(cc: int, cnt: int, xkind: int, f: float, finite: bool, ws: int, we: int) -> str:
    """
    pre: 0 <= xkind <= 2
    post: __return__ != 'reached'
    """
    return M.reached('DualAveragingStepSize', (cc, cnt, xkind, f, finite, ws, we))


def MassMatrixAdaptor_rt(cc: int, samples: int, diag: bool, mode: int, nvals: int, samples2: int,
                         finite: bool, ws: int, we: int) -> str:
    """
    pre: 0 <= mode <= 2 and 0 <= nvals <= 2
    post: __return__ == ''
    """
    return M.first_problem('MassMatrixAdaptor', (cc, samples, diag, mode, nvals, samples2, finite, ws, we))


def MassMatrixAdaptor_twin(cc: int, samples: int, diag: bool, mode: int, nvals: int, samples2: int,
                         finite: bool, ws: int, we: int) -> str:
    """
    pre: 0 <= mode <= 2 and 0 <= nvals <= 2
    post: __return__ != 'reached'
    """
    return M.reached('MassMatrixAdaptor', (cc, samples, diag, mode, nvals, samples2, finite, ws, we))


# ------------------------------------------------------------- HMC operator with every adaptor combination
def HMCOperator_diag_rt(has_ass: bool, has_da: bool, has_mma: bool, adapt: int, acc: int, rej: int, w0: int,
                   nw: int, steps: int, snum: int, cc1: int, accd: int, cc2: int, cnt: int, cc3: int,
                   samples: int, finite: bool, ws: int, we: int) -> str:
    """
    pre: 0 <= nw <= 1
    post: __return__ == ''
    """
    return M.first_problem('HMCOperator[diag]', (has_ass, has_da, has_mma, adapt, acc, rej, w0, nw, steps, snum,
                    cc1, accd, cc2, cnt, cc3, samples, finite, ws, we))


def HMCOperator_diag_twin(has_ass: bool, has_da: bool, has_mma: bool, adapt: int, acc: int, rej: int, w0: int,
                   nw: int, steps: int, snum: int, cc1: int, accd: int, cc2: int, cnt: int, cc3: int,
                   samples: int, finite: bool, ws: int, we: int) -> str:
    """
    pre: 0 <= nw <= 1
    post: __return__ != 'reached'
    """
    return M.reached('HMCOperator[diag]', (has_ass, has_da, has_mma, adapt, acc, rej, w0, nw, steps, snum,
                    cc1, accd, cc2, cnt, cc3, samples, finite, ws, we))


def HMCOperator_dense_rt(has_ass: bool, has_da: bool, has_mma: bool, adapt: int, acc: int, rej: int, w0: int,
                   nw: int, steps: int, snum: int, cc1: int, accd: int, cc2: int, cnt: int, cc3: int,
                   samples: int, finite: bool, ws: int, we: int) -> str:
    """
    pre: 0 <= nw <= 1
    post: __return__ == ''
    """
    return M.first_problem('HMCOperator[dense]', (has_ass, has_da, has_mma, adapt, acc, rej, w0, nw, steps, snum,
                    cc1, accd, cc2, cnt, cc3, samples, finite, ws, we))


def HMCOperator_dense_twin(has_ass: bool, has_da: bool, has_mma: bool, adapt: int, acc: int, rej: int, w0: int,
                   nw: int, steps: int, snum: int, cc1: int, accd: int, cc2: int, cnt: int, cc3: int,
                   samples: int, finite: bool, ws: int, we: int) -> str:
    """
    pre: 0 <= nw <= 1
    post: __return__ != 'reached'
    """
    return M.reached('HMCOperator[dense]', (has_ass, has_da, has_mma, adapt, acc, rej, w0, nw, steps, snum,
                    cc1, accd, cc2, cnt, cc3, samples, finite, ws, we))


# ------------------------------------- MCMC over Scaler + SlidingWindow + Dirichlet + GMRF block (+ HMC) operators
def MCMC_rt(epoch: int, with_hmc: bool, tnum: int, adapt: int, acc: int, rej: int, w0: int, w1: int, w2: int,
            nw: int, steps: int, snum: int, cc1: int, accd: int, cc2: int, cnt: int, cc3: int, samples: int,
            finite: bool, ws: int, we: int) -> str:
    """
    pre: 0 <= nw <= 3
    post: __return__ == ''
    """
    return M.first_problem('MCMC', (epoch, with_hmc, tnum, adapt, acc, rej, w0, w1, w2, nw, steps, snum,
                                    cc1, accd, cc2, cnt, cc3, samples, finite, ws, we))


def MCMC_twin(epoch: int, with_hmc: bool, tnum: int, adapt: int, acc: int, rej: int, w0: int, w1: int, w2: int,
              nw: int, steps: int, snum: int, cc1: int, accd: int, cc2: int, cnt: int, cc3: int, samples: int,
            finite: bool, ws: int, we: int) -> str:
    """
    pre: 0 <= nw <= 3
    post: __return__ != 'reached'
    """
    return M.reached('MCMC', (epoch, with_hmc, tnum, adapt, acc, rej, w0, w1, w2, nw, steps, snum,
                              cc1, accd, cc2, cnt, cc3, samples, finite, ws, we))
