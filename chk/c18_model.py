"""C18: a small pure-Python file-system model on which the REAL `save_parameters` is executed.

The same model runs under CrossHair (symbolic pre-state / crash index / lost-buffer count) and
concretely (classification of counterexamples, search of a crash chain from the clean state,
fidelity cross-checks against the real file system).

State of one path: (n, ver)
    n   = -1 absent, 0..K-1 a strict prefix of a K-chunk document (truncated, not parseable),
          K the whole document (complete, parseable)
    ver = version of the document the chunks belong to, MIXED if chunks of different documents /
          out-of-order chunks were combined (never parseable as "the previous or the new one")

File-system operations that count as crash points (one op index each, in program order):
    open, every chunk write, flush, close, rename/replace, remove/unlink, fsync
`crash_at` = index of the operation *before* which the process dies (ops 0..crash_at-1 took
effect, nothing after).  Crash "after" op i is crash before op i+1; crash_at >= #ops is normal
completion.  When the process dies, the last `lost` chunks still sitting in the user-space buffer of
an open handle (written since the last flush) do not reach the disk.
A path maps to an inode; an open handle keeps writing into its inode across rename / unlink (POSIX).
After the crash the model is frozen: the `with` block's close() that Python runs while the Crash
exception unwinds has no effect (a dead process closes nothing).
"""
from __future__ import annotations

import importlib
import importlib.util
import os as _real_os
import sys
import types

K = int(_real_os.environ.get('C18_K', '3'))  # chunks per document
MIXED = -7
NAME = 'ckpt.json'
OLD = NAME + '.old'
NEW = NAME + '.new'
PATHS = (NAME, OLD, NEW)
MAXOPS = 2 * K + 12  # upper bound for the symbolic crash index (more ops than any modelled protocol run)

ABSENT, COMPLETE, BAD = 0, 1, 2


class Crash(Exception):
    """The process dies here (derives from Exception on purpose: CrossHair steers with BaseException)."""


class ModelGap(Exception):
    """The code under test used a file-system facility the model does not cover -> inconclusive."""


class Blob:
    """Stands for the complete serialised document (what json.dumps would return)."""

    def __init__(self, ver):
        self.ver = ver


class Chunk:
    def __init__(self, ver, idx):
        self.ver = ver
        self.idx = idx


class Inode:
    """One file body: n chunks of document version ver (handles keep pointing at it across renames)."""

    def __init__(self, n, ver):
        self.n = n
        self.ver = ver


class ModelFS:
    def __init__(self, n0, o0, w0, crash_at, lost, new_ver=1, vers=(0, 0, 0), trace=None, other=None, primary=NAME):
        # a path maps to an Inode; "absent" is an Inode with n == -1 that no handle can hold
        self.primary = primary
        self.files = {primary: Inode(n0, vers[0]), primary + '.old': Inode(o0, vers[1]),
                      primary + '.new': Inode(w0, vers[2])}
        # other=(e0, eo0, ew0): any further base name b that the code under test touches gets its own
        # family b / b.old / b.new with that pre-state (caller-level runs: per-epoch checkpoint names);
        # other=None (save_parameters-level runs): a path outside name/.old/.new is a ModelGap
        self.other = other
        self.families = {primary: (n0, o0, w0)}  # base name -> pre-state lengths
        self.crash_at = crash_at
        self.lost = lost
        self.new_ver = new_ver
        self.ops = 0
        self.dead = False
        self.crashed = False
        self.midwrite = False  # died with an open handle holding 1..K-1 chunks on disk
        self.gap = None
        self.error = None
        self.handles = []
        self.trace = trace  # list of (op, path) when classification is wanted (concrete runs)

    @property
    def n(self):
        return {p: f.n for p, f in self.files.items()}

    @property
    def ver(self):
        return {p: f.ver for p, f in self.files.items()}

    # ---- plumbing
    def _gap(self, msg):
        if self.gap is None:
            self.gap = msg
        raise ModelGap(msg)

    def _known(self, path):
        if not isinstance(path, str):
            path = _real_os.fspath(path)
        if path not in self.files:
            if self.other is None:
                self._gap(f'path outside the modelled directory: {path!r}')
            base = path[:-4] if path.endswith(('.old', '.new')) else path
            if base in self.families or _real_os.path.dirname(base) != '':
                self._gap(f'path outside the modelled directory: {path!r}')
            other = tuple(self.other() if callable(self.other) else self.other)
            self.families[base] = other
            for suffix, n in zip(('', '.old', '.new'), other):
                self.files[base + suffix] = Inode(n, 0)
        return path

    def _op(self, what, path):
        """One crash point.  Returns False when the process is already dead (op has no effect)."""
        if self.dead:
            return False
        if self.ops == self.crash_at:
            self._die()
            if self.trace is not None:
                self.trace.append(('CRASH-before-' + what, path))
            raise Crash(f'died before op #{self.ops} {what}({path})')
        self.ops += 1
        if self.trace is not None:
            self.trace.append((what, path))
        return True

    def _die(self):
        self.dead = True
        self.crashed = True
        for h in self.handles:
            if h.closed or h.inode is None:
                continue
            drop = self.lost
            if drop > h.unflushed:
                drop = h.unflushed
            if drop > 0:
                h.inode.n = h.inode.n - drop
            left = h.inode.n
            if 0 < h.written and 0 < left and left < K:
                self.midwrite = True

    # ---- operations
    def open(self, path, mode='r', *a, **kw):
        path = self._known(path)
        if 'b' in mode:
            mode = mode.replace('b', '')
        if mode in ('w', 'wt', 'w+'):
            h = ModelFile(self, path)
            if self._op('open-w', path):
                f = self.files[path]
                if f.n == -1:
                    f = self.files[path] = Inode(0, self.new_ver)  # created
                else:
                    f.n = 0  # truncated in place (same inode)
                    f.ver = self.new_ver
                h.inode = f
            self.handles.append(h)
            return h
        if mode in ('x', 'xt'):
            h = ModelFile(self, path)
            if self._op('open-x', path):
                if self.files[path].n != -1:
                    raise FileExistsError(path)
                h.inode = self.files[path] = Inode(0, self.new_ver)
            self.handles.append(h)
            return h
        if mode in ('a', 'at'):
            h = ModelFile(self, path)
            if self._op('open-a', path):
                if self.files[path].n == -1:
                    self.files[path] = Inode(0, self.new_ver)
                h.inode = self.files[path]
            self.handles.append(h)
            return h
        self._gap(f'open mode {mode!r} not modelled')

    def write_chunk(self, h, ver, idx):
        if not self._op(f'write[{idx}]', h.path):
            return
        f = h.inode
        if f.n == idx and (idx == 0 or f.ver == ver):
            f.ver = ver
        else:
            f.ver = MIXED
        f.n = f.n + 1
        h.unflushed += 1
        h.written += 1

    def rename(self, src, dst, *a, **kw):
        src = self._known(src)
        dst = self._known(dst)
        if a or kw:
            self._gap('rename with dir_fd arguments not modelled')
        if not self._op('rename', f'{src}->{dst}'):
            return
        if self.files[src].n == -1:
            raise FileNotFoundError(src)
        if src != dst:
            # POSIX rename: atomic, replaces an existing destination; open handles follow the inode
            self.files[dst] = self.files[src]
            self.files[src] = Inode(-1, 0)

    def remove(self, path, *a, **kw):
        path = self._known(path)
        if not self._op('remove', path):
            return
        if self.files[path].n == -1:
            raise FileNotFoundError(path)
        self.files[path] = Inode(-1, 0)  # a handle still open keeps writing into the unlinked inode

    def exists(self, path):
        # read-only: not a crash point of its own (dying before it == dying before the next mutating op)
        path = self._known(path)
        return self.files[path].n != -1

    def fsync(self, fd):
        if not isinstance(fd, ModelFileno):
            self._gap('fsync on an unknown descriptor')
        self._op('fsync', fd.h.path)

    # ---- observation
    def cls(self, path):
        f = self.files[path]
        if f.n == -1:
            return ABSENT
        if f.n == K and f.ver != MIXED:
            return COMPLETE
        return BAD

    def family_classes(self, base):
        return (self.cls(base), self.cls(base + '.old'), self.cls(base + '.new'))

    def summary(self):
        p = self.primary
        return (self.cls(p), self.cls(p + '.old'), self.cls(p + '.new'), self.midwrite, self.crashed, self.ops)


class ModelFileno:
    def __init__(self, h):
        self.h = h


class ModelFile:
    def __init__(self, fs, path):
        self.fs = fs
        self.path = path  # path it was opened under (for traces)
        self.inode = None
        self.closed = False
        self.unflushed = 0
        self.written = 0

    def write(self, data):
        if self.closed and not self.fs.dead:
            raise ValueError('I/O operation on closed file.')
        if isinstance(data, Chunk):
            self.fs.write_chunk(self, data.ver, data.idx)
        elif isinstance(data, Blob):
            # one big write() may be cut anywhere: K crash points
            for j in range(K):
                self.fs.write_chunk(self, data.ver, j)
        else:
            self.fs._gap(f'write of unmodelled data {type(data).__name__}')
        return 1

    def flush(self):
        if self.fs._op('flush', self.path):
            self.unflushed = 0

    def fileno(self):
        return ModelFileno(self)

    def close(self):
        if self.closed:
            return
        if self.fs._op('close', self.path):
            self.unflushed = 0
            self.closed = True

    def __enter__(self):
        return self

    def __exit__(self, *exc):
        self.close()
        return False

    def __getattr__(self, item):
        self.fs._gap(f'file method {item} not modelled')


class _Shim:
    """Attribute namespace standing in for a module; anything not modelled is a ModelGap."""

    def __init__(self, fs, label, **attrs):
        self.__dict__['_fs'] = fs
        self.__dict__['_label'] = label
        self.__dict__.update(attrs)

    def __getattr__(self, item):
        self._fs._gap(f'{self._label}.{item} not modelled')


def _json_shim(fs):
    def dump(obj, fp, *a, **kw):
        # the pure-Python encoder that json.dump uses with indent/cls issues one fp.write per token:
        # modelled as K consecutive chunk writes
        for j in range(K):
            fp.write(Chunk(fs.new_ver, j))

    def dumps(obj, *a, **kw):
        return Blob(fs.new_ver)

    return _Shim(fs, 'json', dump=dump, dumps=dumps)


def _os_shim(fs):
    path = _Shim(fs, 'os.path', lexists=fs.exists, exists=fs.exists, isfile=fs.exists,
                 join=_real_os.path.join, basename=_real_os.path.basename, dirname=_real_os.path.dirname,
                 splitext=_real_os.path.splitext)
    return _Shim(fs, 'os', rename=fs.rename, replace=fs.rename, remove=fs.remove, unlink=fs.remove,
                 fsync=fs.fsync, path=path, fspath=_real_os.fspath, sep=_real_os.sep, linesep=_real_os.linesep)


def _direct_map(fs):
    import json as _json

    return {
        id(_real_os.rename): fs.rename, id(_real_os.replace): fs.rename, id(_real_os.remove): fs.remove,
        id(_real_os.unlink): fs.remove, id(_real_os.fsync): fs.fsync, id(_real_os.path.exists): fs.exists,
        id(_real_os.path.lexists): fs.exists, id(_real_os.path.isfile): fs.exists,
        id(_json.dump): _json_shim(fs).dump, id(_json.dumps): _json_shim(fs).dumps,
    }


_GAP_MODULES = ('shutil', 'tempfile', 'pathlib', 'io', 'glob', 'fcntl', 'posix', 'posixpath', 'genericpath',
                'subprocess')

_TARGET = None


def target_module():
    """The module whose `save_parameters` is checked: torchtree.core.parameter_utils, or - for the
    sensitivity test of this harness only - a scratch copy named by C18_TARGET_MODULE."""
    global _TARGET
    if _TARGET is None:
        p = _real_os.environ.get('C18_TARGET_MODULE')
        if p:
            spec = importlib.util.spec_from_file_location('c18_scratch_target', p)
            m = importlib.util.module_from_spec(spec)
            sys.modules['c18_scratch_target'] = m
            spec.loader.exec_module(m)
            _TARGET = m
        else:
            _TARGET = importlib.import_module('torchtree.core.parameter_utils')
    return _TARGET


def patch_plan(mod, fs, os_obj, json_obj, open_fn, direct):
    """name -> replacement for every file-system facility visible in the target module namespace."""
    plan = {'open': open_fn}
    for k, v in list(vars(mod).items()):
        if isinstance(v, types.ModuleType):
            if v is _real_os:
                plan[k] = os_obj
            elif v.__name__ == 'json':
                if json_obj is not None:
                    plan[k] = json_obj
            elif v is _real_os.path:
                plan[k] = os_obj.path
            elif v.__name__.split('.')[0] in _GAP_MODULES:
                plan[k] = _Shim(fs, v.__name__) if fs is not None else v
        elif id(v) in direct:
            plan[k] = direct[id(v)]
    return plan


class patched:
    def __init__(self, mod, plan):
        self.mod = mod
        self.plan = plan
        self.saved = {}

    def __enter__(self):
        d = vars(self.mod)
        for k, v in self.plan.items():
            self.saved[k] = d.get(k, _MISSING)
            d[k] = v
        return self

    def __exit__(self, *exc):
        d = vars(self.mod)
        for k, v in self.saved.items():
            if v is _MISSING:
                d.pop(k, None)
            else:
                d[k] = v
        return False


_MISSING = object()
PARAMS = ['<parameters>']  # never inspected: json.dump is modelled


def run_model(n0, o0, w0, crash_at, lost, safely=True, overwrite=False, new_ver=1, vers=(0, 0, 0), trace=None):
    """Execute the real save_parameters once on the model.  Returns the ModelFS afterwards."""
    mod = target_module()
    fs = ModelFS(n0, o0, w0, crash_at, lost, new_ver=new_ver, vers=vers, trace=trace)
    plan = patch_plan(mod, fs, _os_shim(fs), _json_shim(fs), fs.open, _direct_map(fs))
    with patched(mod, plan):
        try:
            mod.save_parameters(NAME, PARAMS, safely, overwrite)
        except Exception as e:  # Crash, or an error raised by the code under test (never BaseException)
            fs.error = type(e).__name__
    if fs.gap is not None:
        raise ModelGap(fs.gap)
    if not fs.dead:
        for h in fs.handles:
            if not h.closed:
                raise ModelGap('handle left open at normal return (not modelled)')
    return fs


def step(n0, o0, w0, crash_at, lost, safely=True, overwrite=False):
    return run_model(n0, o0, w0, crash_at, lost, safely, overwrite).summary()
