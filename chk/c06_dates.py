"""C06 sub-check "sampling dates -> leaf heights" (CrossHair + z3).

    from chk import c06_dates
    c06_dates.run(tr, tier)          # tr: vlib.core.TaskResult, tier: 'quick' | 'thorough'

The PEP316 contracts live in chk/c06_dates_harness.py; every condition is run by
`python -m chk.c06_dates_xh check ...` (launcher: imports torch before CrossHair's audit wall, float model
= reals) in its own subprocess, all of them in parallel.  Deciding step = CrossHair's verdict per condition:
    "Confirmed over all paths"      -> held
    "false when calling f(args)"    -> the arguments are replayed on a fresh real TimeTreeModel built from JSON
                                       (process_object -> TimeTreeModel.from_json, real torch.tensor); only if the
                                       post is false there too it becomes tr.violation(signature, ...)
    anything else                   -> tr.inconc  ("Not confirmed", "Unable to meet precondition", time-outs,
                                       a reachability twin that was not refuted, a replay that does not reproduce)
Every refuted twin is replayed as well: the value CrossHair saw (with torch.tensor stubbed) has to be the
value the real model produces (witness run).

Stand-alone:  cd /verif && PYTHONPATH=/verif:/repo .venv/bin/python chk/c06_dates.py quick
"""
from __future__ import annotations

import ast
import inspect
import os
import re
import subprocess
import sys
import time
from concurrent.futures import ThreadPoolExecutor

VERIF = os.path.dirname(os.path.dirname(os.path.abspath(__file__)))
REPO = os.environ.get('TORCHTREE_REPO', '/repo')
LINE = re.compile(r'^(?P<file>.*?):(?P<line>\d+): (?P<kind>info|error|warning): (?P<msg>.*)$')

#: conditions whose refutation is a property violation (after replay); base name -> clause text
CLAUSES = {
    'nonneg': '(1) leaf heights >= 0 and the most recent sample at height exactly 0',
    'ages': '(2) smallest date 0 ("time starts at 0"): height_i == date_i',
    'calendar': '(2) smallest date > 0 (calendar time): height_i == max(date) - date_i',
    'order': '(2) later calendar date <=> smaller height (ages: order kept); ties in dates <=> ties in heights',
    'conv': '(1)+(2) heights equal the documented convention, are >= 0 with a zero, and reflect the order / ties of the dates',
    'tips': '(3)+(4) tip of taxon i has node.index i and node.date == sampling_times[i] == height of taxon i for every newick tip order',
    'postorder': '(3)+(4) as before with use_postorder_indices=True: sampling_times[node.index] == node.date == height of the tip\'s own taxon',
    'iso': '(5) isochronous non-zero calendar dates: all heights 0',
    'shift': '(5) calendar dates: heights invariant under a common shift of all dates',
    'named': 'setup_dates: dates parsed from taxon names follow the same convention; oldest == max - min',
    'hfb': 'heights_from_branch_lengths: every parent strictly older than its children, tips at their sampling time',
}


def _harness():
    os.environ.pop('C06D_ACTIVE', None)  # never patch tree_model.torch in the driver process
    import chk.c06_dates_harness as H

    return H


def _line_map(H):
    """source line -> harness function name (CrossHair reports the line of the post)"""
    spans = []
    for name, f in vars(H).items():
        if inspect.isfunction(f) and f.__module__ == H.__name__ and re.match(r'^[a-z]+[34](_twin)?$', name):
            src, first = inspect.getsourcelines(f)
            spans.append((first, first + len(src) - 1, name))
    return spans


def contract_of(H, fn):
    doc = getattr(H, fn).__doc__ or ''
    return ' ; '.join(ln.strip() for ln in doc.splitlines() if ln.strip().startswith(('pre:', 'post:')))


# ---------------------------------------------------------------- plan
def plan(tier, postorder=True):
    H = _harness()
    jobs = []

    def add(fns, mode='float', timeout=45, klo=0, khi=10 ** 6, sel=None):
        jobs.append(dict(fns=[x for f in fns for x in (f, f + '_twin')], mode=mode, timeout=timeout, klo=klo, khi=khi,
                         sel=sel or tier))

    def chunks(n, sel, size):
        m = len(H.selection(n, sel))
        return [(a, min(m, a + size)) for a in range(0, m, size)]

    if tier == 'quick':
        T = 90  # nominal 5-20 s per condition on an idle machine
        add(['nonneg3', 'order3', 'ages3', 'calendar3'], timeout=T)
        add(['shift3', 'iso3'] + (['postorder3', 'postorder4'] if postorder else []), timeout=T)
        add(['nonneg3', 'ages3', 'calendar3', 'order3'], mode='int', timeout=T)
        for a, b in chunks(3, 'quick', 3):
            add(['tips3'], timeout=T, klo=a, khi=b)
        add(['conv4'], timeout=T)  # (1)+(2) for 4 taxa in one exploration
        add(['shift4'], timeout=T)
        for a, b in ((1, 2), (6, 7)):
            add(['tips4'], timeout=T, klo=a, khi=b)
        add(['iso4'], timeout=T)
        add(['named3'], timeout=T, klo=7, khi=8)
        add(['hfb3'], timeout=T, klo=5, khi=6)
    else:
        T = 420
        for n in (3, 4):
            for mode in ('float', 'int'):
                add([f'nonneg{n}', f'order{n}'], mode=mode, timeout=T)
                add([f'ages{n}', f'calendar{n}'], mode=mode, timeout=T)
                add([f'shift{n}'], mode=mode, timeout=T)
        for mode in ('float', 'int'):
            for a, b in chunks(3, 'thorough', 3):
                add(['tips3'], mode=mode, timeout=T, klo=a, khi=b)
            add(['iso3', 'iso4'], mode=mode, timeout=T, sel='quick')
        for a, b in chunks(4, 'thorough', 2):  # all 4! tip orders, 32 (tip order, ordered shape) pairs
            add(['tips4'], timeout=T, klo=a, khi=b)
        for a, b in chunks(4, 'quick', 2):
            add(['tips4'], mode='int', timeout=T, klo=a, khi=b, sel='quick')
        if postorder:
            add(['postorder3', 'postorder4'], timeout=T)
            add(['postorder3', 'postorder4'], mode='int', timeout=T, sel='quick')
        for a, b in chunks(3, 'thorough', 1):
            add(['named3'], timeout=T, klo=a, khi=b)
        for a, b in chunks(3, 'thorough', 2):
            add(['hfb3'], timeout=T, klo=a, khi=b)
    # longest first (tips4 / named3 / hfb3 dominate)
    jobs.sort(key=lambda j: -({'tips4': 5, 'named3': 4, 'hfb3': 3, 'tips3': 2}.get(j['fns'][0], 0)))
    return jobs


# ---------------------------------------------------------------- CrossHair invocation
def crosshair(job, spans):
    env = dict(os.environ)
    env.update({'C06D_MODE': job['mode'], 'C06D_KLO': str(job['klo']), 'C06D_KHI': str(job['khi']),
                'C06D_TIER': job['sel'], 'C06D_REALS': '1', 'CROSSHAIR_ONLY_FINITE_FLOATS': '1',
                'PYTHONWARNINGS': 'ignore'})
    env['PYTHONPATH'] = f'{VERIF}:{REPO}' + (':' + env['PYTHONPATH'] if env.get('PYTHONPATH') else '')
    env.pop('C06D_ACTIVE', None)
    t = job['timeout']
    cmd = [sys.executable, '-m', 'chk.c06_dates_xh', 'check', '--report_all', '--per_condition_timeout', str(t),
           '--per_path_timeout', str(max(5.0, t / 4))] + [f'chk.c06_dates_harness.{f}' for f in job['fns']]
    t0 = time.time()
    try:
        p = subprocess.run(cmd, env=env, cwd=VERIF, capture_output=True, text=True, timeout=t * len(job['fns']) * 1.2 + 60)
        out, err, rc = p.stdout, p.stderr, p.returncode
    except subprocess.TimeoutExpired as e:
        out, err, rc = (e.stdout or ''), 'wall-clock timeout', -9
        if isinstance(out, bytes):
            out = out.decode(errors='replace')
    wall = time.time() - t0
    res = {f: dict(job, fn=f, verdict='unknown', msg='no CrossHair line for this condition; ' + (err.strip()[-300:] or out.strip()[-300:]),
                   args=None, returns=None, wall=wall / len(job['fns']), rc=rc) for f in job['fns']}
    for ln in out.splitlines():
        m = LINE.match(ln.strip())
        if not m:
            continue
        lineno = int(m.group('line'))
        fn = next((name for a, b, name in spans if a <= lineno <= b), None)
        if fn not in res:
            continue
        r = res[fn]
        msg = m.group('msg')
        r['msg'] = msg[:700]
        if msg.startswith('Confirmed over all paths'):
            r['verdict'] = 'confirmed'
        elif msg.startswith('false when calling'):
            r['args'], r['returns'] = parse_call(msg, fn)
            r['verdict'] = 'refuted' if r['args'] is not None else 'unknown'
        else:
            r['verdict'] = 'unknown'  # Not confirmed / Unable to meet precondition / exception ...
    return list(res.values())


def parse_call(msg, fn):
    m = re.search(re.escape(fn) + r'(\(.*?\))(?: \(which returns (.*)\)\s*$|\s*$)', msg)
    if not m:
        return None, None
    try:
        call = ast.parse('f' + m.group(1), mode='eval').body
        vals = [ast.literal_eval(a) for a in call.args]
        if call.keywords:
            return None, None
    except Exception:
        return None, None
    if not all(isinstance(v, (int, float)) and not isinstance(v, bool) for v in vals):
        return None, None
    ret = None
    if m.group(2):
        try:
            ret = ast.literal_eval(m.group(2))
        except Exception:
            ret = None
    return vals, ret


# ---------------------------------------------------------------- concrete runs on the real code
def base_n(fn):
    m = re.match(r'^([a-z]+)([34])(_twin)?$', fn)
    return m.group(1), int(m.group(2)), bool(m.group(3))


def tree_of(H, n, sel, k):
    return H.ordered_trees(n)[H.selection(n, sel)[k]]


def rows_of(model):
    return [(int(node.taxon.label[1:]), node.index, float(node.date)) for node in model.tree.leaf_node_iter()]


def concrete(H, r):
    """Re-run the harness body of r['fn'] at r['args'] on the unmodified real code: a fresh TimeTreeModel built
    through process_object / TimeTreeModel.from_json (which calls parse_tree, setup_indexes,
    initialize_dates_from_taxa and the constructor's update_leaf_heights with the real torch.tensor).
    Returns (value in the shape of the harness return value, info for the replay file)."""
    base, n, _ = base_n(r['fn'])
    a = list(r['args'])
    sel = r['sel']
    if base in ('nonneg', 'ages', 'calendar', 'order', 'conv'):
        t = tree_of(H, n, sel, 0)
        m = H.build_model(t, n, a[:n])
        return m.sampling_times.tolist(), {'spec': H.tree_spec(t, n, a[:n])}
    if base in ('tips', 'postorder', 'iso'):
        po = base == 'postorder'
        d = a[:n] if base != 'iso' else [a[0]] * n
        t = tree_of(H, n, sel, a[-1])
        m = H.build_model(t, n, d, po)
        return (m.sampling_times.tolist(), rows_of(m)), {'spec': H.tree_spec(t, n, d, po)}
    if base == 'shift':
        t = tree_of(H, n, sel, 0)
        d2 = [x + a[n] for x in a[:n]]
        m1, m2 = H.build_model(t, n, a[:n]), H.build_model(t, n, d2)
        return (m1.sampling_times.tolist(), m2.sampling_times.tolist()), {'spec': H.tree_spec(t, n, a[:n]), 'spec_shifted': H.tree_spec(t, n, d2)}
    if base == 'named':
        import dendropy
        import torchtree.evolution.tree_model as TM

        t = tree_of(H, n, sel, a[-1])
        names = [f't{i}_{H.name_values(sel)[a[i]]}' for i in range(n)]
        nwk = H.newick_of(t, names)
        tree = dendropy.Tree.get(data=nwk, schema='newick', preserve_underscores=True, rooting='force-rooted')
        oldest = TM.setup_dates(tree, True)
        rows = []
        for node in tree.leaf_node_iter():
            lab = node.taxon.label
            rows.append((int(lab[1:lab.index('_')]), float(node.date), float(node.original_date)))
        return (float(oldest), rows), {'newick': nwk, 'call': 'setup_dates(tree, heterochronous=True)'}
    if base == 'hfb':
        t = tree_of(H, n, sel, a[-1])
        b = [a[n]] + list(H.BL3)
        m = H.build_model(t, n, a[:n], False, b)
        return m._internal_heights.tensor.tolist(), {'spec': H.tree_spec(t, n, a[:n], False, b)}
    raise ValueError(base)


def judge(H, r, val):
    """evaluate the posts of the condition on a concrete value; returns list of (sub-clause tag, held?)"""
    base, n, _ = base_n(r['fn'])
    a = list(r['args'])
    d = a[:n]
    if base == 'nonneg':
        return [('no-zero-height-or-negative-height', H.p_nonneg_zero(val))]
    if base == 'ages':
        return [('ages-height-differs-from-date', H.p_equal(val, d))]
    if base == 'calendar':
        return [('calendar-height-differs-from-max-minus-date', H.p_equal(val, H.oracle(d)))]
    if base == 'order':
        return [('date-order-not-reflected-in-heights', H.p_order(d, val))]
    if base == 'conv':
        return [('height-differs-from-convention', H.p_equal(val, H.oracle(d))),
                ('no-zero-height-or-negative-height', H.p_nonneg_zero(val)),
                ('date-order-not-reflected-in-heights', H.p_order(d, val))]
    if base == 'tips':
        return [('tip-index-differs-from-taxon-position', all(idx == pos for pos, idx, _ in val[1])),
                ('node-date-differs-from-sampling-time', H.p_agree(val)),
                ('tip-not-at-own-sampling-time', H.p_own(d, val))]
    if base == 'postorder':
        return [('node-date-differs-from-sampling-time', H.p_agree(val)),
                ('tip-not-at-own-sampling-time', H.p_own(d, val))]
    if base == 'iso':
        return [('isochronous-heights-not-zero', H.p_all_zero(val))]
    if base == 'shift':
        return [('heights-change-under-common-shift', H.p_equal(val[0], val[1]))]
    if base == 'named':
        return [('name-dates-convention', H.p_named([float(H.name_values(r['sel'])[i]) for i in a[:n]], val))]
    if base == 'hfb':
        t = tree_of(H, n, r['sel'], a[-1])
        return [('parent-not-older-than-child', H.p_hfb(t, d, [a[n]] + list(H.BL3), val, tol=1e-9))]
    raise ValueError(base)


def close(x, y, tol=1e-9):
    if isinstance(x, (list, tuple)) and isinstance(y, (list, tuple)):
        return len(x) == len(y) and all(close(a, b, tol) for a, b in zip(x, y))
    if isinstance(x, (int, float)) and isinstance(y, (int, float)):
        return abs(float(x) - float(y)) <= tol * max(1.0, abs(float(x)), abs(float(y)))
    return x == y


def cfg_of(r):
    s = f"{r['fn']}[dates:{r['mode']}"
    if r['klo'] or r['khi'] < 10 ** 6:
        s += f",k in {r['klo']}..{r['khi'] - 1} of the {r['sel']} tree list"
    return s + ']'


# ---------------------------------------------------------------- entry point
def run(tr, tier='quick', postorder=True):
    H = _harness()
    import torch
    import torchtree.evolution.tree_model as TM

    torch.set_default_dtype(torch.float64)
    t_start = time.time()
    tr.fn(TM.TimeTreeModel.update_leaf_heights, TM.initialize_dates_from_taxa, TM.setup_dates,
          TM.heights_from_branch_lengths, TM.setup_indexes, TM.parse_tree)
    n3, n4 = len(H.selection(3, tier)), len(H.selection(4, tier))
    tr.bounds['dates: taxa'] = '3 and 4 taxa'
    tr.bounds['dates: date values'] = (f'mode float: every real number in [0, {H.DMAX}] per taxon (ties, zeros, isochronous and heterochronous '
                                       f'vectors included); mode int: every Python int in [0, {H.DMAX}] (dates as a JSON file gives them: 2000)')
    tr.bounds['dates: newick tip orders'] = (f'symbolic choice k among {n3} (3 taxa: all 3! tip orders x 2 ordered shapes) and {n4} '
                                             f'(4 taxa: {"all 4! tip orders, 32 of the 120 tip order x ordered shape pairs" if tier == "thorough" else "8 of the 120 tip order x ordered shape pairs"}) '
                                             'newick strings' + ('' if tier == 'thorough' else '; quick runs 2 of the 8 four-taxon strings'))
    tr.bounds['dates: setup_dates'] = f'3 taxa, date string after the last "_" of each name chosen symbolically from {H.name_values(tier)}'
    some = '1 of the 12' if tier == 'quick' else 'all 12'
    tr.bounds['dates: setup_dates'] += f'; {some} newick strings'
    tr.bounds['dates: heights_from_branch_lengths'] = (f'3 taxa ({some} newick strings), symbolic dates, first newick length any real in '
                                                      f'[0, {H.BMAX}], the other three fixed to {H.BL3} (below / above eps); default eps')
    tr.assumptions |= {
        'dates sub-check: CrossHair float model restricted to real numbers (launcher chk/c06_dates_xh.py removes the IEEE-754 alternative, '
        'which z3 cannot decide here, and the "unknown" cap CrossHair puts on real-modelled floats): "Confirmed over all paths" = confirmed '
        'over the reals; identical to float64 wherever max/min/==/one subtraction are exact (ints, multiples of 0.25 below 2**50); '
        'observed outside: two distinct calendar dates closer than one ulp of (max date - date) get tied heights (rounding, not reported)',
        'dates sub-check: sampling dates are finite and >= 0 (negative dates are outside the documented conventions)',
        'dates sub-check: the newick strings are concrete; dendropy parsing, parse_tree, setup_indexes and the TimeTreeModel constructor run '
        'once, concretely, with the real code when the harness is imported; the symbolic execution then drives the real bound method '
        'update_leaf_heights and the real initialize_dates_from_taxa / setup_dates / heights_from_branch_lengths on those real objects',
        'dates sub-check: documented convention taken as the oracle: smallest date == 0 -> dates are ages (heights), otherwise calendar time '
        '-> height = most recent date - date (comments "time starts at 0" / "time is a year" in tree_model.py)',
    }
    tr.stubs |= {
        'torch.tensor inside torchtree.evolution.tree_model (CrossHair subprocess only): the module-level name `torch` is a proxy whose '
        'tensor(x) returns the Python list x (captures leaf_heights before the C boundary)',
        'torch.empty inside torchtree.evolution.tree_model (CrossHair subprocess only): returns [None]*n (heights_from_branch_lengths buffer)',
    }
    spans = _line_map(H)
    jobs = plan(tier, postorder)
    with ThreadPoolExecutor(max_workers=min(16, os.cpu_count() or 4)) as ex:
        futs = [ex.submit(crosshair, j, spans) for j in jobs]
        notes_convention(tr, H)  # concrete illustrations meanwhile
        results = [r for f in futs for r in f.result()]

    by = {(r['fn'], r['mode'], r['klo'], r['khi'], r['sel']): r for r in results}
    sigs = {}
    for r in results:
        base, n, is_twin = base_n(r['fn'])
        cfg = cfg_of(r)
        tr.queries += 1
        tr.regions += 1
        tr.solver_s += r['wall']
        tr.by_solver['crosshair(z3)'] = tr.by_solver.get('crosshair(z3)', 0) + 1
        tr.obligation(f"dates {cfg} :: {contract_of(H, r['fn'])}")
        if r['verdict'] == 'confirmed':
            tr.unsat += 1
        elif r['verdict'] == 'refuted':
            tr.sat += 1
        else:
            tr.unknown += 1

        if is_twin:
            if r['verdict'] != 'refuted':
                tr.inconc(f'dates: reachability twin {cfg} was not refuted ({r["verdict"]}: {r["msg"][:200]}) - its condition may hold vacuously')
                continue
            # witness run: what CrossHair computed through the stub == what the real model computes
            try:
                val, _ = concrete(H, r)
                tr.witness_runs += 1
            except Exception as e:
                tr.inconc(f'dates: twin {cfg}: concrete run at {r["args"]} raised {type(e).__name__}: {e}')
                continue
            if r['returns'] is None or not close(r['returns'], val):
                tr.inconc(f'dates: twin {cfg}: CrossHair saw {r["returns"]} at {r["args"]} but the real model gives {val} (stub / harness infidelity)')
            continue

        if r['verdict'] == 'confirmed':
            tr.closures += 1
            twin = by.get((r['fn'] + '_twin', r['mode'], r['klo'], r['khi'], r['sel']), {})
            tr.sample({'condition': 'dates ' + cfg, 'contract': contract_of(H, r['fn']), 'verdict': 'Confirmed over all paths',
                       'crosshair_wall_s': round(r['wall'], 1), 'twin': twin.get('msg', '')[:200]}, limit=4)
            continue
        if r['verdict'] != 'refuted':
            tr.inconc(f'dates: {cfg}: CrossHair gave no verdict ({r["msg"][:300]}; rc={r["rc"]}, {r["wall"]:.0f}s)')
            continue
        # counterexample: replay on the real code
        try:
            val, info = concrete(H, r)
            tr.witness_runs += 1
            verdicts = judge(H, r, val)
        except Exception as e:
            tr.inconc(f'dates: {cfg}: replay of counterexample {r["args"]} raised {type(e).__name__}: {e}')
            continue
        failed = [tag for tag, ok in verdicts if not ok]
        if not failed:
            tr.inconc(f'dates: {cfg}: counterexample {r["args"]} did NOT reproduce on the real TimeTreeModel (real value {val}; CrossHair: {r["msg"][:200]})')
            continue
        sig = f'dates:{"use_postorder_indices" if base == "postorder" else base}:{"+".join(failed)}'
        what = describe(H, r, val, failed)
        tr.violation(sig, what, {'sub_check': 'dates', 'condition': r['fn'], 'mode': r['mode'], 'tier_tree_list': r['sel'],
                                 'args': r['args'], 'real_value': val, 'failed': failed, 'crosshair': r['msg'], **info})
        sigs.setdefault(sig, []).append(cfg)
        tr.sample({'condition': 'dates ' + cfg, 'verdict': 'refuted + replayed on the real TimeTreeModel', 'signature': sig, 'what': what}, limit=12)
    for sig, where in sigs.items():
        tr.notes.append(f'dates: signature {sig} from {len(where)} condition(s): {"; ".join(where[:6])}')
    tally = {}
    for r in results:
        k = (base_n(r['fn'])[0] + ('_twin' if base_n(r['fn'])[2] else ''), r['verdict'])
        tally[k] = tally.get(k, 0) + 1
    tr.notes.append(f'dates: {len(results)} CrossHair conditions in {len(jobs)} subprocesses, {time.time() - t_start:.0f}s wall '
                    f'(slowest subprocess {max(r["wall"] * len(r["fns"]) for r in results):.0f}s): ' +
                    ', '.join(f'{fn} {v} x{c}' for (fn, v), c in sorted(tally.items())))
    return results


def describe(H, r, val, failed):
    base, n, _ = base_n(r['fn'])
    a = r['args']
    if base in ('tips', 'postorder', 'iso'):
        d = a[:n] if base != 'iso' else [a[0]] * n
        t = tree_of(H, n, r['sel'], a[-1])
        want = H.oracle(d)
        heights, rows = val
        bad = [(pos, idx, date) for pos, idx, date in rows if heights[idx] != want[pos] or date != want[pos]]
        opt = ', "use_postorder_indices": true' if base == 'postorder' else ''
        return (f'TimeTreeModel from JSON, newick {H.newick_of(t)}{opt}, Taxa dates {dict((f"t{i}", x) for i, x in enumerate(d))}: '
                f'sampling_times = {heights}; ' + '; '.join(
                    f'tip t{pos} (date {d[pos]}, expected height {want[pos]}) has node index {idx}, node.date {date}, sampling_times[{idx}] = {heights[idx]}'
                    for pos, idx, date in (bad or rows)) + f' -> {CLAUSES[base]} violated ({", ".join(failed)})')
    return f'{r["fn"]}{tuple(a)} on the real code gives {val} -> {CLAUSES[base]} violated ({", ".join(failed)})'


def notes_convention(tr, H):
    """Concrete illustrations (real model) of the boundary of the two conventions; documentation, no verdict."""
    try:
        t = H.ordered_trees(3)[0]
        ex = []
        for d in ([0.0, 5.0, 2.0], [1e-9, 5.0, 2.0], [2000.0, 2005.0, 2002.0], [2000.0, 2000.0, 2000.0]):
            m = H.build_model(t, 3, d)
            tr.witness_runs += 1
            ex.append(f'{d} -> {m.sampling_times.tolist()}')
        tr.notes.append('dates: convention boundary on the real model (documented behaviour, not a violation): a date vector whose smallest '
                        'entry is exactly 0 is read as ages, so calendar-like [0, 5, 2] puts the most recent sample (date 5) at height 5, '
                        'while [1e-9, 5, 2] puts it at height 0: ' + ' | '.join(ex))
        d = [1e-20, 2e-20, 2020.0]
        m = H.build_model(t, 3, d)
        tr.witness_runs += 1
        tr.notes.append(f'dates: float64 rounding (outside the real-number model, not reported): distinct calendar dates {d} -> sampling_times '
                        f'{m.sampling_times.tolist()} (tie in heights without a tie in dates; needs dates closer than one ulp of max - date)')
        m = H.build_model(t, 3, [2000, 2003, 2010])
        tr.witness_runs += 1
        tr.notes.append(f'dates: int dates (JSON 2000, 2003, 2010) give sampling_times {m.sampling_times.tolist()} of dtype {m.sampling_times.dtype} '
                        f'(torch.tensor of Python ints); node_heights promotes to {m.node_heights.dtype}, values are right')
        d = [-1.0, 0.0, -0.5]
        m = H.build_model(t, 3, d)
        tr.witness_runs += 1
        tr.notes.append(f'dates: outside the domain (negative dates) the two routines disagree: dates {d} -> sampling_times '
                        f'{m.sampling_times.tolist()} but node.date {[float(x[2]) for x in sorted(rows_of(m), key=lambda x: x[1])]} '
                        '(initialize_dates_from_taxa tests max != 0 first, update_leaf_heights only min == 0)')
    except Exception as e:
        tr.notes.append(f'dates: convention illustration failed: {type(e).__name__}: {e}')


if __name__ == '__main__':
    sys.path[:0] = [VERIF, REPO]
    from vlib.core import TaskResult

    tier_ = sys.argv[1] if len(sys.argv) > 1 else 'quick'
    tr_ = TaskResult('C06-dates')
    t0_ = time.time()
    res_ = run(tr_, tier_)
    if '-v' in sys.argv:
        for r_ in res_:
            print(f"  {cfg_of(r_):70s} {r_['verdict']:10s} {r_['wall']:6.1f}s  {r_['msg'][:110]}")
    for v_ in tr_.violations:
        print(f"VIOLATION (replayed) signature={v_['signature']}\n  {v_['what']}")
    for m_ in tr_.inconclusive:
        print(f'INCONCLUSIVE: {m_}')
    for n_ in tr_.notes:
        print(f'note: {n_}')
    print(f'[C06-dates] tier={tier_} conditions={tr_.queries} confirmed={tr_.unsat} refuted={tr_.sat} unknown={tr_.unknown} '
          f'distinct_obligations={len(tr_.obligations)} witness_runs={tr_.witness_runs} violations={len(tr_.violations)} '
          f'inconclusive={len(tr_.inconclusive)} wall_s={time.time() - t0_:.1f}')
    sys.exit(2 if tr_.inconclusive else (1 if tr_.violations else 0))
