"""C01 / K3 "tip vectors": CrossHair (z3) sub-check of C01, used as a module: `run(tr, tier)`.

The PEP316 contracts live in chk/c01_k3_harness.py; they run the REAL torchtree code (NucleotideDataType,
AminoAcidDataType, CodonDataType, GeneralDataType, Alignment, compress, compress_alignment,
compress_alignment_states) on symbolic characters / choice indices and compare with independent tables.
This module
  * plans the conditions of a tier (case splits over genetic code / masks / hand-over order = separate processes),
  * runs `python -m chk.c01_k3_xh check ...` (CrossHair after torch has been imported, audit wall on) in parallel,
  * deciding step = CrossHair verdict per condition: "Confirmed over all paths" = held; "false when calling f(args)" =
    counterexample, which is re-run CONCRETELY (plain Python, same harness function = real torchtree code, contract
    text evaluated on the result) and only then reported as a violation with a stable signature; anything else
    ("Not confirmed", "Unable to meet precondition", errors, timeouts) and every reachability twin that was not
    refuted is inconclusive,
  * runs every obligation concretely on a sample of its domain as well (witness runs): a concrete failure that CrossHair
    did not report is a contradiction -> inconclusive, never a silent pass.
"""
from __future__ import annotations

import ast
import inspect
import itertools
import os
import re
import subprocess
import sys
import time
from concurrent.futures import ThreadPoolExecutor

from vlib.core import VERIF, TaskResult

HARNESS = 'chk.c01_k3_harness'
LINE = re.compile(r'^(?P<file>.*?):(?P<line>\d+): (?P<kind>info|error|warning): (?P<msg>.*)$')
CODES_QUICK = (0, 1, 12, 14)  # Universal, Vertebrate Mitochondrial (AGA/AGG stops), Flatworm (1 stop), No stops


def harness():
    import chk.c01_k3_harness as H

    return H


# ---------------------------------------------------------------- plan
def plan(tier):
    q = tier == 'quick'
    scale = float(os.environ.get('C01K3_TIMEOUT_SCALE', '1'))
    T = (300 if q else 1200) * scale
    jobs = []

    def add(name, fns, env=None, est=10):
        jobs.append({'name': name, 'fns': list(fns), 'env': {k: str(v) for k, v in (env or {}).items()}, 'timeout': T, 'est': est})

    # (1) characters
    add('nuc', ['nuc_amb', 'nuc_noamb', 'nuc_enc'], est=11)
    add('nuc-str', ['nuc_amb_str'], est=7)
    add('aa', ['aa_partial'], est=18)
    add('char-twins', ['nuc_amb_twin', 'nuc_noamb_twin', 'nuc_enc_twin', 'nuc_amb_str_twin', 'aa_partial_twin'], est=10)
    # (2) codons
    alphabet = 'ACGT-' if q else 'ACGTN-a'
    for c in (CODES_QUICK if q else range(15)):
        env = {'C01K3_CODE': c, 'C01K3_CODON_ALPHABET': alphabet}
        add(f'codon[{c}]', ['codon_nonstop'], env, est=24 if q else 100)
        # stop codons are not letters of the codon alphabet of the code in force: outside C01's domain (see assumptions)
        add(f'codon-twin[{c}]', ['codon_nonstop_twin'], env, est=9)
    # (3) general data type
    H = harness()
    for k in ((3,) if q else (2, 3, 4)):
        masks = [m for m in range(1 << k) if H.POPCOUNT[m] >= 2]
        for m2 in ((6,) if q else masks):
            add(f'general[k={k},m2={m2}]', ['general'], {'C01K3_KMIN': k, 'C01K3_KMAX': k, 'C01K3_M2': m2}, est=15 if k < 4 else 60)
        add(f'general-small[k={k}]', ['general_single', 'general_single_twin', 'general_twin'],
            {'C01K3_KMIN': k, 'C01K3_KMAX': k, 'C01K3_M2': masks[-1]}, est=10)
    # (4) alignments
    def cmp(name, env, split_perm=True, split_c0=False, est=25, twin=True, perms=None):
        nt, nsym = int(env['C01K3_NT']), len(env['C01K3_SYMS'].split(','))
        perms = (perms or range(len(list(itertools.permutations(range(nt)))))) if split_perm else (None,)
        c0s = range(nsym ** nt) if split_c0 else (None,)
        for p in perms:
            for c0 in c0s:
                e = dict(env)
                tag = name
                if p is not None:
                    e['C01K3_PERM'] = p
                    tag += f',perm={p}'
                if c0 is not None:
                    e['C01K3_C0'] = c0
                    tag += f',c0={c0}'
                add(f'cmp[{tag}]', ['cmp_all'], e, est=est)
        if twin:
            add(f'cmp-twin[{name}]', ['cmp_all_twin'], env, est=6)

    cmp('2x2:A,C,-', {'C01K3_NT': 2, 'C01K3_NC': 2, 'C01K3_SYMS': 'A,C,-'}, est=25)
    # soft-masked (lower-case) and RNA (U) symbols: tip states and tip partials must read them alike
    cmp('2x2:a,U', {'C01K3_NT': 2, 'C01K3_NC': 2, 'C01K3_SYMS': 'a,U', 'C01K3_PERM': 0}, split_perm=False, est=8)
    cmp('2x2:A,-:indices', {'C01K3_NT': 2, 'C01K3_NC': 2, 'C01K3_SYMS': 'A,-', 'C01K3_PERM': 1, 'C01K3_IXMIN': 1, 'C01K3_IXMAX': 4},
        split_perm=False, est=22)
    cod = {'C01K3_NT': 2, 'C01K3_NC': 2, 'C01K3_SYMS': 'ATG,T-A', 'C01K3_DTYPE': 'codon', 'C01K3_CODE': 0}
    cmp('2x2:codon:ATG,T-A', cod, split_perm=False, est=11)
    cmp('2x2:codon:ATG,T-A:indices', dict(cod, C01K3_IXMIN=1, C01K3_IXMAX=2), split_perm=False, est=5)
    if not q:
        cmp('3x2:A,R,-', {'C01K3_NT': 3, 'C01K3_NC': 2, 'C01K3_SYMS': 'A,R,-'}, est=200, perms=(1, 3, 5))
        cmp('2x3:A,R,-', {'C01K3_NT': 2, 'C01K3_NC': 3, 'C01K3_SYMS': 'A,R,-'}, split_c0=True, est=30)
        cmp('2x2:A,C,R,-', {'C01K3_NT': 2, 'C01K3_NC': 2, 'C01K3_SYMS': 'A,C,R,-'}, est=75)
        cmp('3x3:A,-', {'C01K3_NT': 3, 'C01K3_NC': 3, 'C01K3_SYMS': 'A,-'}, est=160, perms=(0, 2, 4))
        cmp('2x3:A,-:indices', {'C01K3_NT': 2, 'C01K3_NC': 3, 'C01K3_SYMS': 'A,-', 'C01K3_IXMIN': 1, 'C01K3_IXMAX': 6}, est=140)
        cmp('2x2:aminoacid:A,B,-', {'C01K3_NT': 2, 'C01K3_NC': 2, 'C01K3_SYMS': 'A,B,-', 'C01K3_DTYPE': 'aminoacid'}, est=40)
    jobs.sort(key=lambda j: -j['est'])
    return jobs


# ---------------------------------------------------------------- CrossHair invocation
def fn_ranges(H, fns):
    out = {}
    for fn in fns:
        src, start = inspect.getsourcelines(getattr(H, fn))
        out[fn] = (start, start + len(src) - 1)
    return out


def crosshair(job):
    env = dict(os.environ)
    env.update(job['env'])
    # the tree under test (TORCHTREE_REPO, default /repo) must come first for the CrossHair subprocess as well
    env['PYTHONPATH'] = f"{VERIF}:{os.environ.get('TORCHTREE_REPO', '/repo')}" + (':' + env['PYTHONPATH'] if env.get('PYTHONPATH') else '')
    t = job['timeout']
    cmd = [sys.executable, '-m', 'chk.c01_k3_xh', 'check', '--report_all', '--per_condition_timeout', str(t),
           '--per_path_timeout', str(max(10.0, t / 10))] + [f'{HARNESS}.{fn}' for fn in job['fns']]
    t0 = time.time()
    try:
        p = subprocess.run(cmd, env=env, cwd=VERIF, capture_output=True, text=True, timeout=t * len(job['fns']) * 1.2 + 90)
        out, err, rc = p.stdout, p.stderr, p.returncode
    except subprocess.TimeoutExpired as e:
        out, err, rc = (e.stdout or ''), 'wall-clock timeout', -9
        if isinstance(out, bytes):
            out = out.decode(errors='replace')
    wall = time.time() - t0
    mcpu = re.search(r'C01K3_CPU ([0-9.]+)', err or '')
    cpu = float(mcpu.group(1)) if mcpu else wall
    err = re.sub(r'C01K3_CPU [0-9.]+\n?', '', err or '')
    H = harness()
    ranges = fn_ranges(H, job['fns'])
    res = {fn: {'fn': fn, 'job': job['name'], 'env': job['env'], 'verdict': 'unknown', 'rc': rc,
                'msg': 'no output line for this condition: ' + (err.strip() or out.strip())[-300:], 'args': None,
                'wall': wall / len(job['fns']), 'cpu': cpu / len(job['fns'])} for fn in job['fns']}
    seen = set()
    for ln in out.splitlines():
        m = LINE.match(ln.strip())
        if not m:
            continue
        msg = m.group('msg')
        fn = None
        mc = re.search(r'when calling (\w+)\(', msg)
        if mc and mc.group(1) in res:
            fn = mc.group(1)
        elif m.group('file').endswith('c01_k3_harness.py'):
            no = int(m.group('line'))
            fn = next((f for f, (a, b) in ranges.items() if a <= no <= b), None)
        if fn is None or fn in seen:
            continue
        seen.add(fn)
        r = res[fn]
        r['msg'] = msg[:700]
        if msg.startswith('Confirmed over all paths'):
            r['verdict'] = 'confirmed'
        elif msg.startswith('false when calling'):
            r['args'] = parse_call(msg, fn, H)
            r['verdict'] = 'refuted' if r['args'] is not None else 'unknown'
        else:
            r['verdict'] = 'unknown'  # Not confirmed / Unable to meet precondition / exception ...
    return list(res.values())


def parse_call(msg, fn, H):
    m = re.search(re.escape(fn) + r'(\(.*?\))(?: \(which returns|$)', msg)
    if not m:
        return None
    try:
        call = ast.parse('f' + m.group(1), mode='eval').body
        vals = [ast.literal_eval(a) for a in call.args]
        kw = {k.arg: ast.literal_eval(k.value) for k in call.keywords}
    except Exception:
        return None
    names = list(inspect.signature(getattr(H, fn)).parameters)
    d = dict(zip(names, vals))
    d.update(kw)
    return d if set(d) == set(names) else None


# ---------------------------------------------------------------- concrete evaluation of a contract
def contract(H, fn):
    doc = getattr(H, fn).__doc__ or ''
    pre = [ln.strip()[4:].strip() for ln in doc.splitlines() if ln.strip().startswith('pre:')]
    post = [ln.strip()[5:].strip() for ln in doc.splitlines() if ln.strip().startswith('post:')]
    return ' and '.join(f'({p})' for p in pre) or 'True', ' and '.join(f'({p})' for p in post)


def full_env(env):
    e = {k: v for k, v in os.environ.items() if k.startswith('C01K3_')}
    e.update(env)
    return e


def concrete(H, fn, args):
    """(precondition holds, return value, postcondition holds) of one plain-Python execution (H already configured)"""
    pre, post = contract(H, fn)
    ns = dict(H.__dict__)
    try:
        if not eval(pre, ns, dict(args)):
            return False, None, None
    except Exception:
        return False, None, None
    ret = getattr(H, fn)(**args)
    return True, ret, bool(eval(post, ns, dict(args, _=ret, __return__=ret)))


def sample_points(H, fn, cap=400):
    """candidate argument dicts for the concrete witness runs (filtered by the precondition later)"""
    base = fn
    if base in ('nuc_amb', 'nuc_noamb', 'nuc_enc'):
        pts = [{'code': c} for c in range(128)]
    elif base == 'nuc_amb_str':
        pts = [{'c': chr(c), 'amb': a} for c in range(128) for a in (True, False)]
    elif base == 'aa_partial':
        pts = [{'code': c, 'amb': a} for c in range(128) for a in (True, False)]
    elif base.startswith('codon'):
        m = len(H.CODON_ALPHABET)
        pts = [{'n1': a, 'n2': b, 'n3': c, 'tup': t} for a in range(m) for b in range(m) for c in range(m) for t in (False, True)]
    elif base.startswith('general'):
        pts = [{'k': k, 'm1': m1, 'm2': m2, 'a': a, 'q': q} for k in range(H.KMIN, H.KMAX + 1) for m1 in range(1, 1 << k)
               for m2 in range(1, 1 << k) for a in range(k) for q in range(k + 5)]
    elif base == 'cmp_all':
        import random

        rnd = random.Random(20240926)
        m = len(H.COL_BOX)
        perms = [H.PERM] if H.PERM >= 0 else list(range(len(H.PERMS)))
        pts = []
        reps = max(6, 150 // (H.NC * len(perms) * (H.IXMAX - H.IXMIN + 1)))
        for n in range(1, H.NC + 1):  # seeded random alignments, repeated columns favoured
            for p in perms:
                for ix in range(H.IXMIN, H.IXMAX + 1):
                    for _ in range(reps):
                        c = [H.C0 if H.C0 >= 0 else rnd.randrange(m)] + [rnd.randrange(m) for _ in range(2)]
                        if rnd.random() < 0.4:
                            c[1] = c[0]
                        pts.append({'c0': c[0], 'c1': c[1] if n > 1 else 0, 'c2': c[2] if n > 2 else 0, 'ncols': n, 'perm': p, 'ix': ix})
        cap = 150
    else:
        pts = []
    if len(pts) > 4 * cap:
        pts = pts[::len(pts) // (4 * cap)]
    return pts, cap


# ---------------------------------------------------------------- signatures
def nuc_class(H, code):
    ch = chr(code)
    up = ch.upper() if ch.isalpha() else ch
    s = H.nuc_set(code)
    keys = [k for k, _ in H.IUPAC]
    if up in 'ACGTU':
        cls = 'unambiguous'
    elif up in keys and len(s) == 2:
        cls = 'two-state'
    elif up in keys and len(s) == 3:
        cls = 'three-state'
    elif up in ('N', '?', '-'):
        cls = 'any-state'
    else:
        return 'unknown-char'
    return cls + ('/lower-case' if ch.islower() else '')


def aa_class(H, code):
    ch = chr(code)
    up = ch.upper() if ch.isalpha() else ch
    if up in H.AA:
        cls = 'amino-acid'
    elif up in 'BZ':
        cls = 'B/Z'
    elif up in ('X', '*', '?', '-'):
        cls = 'any-state'
    else:
        return 'unknown-char'
    return cls + ('/lower-case' if ch.islower() else '')


def show(x, n=260):
    s = repr(x)
    return s if len(s) <= n else s[:n] + '...'


def classify(H, fn, args, ret):
    """(signature, description) of a concretely reproduced counterexample (H configured for its condition)"""
    impl, orc = ret[0], ret[1]
    is_raised = isinstance(impl, list) and len(impl) == 3 and impl[0] == 'raised'
    if fn in ('nuc_amb', 'nuc_noamb', 'nuc_amb_str', 'nuc_enc'):
        code = args['code'] if 'code' in args else ord(args['c'])
        amb = {'nuc_amb': True, 'nuc_noamb': False}.get(fn, args.get('amb', True))
        meth = 'encoding' if fn == 'nuc_enc' else ('partial' if amb else 'partial[use_ambiguities=False]')
        call = f'NucleotideDataType.{meth.split("[")[0]}({chr(code)!r}' + ('' if fn == 'nuc_enc' else f', use_ambiguities={amb}') + ')'
        return (f'NucleotideDataType.{meth}:{nuc_class(H, code)}',
                f'{call} gives {show(impl)}' + (' (4 = any value >= state_count)' if fn == 'nuc_enc' else '') +
                f'; IUPAC set of the character is {{{",".join(H.nuc_set(code))}}} -> expected {show(orc)}')
    if fn == 'aa_partial':
        code, amb = args['code'], args['amb']
        meth = 'encoding' if (is_raised or impl[0] != orc[0]) else ('partial' if amb else 'partial[use_ambiguities=False]')
        return (f'AminoAcidDataType.{meth}:{aa_class(H, code)}',
                f'AminoAcidDataType: character {chr(code)!r}, use_ambiguities={amb}: [encoding (20 = any value >= 20), partial...] = '
                f'{show(impl)}; the character stands for {{{",".join(H.aa_set(code))}}} -> expected {show(orc)}')
    if fn.startswith('codon'):
        chars = tuple(H.CODON_ALPHABET[args[k]] for k in ('n1', 'n2', 'n3'))
        name = H.CODE_NAMES[H.CODE]
        n = orc[0]
        if H.CODON_STOP[chars]:
            cls = 'stop-codon'
        elif orc[1] == n:
            cls = 'ambiguous-triplet'
        else:
            cls = name
        meth = 'encoding' if (is_raised or impl[1] != orc[1]) else ('state_count' if impl[0] != orc[0] else 'partial')
        arg = chars if args['tup'] else ''.join(chars)
        got = show(impl) if is_raised else (f'state_count {impl[0]}, encoding {impl[1]} ({n} = any value >= state_count), partial with '
                                            f'{sum(impl[2:]):g} one(s) at {[i for i, v in enumerate(impl[2:]) if v][:4]}')
        exp = (f'stop codon of the {name} code: no state of the model -> unknown ({n}) and an all-ones tip vector' if cls == 'stop-codon'
               else f'expected state_count {orc[0]}, encoding {orc[1]}, partial with {sum(orc[2:]):g} one(s) at '
                    f'{[i for i, v in enumerate(orc[2:]) if v][:4]}')
        sense = H.sense_codons(H.CODE)
        clash = f' - that is the state of sense codon {sense[impl[1]]}' if (not is_raised and cls == 'stop-codon' and impl[1] < n) else ''
        return f'CodonDataType.{meth}:{cls}', f'CodonDataType({name!r}) on {arg!r}: {got}{clash}; {exp}'
    if fn.startswith('general'):
        k = args['k']
        states = tuple(H.POOL[:k])
        amb = {'R': list(H.MASK_SETS[args['m1']]), 'Y': list(H.MASK_SETS[args['m2']]), 'U': H.POOL[args['a']]}
        ch = H.QUERIES[k][args['q']]
        kind = 'state' if ch in states else ('alias' if ch == 'U' else ('ambiguity' if ch in amb else 'unknown-char'))
        ctor = f'GeneralDataType(None, {states!r}, {amb!r})'
        try:
            H.GeneralDataType(None, states, {kk: (list(v) if isinstance(v, list) else v) for kk, v in amb.items()})
        except Exception as e:
            single = [kk for kk, v in amb.items() if isinstance(v, list) and len(v) == 1]
            sig = 'GeneralDataType.__init__:singleton-list-ambiguity' if single else f'GeneralDataType.__init__:raised({type(e).__name__})'
            return sig, (f'{ctor} raises {type(e).__name__}: {e}' +
                         (f' - a one-element list ({single[0]!r}: {amb[single[0]]!r}) takes the alias branch, which uses the list as a '
                          f'dictionary key' if single else ''))
        meth = 'encoding' if (is_raised or impl[1] != orc[1]) else ('state_count' if impl[0] != orc[0] else 'partial')
        return (f'GeneralDataType.{meth}:{kind}',
                f'{ctor}: character {ch!r} gives [state_count, encoding, partial...] = {show(impl)}, expected {show(orc)} '
                f'(ambiguity = union of its states, alias = target state, unknown = all states)')
    if fn == 'cmp_all':
        ncols, perm, ix = args['ncols'], args['perm'], args['ix']
        cols = [H.COL_BOX[c] for c in (args['c0'], args['c1'], args['c2'])[:ncols]]
        names, rows, al = H.build(cols, perm)
        indices = H.index_choices(ncols)[ix]
        sel = H.selected_columns(indices, ncols)
        given = [(names[i], ''.join(rows[i])) for i in H.PERMS[perm]]
        desc = (f'{H.DTYPE} alignment, Taxa order {names}, sequences handed over as {given}' +
                (f', indices={indices!r}' if indices is not None else ''))
        for part in range(4):
            if impl[part] == orc[part]:
                continue
            fname = H.PARTS[part].split('[')[0]
            flag = H.PARTS[part][len(fname):]
            ip = impl[part]
            if isinstance(ip, list) and ip and ip[0] == 'raised':
                if H.DTYPE == 'codon' and indices is not None and ip[1] == 'TypeError':
                    return ('compress:codon-indices', f'{desc}: {fname} raises {ip[1]}: {ip[2]} - for a data type of size 3 compress() turns '
                            f'each sequence into a zip object and then subscripts it with the site index')
                return f'{fname}:raised({ip[1]})', f'{desc}: {H.PARTS[part]} raises {ip[1]}: {ip[2]}'
            if isinstance(ip, list) and ip and isinstance(ip[0], str):
                return f'{fname}:{ip[0]}', f'{desc}: {H.PARTS[part]} result malformed: {show(ip)}'
            kind = 'multiset'
            if ip[0] != orc[part][0]:
                for order in itertools.permutations(range(H.NT)):
                    if list(order) != list(range(H.NT)) and ip[0] == H.oracle_part(part, rows, sel, order)[0]:
                        kind = 'taxon-order'
                if kind == 'multiset' and [c for c, _ in ip[0]] == [c for c, _ in orc[part][0]]:
                    kind = 'weights'
            else:
                kind = 'weights'
            return (f'{fname}:{kind}', f'{desc}: {H.PARTS[part]} gives weighted columns (taxa in Taxa order) {show(ip[0], 400)}, all weights '
                    f'positive: {ip[1]}, weight sum {ip[2]}; the selected alignment columns are {show(orc[part][0], 400)} (sum {orc[part][2]})'
                    + (' - the tensors are not in Taxa order' if kind == 'taxon-order' else '') + (f' {flag}' if flag else ''))
    return f'{fn}:unclassified', f'{fn}({args}): {show(impl)} != {show(orc)}'


# ---------------------------------------------------------------- bookkeeping
def cfg_of(r):
    env = ','.join(f'{k[6:]}={v}' for k, v in sorted(r['env'].items()))
    return f"{r['fn']}[{env}]" if env else r['fn']


def describe(tr, tier):
    H = harness()
    from torchtree.evolution import alignment, datatype, site_pattern

    tr.fn(datatype.NucleotideDataType.partial, datatype.NucleotideDataType.encoding, datatype.AminoAcidDataType.partial,
          datatype.AminoAcidDataType.encoding, datatype.CodonDataType.__init__, datatype.CodonDataType.encoding,
          datatype.CodonDataType.partial, datatype.GeneralDataType.__init__, datatype.GeneralDataType.encoding,
          datatype.GeneralDataType.partial, alignment.Alignment.__init__, site_pattern.compress,
          site_pattern.compress_alignment, site_pattern.compress_alignment_states)
    q = tier == 'quick'
    tr.bounds['K3 characters'] = ('every character code 0..127 (symbolic int, and a symbolic 1-character str); both values of '
                                  'use_ambiguities; nucleotide and amino-acid tables')
    tr.bounds['K3 codons'] = (f"genetic codes {[H.CODE_NAMES[c] for c in CODES_QUICK] if q else 'all 15'}; triplets over the alphabet "
                              f"{'ACGT-' if q else 'ACGTN-a'} (symbolic choice per position), handed over as str and as tuple of characters")
    tr.bounds['K3 general'] = (f"GeneralDataType with {'3' if q else '2..4'} states, two list ambiguities R, Y (symbolic subsets with >= 2 states"
                               f"{'; Y fixed to {C,G} in the quick tier' if q else ''}), one alias U (symbolic target), query over states + R Y U ? -; "
                               f"separately R as a one-element list")
    tr.bounds['K3 alignments'] = (
        '2 taxa x <= 2 columns over {A,C,-}, both hand-over orders; 2 taxa x <= 2 columns over {a,U} (lower case, RNA); 2 x <= 2 over {A,-} with 4 site selections (ints / slices); '
        '2 x <= 2 codon columns over {ATG,T-A} (Universal), also with a site selection' if q else
        '2 taxa x <= 2 columns over {A,C,-} and {A,C,R,-}; 3 taxa x <= 2 columns over {A,R,-} (3 of the 6 hand-over orders); 2 taxa x <= 3 '
        'columns over {A,R,-}; 3 taxa x <= 3 columns over {A,-} (the other 3 hand-over orders); 2 x <= 3 over {A,-} with 6 site selections (ints / slices); 2 x <= 2 '
        'amino-acid columns over {A,B,-}; 2 x <= 2 codon columns over {ATG,T-A} (Universal), also with a site selection')
    tr.assumptions |= {
        'K3: "Confirmed over all paths" is CrossHair\'s exhaustive solver-driven case analysis of the stated finite domain; numpy / '
        'torch calls are executed natively (CrossHair realises a symbolic value when it reaches C code), choice indices are split '
        'per entry by constant-table lookups',
        'K3 oracle: IUPAC nucleotide sets (U = T; N ? - and every character outside the IUPAC alphabet = any state; lower case = '
        'upper case - the implementation table does the same for a-z; characters with code > 127 raise IndexError and are outside '
        'the domain), amino-acid sets (B = D|N, Z = E|Q, everything else any state), stop codons per NCBI translation table',
        'K3: with use_ambiguities=False (the TreeLikelihoodModel default) an ambiguity code other than the states themselves is read '
        'as "any state"; union semantics is checked for use_ambiguities=True',
        'K3: tip states >= state_count mean "no single state" (compress_alignment_states clamps to state_count)',
        'K3: a GeneralDataType ambiguity is a list of >= 2 states, an alias a 1-character string (multi-character strings are '
        'rejected by the constructor with KeyError and are outside the domain)',
        'K3: alignments have >= 1 selected column and equally long sequences, one per taxon',
        'K3: codon triplets are sense codons of the genetic code in force, or contain a gap / ambiguity character; a stop codon is '
        'not a letter of that code\'s codon alphabet and lies outside C01\'s quantifier (observed, not reported: CodonDataType.encoding '
        'gives a stop codon the state of a neighbouring sense codon, Universal TAA -> 47 = GTT)',
    }
    tr.stubs |= {'K3: none (real torchtree data types, Alignment, Taxa and site_pattern functions; nothing is modelled)'}
    if os.environ.get('C01K3_MUTANT'):
        tr.notes.append(f"K3 TARGET PATCHED IN MEMORY (harness sensitivity test): C01K3_MUTANT={os.environ['C01K3_MUTANT']}")
    return H


def run(tr: TaskResult, tier: str):
    t_start = time.time()
    H = describe(tr, tier)
    jobs = plan(tier)
    workers = int(os.environ.get('C01K3_WORKERS', '16'))
    with ThreadPoolExecutor(max_workers=workers) as ex:
        futs = [ex.submit(crosshair, j) for j in jobs]
        results = [r for f in futs for r in f.result()]
    job_env = {j['name']: j['env'] for j in jobs}
    tally = {}
    for r in results:
        tr.queries += 1
        tr.regions += 1
        tr.solver_s += r['wall']
        tr.by_solver['crosshair(z3)'] = tr.by_solver.get('crosshair(z3)', 0) + 1
        pre, post = contract(H, r['fn'])
        tr.obligation(f'K3 {cfg_of(r)} :: pre {pre} ; post {post}')
        if r['verdict'] == 'confirmed':
            tr.unsat += 1
        elif r['verdict'] == 'refuted':
            tr.sat += 1
        else:
            tr.unknown += 1
        k = (r['fn'], r['verdict'])
        tally[k] = tally.get(k, 0) + 1

    sigs = {}
    for r in results:
        fn, cfg = r['fn'], cfg_of(r)
        if fn.endswith('_twin'):
            if r['verdict'] != 'refuted':
                tr.inconc(f'K3 reachability twin {cfg} was not refuted ({r["verdict"]}: {r["msg"][:200]}) - its condition may hold vacuously')
            continue
        H.configure(full_env(job_env[r['job']]))
        # concrete witness runs over a sample of the domain (consistency guard, not a deciding step)
        pts, cap = sample_points(H, fn)
        ran, failed = 0, None
        for a in pts:
            if ran >= cap:
                break
            ok_pre, ret, ok_post = concrete(H, fn, a)
            if not ok_pre:
                continue
            ran += 1
            if not ok_post and failed is None:
                failed = (a, ret)
        tr.witness_runs += ran
        if r['verdict'] == 'confirmed':
            tr.closures += 1
            if failed is not None:
                tr.inconc(f'K3 {cfg}: CrossHair says "Confirmed over all paths" but the concrete run {fn}({failed[0]}) violates the '
                          f'contract ({show(failed[1])}) - harness / tool inconsistency')
            elif ran == 0:
                tr.inconc(f'K3 {cfg}: no concrete sample met the precondition (witness-run sampler out of date?)')
            else:
                tr.sample({'K3 condition': cfg, 'contract': ' ; '.join(contract(H, fn)), 'verdict': 'Confirmed over all paths',
                           'crosshair_wall_s': round(r['wall'], 1), 'concrete witness runs': ran}, limit=12)
            continue
        if r['verdict'] != 'refuted':
            tr.inconc(f'K3 {cfg}: CrossHair gave no verdict ({r["msg"][:300]}; rc={r["rc"]}, {r["wall"]:.0f}s)')
            continue
        # counterexample: replay concretely on the real code
        args = r['args']
        try:
            ok_pre, ret, ok_post = concrete(H, fn, args)
        except Exception as e:  # harness bug
            tr.inconc(f'K3 {cfg}: concrete replay of counterexample {args} raised {type(e).__name__}: {e}')
            continue
        tr.witness_runs += 1
        if not ok_pre or ok_post:
            tr.inconc(f'K3 {cfg}: CrossHair counterexample {fn}({args}) did NOT reproduce concretely (precondition {ok_pre}, '
                      f'postcondition {ok_post}): {r["msg"][:200]}')
            continue
        sig, what = classify(H, fn, args, ret)
        replay = {'kind': 'K3', 'fn': fn, 'env': job_env[r['job']], 'args': args, 'impl': ret[0], 'oracle': ret[1],
                  'signature': sig, 'crosshair': {'condition': cfg, 'message': r['msg'][:400]}}
        tr.violation(sig, 'K3 tip vectors: ' + what, replay)
        tr.sample({'K3 condition': cfg, 'verdict': 'refuted + reproduced concretely', 'signature': sig, 'what': what}, limit=12)
        sigs.setdefault(sig, []).append(cfg)
    H.configure(full_env({}))
    for sig, where in sigs.items():
        tr.notes.append(f'K3 signature {sig} from {len(where)} condition(s): {"; ".join(where[:5])}')
    tr.notes.append(f'K3 crosshair conditions: {len(results)} in {len(jobs)} processes, {time.time() - t_start:.0f}s wall (slowest process '
                    f'{max(r["wall"] * len([x for x in results if x["job"] == r["job"]]) for r in results):.0f}s wall / '
                    f'{max(r["cpu"] * len([x for x in results if x["job"] == r["job"]]) for r in results):.0f}s cpu; all processes '
                    f'{sum(r["cpu"] for r in results):.0f}s cpu): ' +
                    ', '.join(f'{fn} {v} x{c}' for (fn, v), c in sorted(tally.items())))
    return results


def replay(d):
    """re-run a recorded K3 counterexample concretely; returns (still violated, text)"""
    H = harness()
    H.configure(full_env(d['env']))
    ok_pre, ret, ok_post = concrete(H, d['fn'], d['args'])
    if not ok_pre:
        return False, f"precondition of {d['fn']} not met by {d['args']}"
    sig, what = classify(H, d['fn'], d['args'], ret) if not ok_post else (d.get('signature'), 'contract holds')
    H.configure(full_env({}))
    return (not ok_post), f"{d['fn']}({d['args']}) env={d['env']}: {'VIOLATED' if not ok_post else 'holds'} [{sig}] {what}"


if __name__ == '__main__':
    tier = sys.argv[1] if len(sys.argv) > 1 else 'quick'
    t0 = time.time()
    tr = TaskResult('C01-K3')
    res = run(tr, tier)
    for r in sorted(res, key=lambda r: -r['cpu'])[:int(os.environ.get('C01K3_SHOW', '8'))]:
        print(f"  {r['wall']:6.1f}s wall {r['cpu']:6.1f}s cpu {r['verdict']:9s} {cfg_of(r)}")
    for n in tr.notes:
        print('NOTE:', n)
    seen = set()
    for v in tr.violations:
        if v['signature'] in seen:
            continue
        seen.add(v['signature'])
        print(f"VIOLATION {v['signature']}\n   {v['what']}")
        print('   replay:', replay(v['replay']))
    for m in tr.inconclusive:
        print('INCONCLUSIVE:', m)
    print(f'[C01-K3] tier={tier} conditions={tr.regions} confirmed={tr.unsat} refuted={tr.sat} unknown={tr.unknown} '
          f'obligations={len(tr.obligations)} witness_runs={tr.witness_runs} violations={len(tr.violations)} '
          f'(signatures={len(seen)}) inconclusive={len(tr.inconclusive)} wall={time.time() - t0:.1f}s')
    sys.exit(1 if tr.violations else (2 if tr.inconclusive else 0))
