"""CrossHair driver for the C13 harnesses:  python -m chk.c13_xh check --report_all ... file.py:LINE ...

torch performs import-time side effects (ldconfig lookup, tempfile probe) that CrossHair's audit wall
rejects.  They are harmless and happen here, *before* crosshair.main engages the wall; the wall then
stays fully engaged (no --unblock exemptions) while the harness functions are symbolically executed.
Logging is silenced (process_object / from_json_safe log every rejected specification).
"""
import logging
import sys

from chk import c13_target  # noqa: F401  (binds the target utils module, imports torch + torchtree)

logging.disable(logging.CRITICAL)

from crosshair.main import main  # noqa: E402

if __name__ == '__main__':
    main(sys.argv[1:])
