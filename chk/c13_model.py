"""C13 reference semantics of specification loading, written independently of torchtree.

`expect(data)` takes a concrete specification (the list a JSON file decodes to) and returns
(description, reason):  description is the same structural string chk.c13_target.describe prints for
the real objects, or 'err|JSONParseError' when the property demands rejection; reason names why.

Ideal semantics (the property):
  * keys starting with '_' and dict values / list elements whose 'ignore' entry is truthy are dropped;
  * plates (dict in a list, type ending in 'Plate', with 'range') are replaced by their clones with
    the `${var}` wildcard (or a trailing '*') of every 'id' substituted;
  * objects are built depth-first in specification order; an inline object whose id is already in use
    -- by a finished object OR by an object still under construction (an ancestor) -- is a parse error;
  * a string denotes the finished object with that id; anything else is a parse error;
  * a *self-registering* class (C13S; the real FlexibleTimeTreeModel) announces itself under its id after
    its `pre` children and before its remaining children: from then on a string equal to its id denotes
    that very object (also from deeper descendants), although it is still under construction; its id is
    in use from the moment construction starts (a descendant defined with it is a parse error);
  * every holder of an id holds the same instance.
Nothing here imports torchtree.
"""
from __future__ import annotations

import copy

JPE = 'err|JSONParseError'


class Reject(Exception):
    def __init__(self, reason):
        Exception.__init__(self, reason)
        self.reason = reason


class MObj:
    def __init__(self, tag, id_):
        self.tag = tag
        self.id = id_
        self.kids = []


# child roles per registered type, in the order the class consumes them
def _children_of(spec):
    return _children3(spec)[:2]


def _children3(spec):
    """-> (tag, kids, n_before): n_before = number of kids consumed before the object announces itself
    in the registry (None: the class never does; it becomes visible only when finished)."""
    t = spec['type']
    if t == 'C13S':
        out = []
        if 'pre' in spec:
            out.append(('pre', spec['pre']))
        nb = len(out)
        if 'x' in spec:
            out.append(('x', spec['x']))
        for c in spec.get('children', []):
            out.append(('c', c))
        extra = [k for k in spec if k not in ('id', 'type', 'pre', 'x', 'children', 'ignore')]
        return ('Se' if extra else 'S'), out, nb
    if t == 'FlexibleTimeTreeModel':  # taxa first, then it registers itself, then internal_heights
        return 'F', [('taxa', spec['taxa']), ('h', spec['internal_heights'])], 1
    return _children2(spec) + (None,)


def _children2(spec):
    t = spec['type']
    if t == 'C13N':
        out = []
        if 'x' in spec:
            out.append(('x', spec['x']))
        for c in spec.get('children', []):
            out.append(('c', c))
        extra = [k for k in spec if k not in ('id', 'type', 'x', 'children', 'ignore')]
        return ('Ne' if extra else 'N'), out
    if t == 'C13Picky':
        if spec['need'] not in spec:
            raise Reject('missing-key')
        return 'K', []
    if t == 'Parameter':
        return 'P', []
    if t == 'TransformedParameter':
        out = []
        v = spec.get('parameters', {}).get('tree_model')  # transform arguments are consumed before x
        if isinstance(v, (str, dict)):
            out.append(('tree_model', v))
        return 'T', out + [('x', spec['x'])]
    if t == 'Taxa':
        return 'X', [('t', c) for c in spec['taxa']]
    if t == 'Taxon':
        return 'Y', []
    if t == 'Distribution':
        out = [('x', spec['x'])]
        for name in ('rate', 'loc', 'scale'):
            v = spec.get('parameters', {}).get(name)
            if isinstance(v, (str, dict)):
                out.append((name, v))
        return 'D', out
    if t == 'JointDistributionModel':
        return 'J', [('d', c) for c in spec['distributions']]
    raise Reject('unknown-type')


def strip_comments(o):
    if isinstance(o, list):
        return [strip_comments(e) for e in o if not (isinstance(e, dict) and e.get('ignore'))]
    if isinstance(o, dict):
        return {k: strip_comments(v) for k, v in o.items()
                if not k.startswith('_') and not (isinstance(v, dict) and v.get('ignore'))}
    return o


def _subst_ids(o, fn):
    if isinstance(o, list):
        for e in o:
            _subst_ids(e, fn)
    elif isinstance(o, dict):
        for k in list(o):
            if k == 'id':
                o[k] = fn(o[k])
            else:
                _subst_ids(o[k], fn)


def _is_plate(o):
    return isinstance(o, dict) and 'type' in o and o['type'].endswith('Plate')


def expand(o, in_list=False):
    if isinstance(o, list):
        out = []
        for e in o:
            if _is_plate(e) and 'range' in e:
                lo_hi = [int(t) for t in e['range'].split(':')]
                for i in range(*lo_hi):
                    clone = copy.deepcopy(e['object'])
                    if 'var' in e:
                        w = '${' + e['var'] + '}'
                        _subst_ids(clone, lambda s, w=w, i=i: s.replace(w, str(i)))
                    else:
                        _subst_ids(clone, lambda s, i=i: s[:-1] + str(i) if s.endswith('*') else s)
                    out.append(expand(clone))
            else:
                out.append(expand(e))
        return out
    if isinstance(o, dict):
        if _is_plate(o):
            if 'range' in o:
                raise Reject('plate:not-in-list')
            return o
        return {k: expand(v) for k, v in o.items()}
    return o


def _all_ids(o, acc):
    if isinstance(o, list):
        for e in o:
            _all_ids(e, acc)
    elif isinstance(o, dict):
        if 'id' in o:
            acc.add(o['id'])
        for v in o.values():
            _all_ids(v, acc)


ALLOWED = {('T', 'x'): 'PT', ('D', 'x'): 'PT', ('D', 'rate'): 'PT', ('D', 'loc'): 'PT', ('D', 'scale'): 'PT',
           ('J', 'd'): 'DJ'}
TAG = {'C13N': 'N', 'C13S': 'S', 'C13Picky': 'K', 'Parameter': 'P', 'TransformedParameter': 'T', 'Distribution': 'D',
       'JointDistributionModel': 'J', 'FlexibleTimeTreeModel': 'F', 'Taxa': 'X', 'Taxon': 'Y'}


def ill_typed(data):
    """Static well-typedness of a (comment-free, plate-expanded) specification, independent of load
    order: a typed role (e.g. the x of a Distribution) holding an inline object or a reference to an id
    that some definition in the specification gives a type the role cannot take.  Such patterns are
    outside the property (it is about id resolution, not about type checking) and are skipped."""
    tags = {}

    def collect(o):
        if isinstance(o, list):
            for e in o:
                collect(e)
        elif isinstance(o, dict):
            if 'id' in o and o.get('type') in TAG:
                tags.setdefault(o['id'], set()).add(TAG[o['type']])
            for v in o.values():
                collect(v)

    collect(data)
    bad = []

    def visit(o):
        if isinstance(o, list):
            for e in o:
                visit(e)
        elif isinstance(o, dict):
            if o.get('type') in TAG and o['type'] != 'C13Picky':
                try:
                    tag, kids = _children_of(o)
                except Reject:
                    kids = []
                    tag = '?'
                for role, c in kids:
                    allowed = ALLOWED.get((tag, role))
                    if allowed is None:
                        continue
                    if isinstance(c, str):
                        if any(t not in allowed for t in tags.get(c, ())):
                            bad.append((o.get('id'), role, c))
                    elif isinstance(c, dict) and TAG.get(c.get('type'), '?') not in allowed:
                        bad.append((o.get('id'), role, c.get('id')))
            for v in o.values():
                visit(v)

    visit(data)
    return bad


def load(data):
    """-> (top-level objects, registry pairs in completion order).  Raises Reject(reason)."""
    data = expand(strip_comments(copy.deepcopy(data)))
    if ill_typed(data):
        raise Reject('ill-typed')
    every = set()
    _all_ids(data, every)
    done = {}  # id -> MObj (finished)
    where = {}  # id -> (parent id or None, role)
    order = []
    open_ids = []
    announced = {}  # id -> MObj still under construction that has already registered itself

    def build(spec, parent, role):
        if isinstance(spec, str):
            if '{' in spec:
                raise Reject('range-syntax')
            if spec in done:
                return done[spec]
            if spec in announced:
                return announced[spec]
            if spec in open_ids:
                raise Reject('dangling-ref:self-or-ancestor')
            if spec in every:
                raise Reject('dangling-ref:forward')
            raise Reject('dangling-ref:undefined')
        if not isinstance(spec, dict):
            raise Reject('not-an-object')
        if 'id' not in spec:
            raise Reject('missing-id')
        i = spec['id']
        if i in open_ids:
            raise Reject('duplicate-id:child-equals-self-registered-ancestor' if i in announced
                         else 'duplicate-id:child-equals-ancestor')
        if i in done:
            p0, r0 = where[i]
            if p0 is None and parent is None:
                raise Reject('duplicate-id:top-level-siblings')
            if p0 == parent and r0 == role and role == 'c':
                raise Reject('duplicate-id:list-siblings')
            raise Reject('duplicate-id:equals-earlier-object')
        if 'type' not in spec:
            raise Reject('missing-type')
        open_ids.append(i)
        tag, kids, n_before = _children3(spec)
        obj = MObj(tag, i)
        for j, (r, c) in enumerate(kids):
            if n_before is not None and j == n_before:
                announced[i] = obj
            obj.kids.append((r, build(c, i, r)))
        announced.pop(i, None)
        open_ids.pop()
        done[i] = obj
        where[i] = (parent, role)
        order.append((i, obj))
        return obj

    tops = []
    for el in data:
        if isinstance(el, list):
            tops.append([build(e, None, 'top') for e in el])
        else:
            tops.append(build(el, None, 'top'))
    return tops, order


def describe_model(tops, order):
    num = {}
    holders = {}

    def d(o):
        if isinstance(o, list):
            return '[' + ','.join(d(e) for e in o) + ']'
        k = id(o)
        if k in num:
            holders[num[k]] += 1
            return '^%d' % num[k]
        n = num[k] = len(num)
        holders[n] = 1
        s = '%s%d' % (o.tag, n)
        if o.kids:
            s += '(' + ','.join(r + '=' + d(c) for r, c in o.kids) + ')'
        return s

    top = ' '.join(d(o) for o in tops)
    reg = ','.join(str(n) for n in sorted(num[id(o)] for _, o in order))
    shared = sum(1 for n in holders if holders[n] >= 2)
    return 'ok|' + top + '|reg=' + reg + '|upd=' + str(shared)


def expect(data):
    try:
        tops, order = load(data)
    except Reject as e:
        return JPE, e.reason
    return describe_model(tops, order), None
