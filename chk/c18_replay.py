"""C18: concrete replay of crash scenarios against the REAL save_parameters on a REAL temporary directory.

The real function runs with the real json encoder and the real os / open; thin proxies count the
same crash points as the model (open, K chunk boundaries of the byte stream, flush, close, rename,
remove, fsync) and kill the "process" at the chosen one: pending buffered chunks beyond `lost` are
written to the descriptor, the descriptor is closed without further ado, and every later file-system
call of the dying Python frame (the `with` block's close) is ignored.  Afterwards the directory is
inspected: a file is complete iff json.load succeeds and yields the document of one single version.
"""
from __future__ import annotations

import builtins
import json
import os
import shutil
import tempfile

from chk import c18_model as M

ABSENT, COMPLETE, BAD = M.ABSENT, M.COMPLETE, M.BAD


class ReplayCrash(Exception):
    pass


def make_params(ver):
    import torch
    from torchtree.core.parameter import Parameter

    return [Parameter('alpha', torch.tensor([1.5 + ver, 2.25, -3.0], dtype=torch.float64)),
            Parameter('beta', torch.tensor([[0.5, float(ver)], [4.0, 8.0]], dtype=torch.float64))]


class _Proc:
    """One (possibly dying) process executing one save_parameters call."""

    def __init__(self, crash_at, lost, K, doc_len):
        self.crash_at = crash_at
        self.lost = lost
        self.K = K
        self.doc_len = doc_len
        self.ops = 0
        self.dead = False
        self.handles = []
        self.trace = []

    def op(self, what, path):
        if self.dead:
            return False
        if self.ops == self.crash_at:
            self.dead = True
            self.trace.append(f'CRASH before {what}({os.path.basename(str(path))})')
            for h in self.handles:
                h.die()
            raise ReplayCrash(what)
        self.ops += 1
        self.trace.append(f'{what}({os.path.basename(str(path))})')
        return True


class FileProxy:
    def __init__(self, proc, path, flags):
        self.proc = proc
        self.path = path
        self.fd = None
        self.closed = False
        self.pending = []  # chunk byte strings in the user-space buffer
        self.cur = b''
        self.pos = 0
        self.next_chunk = 0
        if proc.op('open', path):
            self.fd = os.open(path, flags, 0o644)
        proc.handles.append(self)

    def _boundary(self, j):
        return (self.proc.doc_len * j) // self.proc.K

    def write(self, s):
        if self.proc.dead:
            return len(s)
        data = s.encode() if isinstance(s, str) else bytes(s)
        K = self.proc.K
        while data:
            if self.next_chunk < K and self.pos == self._boundary(self.next_chunk):
                if self.cur:
                    self.pending.append(self.cur)
                    self.cur = b''
                self.proc.op('write', self.path)  # crash point: chunk `next_chunk` is about to be written
                self.next_chunk += 1
            if self.next_chunk < K:
                room = self._boundary(self.next_chunk) - self.pos
            else:
                room = len(data)
            if room <= 0:
                room = len(data)
            part, data = data[:room], data[room:]
            self.cur += part
            self.pos += len(part)
        return len(s)

    def _drain(self):
        if self.cur:
            self.pending.append(self.cur)
            self.cur = b''
        for c in self.pending:
            os.write(self.fd, c)
        self.pending = []

    def flush(self):
        if self.proc.op('flush', self.path):
            self._drain()

    def fileno(self):
        return self.fd

    def close(self):
        if self.closed or self.proc.dead:
            return
        if self.proc.op('close', self.path):
            self._drain()
            os.close(self.fd)
            self.closed = True

    def die(self):
        if self.fd is None or self.closed:
            return
        if self.cur:
            self.pending.append(self.cur)
            self.cur = b''
        keep = len(self.pending) - min(self.proc.lost, len(self.pending))
        for c in self.pending[:keep]:
            os.write(self.fd, c)
        os.close(self.fd)  # the kernel closes the descriptor; buffered data is gone
        self.closed = True

    def __enter__(self):
        return self

    def __exit__(self, *exc):
        self.close()
        return False


class OsProxy:
    def __init__(self, proc):
        self._proc = proc
        self.path = os.path

    def __getattr__(self, item):
        return getattr(os, item)

    def rename(self, src, dst, **kw):
        if self._proc.op('rename', f'{os.path.basename(src)}->{os.path.basename(dst)}'):
            os.rename(src, dst, **kw)

    def replace(self, src, dst, **kw):
        if self._proc.op('rename', f'{os.path.basename(src)}->{os.path.basename(dst)}'):
            os.replace(src, dst, **kw)

    def remove(self, path, **kw):
        if self._proc.op('remove', path):
            os.remove(path, **kw)

    unlink = remove

    def fsync(self, fd):
        if self._proc.op('fsync', fd):
            os.fsync(fd)


def _open_for(proc):
    def _open(path, mode='r', *a, **kw):
        m = mode.replace('t', '')
        if m in ('w', 'w+'):
            return FileProxy(proc, path, os.O_WRONLY | os.O_CREAT | os.O_TRUNC)
        if m == 'a':
            return FileProxy(proc, path, os.O_WRONLY | os.O_CREAT | os.O_APPEND)
        if m == 'x':
            return FileProxy(proc, path, os.O_WRONLY | os.O_CREAT | os.O_EXCL)
        return builtins.open(path, mode, *a, **kw)

    return _open


def _save_once(mod, name, params, proc, safely, overwrite):
    osp = OsProxy(proc)
    direct = {id(os.rename): osp.rename, id(os.replace): osp.replace, id(os.remove): osp.remove,
              id(os.unlink): osp.unlink, id(os.fsync): osp.fsync}
    plan = M.patch_plan(mod, None, osp, None, _open_for(proc), direct)
    err = None
    with M.patched(mod, plan):
        try:
            mod.save_parameters(name, params, safely, overwrite)
        except Exception as e:
            err = f'{type(e).__name__}: {e}'
    return err


def classify(path, docs):
    """(class, version|None) of a real file."""
    if not os.path.lexists(path):
        return ABSENT, None
    try:
        with builtins.open(path) as f:
            obj = json.load(f)
    except Exception:
        return BAD, None
    for v, d in docs.items():
        if obj == d:
            return COMPLETE, v
    return BAD, 'parses-but-is-no-version'


class Sandbox:
    """A temporary directory plus the serialised documents of the versions used."""

    def __init__(self, K=None, nver=2):
        self.K = K or M.K
        self.mod = M.target_module()
        self.dir = tempfile.mkdtemp(prefix='c18_')
        self.text = {}
        self.docs = {}
        self.nruns = 0
        for v in range(nver):
            self._doc(v)

    def _doc(self, v):
        if v not in self.text:
            # the document of version v = what an uninterrupted real save_parameters writes into a fresh name
            p = os.path.join(self.dir, f'dry{v}.json')
            self.mod.save_parameters(p, make_params(v))
            with builtins.open(p, 'rb') as f:
                self.text[v] = f.read()
            self.docs[v] = json.loads(self.text[v])
            os.remove(p)
        return self.text[v]

    def close(self):
        shutil.rmtree(self.dir, ignore_errors=True)

    def __enter__(self):
        return self

    def __exit__(self, *exc):
        self.close()
        return False

    def run(self, pre, steps, safely=True, overwrite=False):
        """Materialise pre-state `pre` (model terms, version 0), then run one real save_parameters per
        (crash_at, lost) in `steps`, each writing a new version.  Returns a plain dict."""
        self.nruns += 1
        d = os.path.join(self.dir, f'run{self.nruns}')
        os.mkdir(d)
        K = self.K
        name = os.path.join(d, M.NAME)
        paths = (name, name + '.old', name + '.new')
        t0 = self._doc(0)
        for p, n in zip(paths, pre):
            if n == -1:
                continue
            with builtins.open(p, 'wb') as f:
                f.write(t0 if n >= K else t0[:(len(t0) * n) // K])
        out = {'pre': list(pre), 'K': K, 'steps': [], 'safely': safely, 'overwrite': overwrite}
        for i, (crash_at, lost) in enumerate(steps):
            ver = i + 1
            self._doc(ver)
            proc = _Proc(crash_at, lost, K, len(self.text[ver]))
            err = _save_once(self.mod, name, make_params(ver), proc, safely, overwrite)
            cls = [classify(p, self.docs) for p in paths]
            out['steps'].append({'crash_at': crash_at, 'lost': lost, 'ops': proc.trace, 'raised': err,
                                 'after': {os.path.basename(p): _show(p, c) for p, c in zip(paths, cls)},
                                 'classes': [c[0] for c in cls]})
        final = out['steps'][-1]['classes'] if steps else None
        out['final_classes'] = final
        if final is not None:
            out['some_complete'] = COMPLETE in final
            out['name_ok'] = final[0] != BAD
        shutil.rmtree(d, ignore_errors=True)
        return out


def _show(path, c):
    if c[0] == ABSENT:
        return 'absent'
    size = os.path.getsize(path)
    if c[0] == COMPLETE:
        return f'complete (version {c[1]}, {size} bytes, json.load ok)'
    return f'NOT PARSEABLE ({size} bytes)' if c[1] is None else f'parses but matches no version ({size} bytes)'


def replay_dict(r):
    """Re-run a stored replay; True when the violation shows again on the real file system."""
    K = r['K']
    with Sandbox(K=K, nver=1) as sb:
        out = sb.run(tuple(r['pre']), [tuple(s) for s in r['steps']], r.get('safely', True), r.get('overwrite', False))
    if r['clause'] == 'name-truncated':
        bad = not out['name_ok']
    else:
        bad = not out['some_complete']
    return bad, out
