"""C18: concrete replay of crash scenarios against the REAL save_parameters on a REAL temporary directory.

The real function runs with the real json encoder and the real os / open; thin proxies count the
same crash points as the model (open, K chunk boundaries of the byte stream, flush, close, rename,
remove, fsync) and kill the "process" at the chosen one: pending buffered chunks beyond `lost` are
written to the descriptor, the descriptor is closed without further ado, and every later file-system
call of the dying Python frame (the `with` block's close) is ignored.  Afterwards the directory is
inspected: a file is complete iff json.load succeeds and yields the document of one single version.
"""
from __future__ import annotations

import builtins
import json
import os
import shutil
import tempfile

from chk import c18_model as M

ABSENT, COMPLETE, BAD = M.ABSENT, M.COMPLETE, M.BAD


class ReplayCrash(Exception):
    pass


def make_params(ver):
    import torch
    from torchtree.core.parameter import Parameter

    return [Parameter('alpha', torch.tensor([1.5 + ver, 2.25, -3.0], dtype=torch.float64)),
            Parameter('beta', torch.tensor([[0.5, float(ver)], [4.0, 8.0]], dtype=torch.float64))]


class _Proc:
    """One (possibly dying) process executing one save_parameters call."""

    def __init__(self, crash_at, lost, K, doc_len):
        self.crash_at = crash_at
        self.lost = lost
        self.K = K
        self.doc_len = doc_len
        self.ops = 0
        self.dead = False
        self.handles = []
        self.trace = []

    def op(self, what, path):
        if self.dead:
            return False
        if self.ops == self.crash_at:
            self.dead = True
            self.trace.append(f'CRASH before {what}({os.path.basename(str(path))})')
            for h in self.handles:
                h.die()
            raise ReplayCrash(what)
        self.ops += 1
        self.trace.append(f'{what}({os.path.basename(str(path))})')
        return True


class FileProxy:
    def __init__(self, proc, path, flags):
        self.proc = proc
        self.path = path
        self.fd = None
        self.closed = False
        self.pending = []  # chunk byte strings in the user-space buffer
        self.cur = b''
        self.pos = 0
        self.text = b''  # everything handed to write() (reference runs read the whole document from here)
        self.next_chunk = 0
        # length of the document this handle is going to receive (int, or one entry per file opened by the run)
        dl = proc.doc_len
        self.doc_len = dl if isinstance(dl, int) else dl[min(len(proc.handles), len(dl) - 1)]
        if proc.op('open', path):
            self.fd = os.open(path, flags, 0o644)
        proc.handles.append(self)

    def _boundary(self, j):
        return (self.doc_len * j) // self.proc.K

    def write(self, s):
        if self.proc.dead:
            return len(s)
        data = s.encode() if isinstance(s, str) else bytes(s)
        self.text += data
        K = self.proc.K
        while data:
            if self.next_chunk < K and self.pos == self._boundary(self.next_chunk):
                if self.cur:
                    self.pending.append(self.cur)
                    self.cur = b''
                self.proc.op('write', self.path)  # crash point: chunk `next_chunk` is about to be written
                self.next_chunk += 1
            if self.next_chunk < K:
                room = self._boundary(self.next_chunk) - self.pos
            else:
                room = len(data)
            if room <= 0:
                room = len(data)
            part, data = data[:room], data[room:]
            self.cur += part
            self.pos += len(part)
        return len(s)

    def _drain(self):
        if self.cur:
            self.pending.append(self.cur)
            self.cur = b''
        for c in self.pending:
            os.write(self.fd, c)
        self.pending = []

    def flush(self):
        if self.proc.op('flush', self.path):
            self._drain()

    def fileno(self):
        return self.fd

    def close(self):
        if self.closed or self.proc.dead:
            return
        if self.proc.op('close', self.path):
            self._drain()
            os.close(self.fd)
            self.closed = True

    def die(self):
        if self.fd is None or self.closed:
            return
        if self.cur:
            self.pending.append(self.cur)
            self.cur = b''
        keep = len(self.pending) - min(self.proc.lost, len(self.pending))
        for c in self.pending[:keep]:
            os.write(self.fd, c)
        os.close(self.fd)  # the kernel closes the descriptor; buffered data is gone
        self.closed = True

    def __enter__(self):
        return self

    def __exit__(self, *exc):
        self.close()
        return False


class OsProxy:
    def __init__(self, proc):
        self._proc = proc
        self.path = os.path

    def __getattr__(self, item):
        return getattr(os, item)

    def rename(self, src, dst, **kw):
        if self._proc.op('rename', f'{os.path.basename(src)}->{os.path.basename(dst)}'):
            os.rename(src, dst, **kw)

    def replace(self, src, dst, **kw):
        if self._proc.op('rename', f'{os.path.basename(src)}->{os.path.basename(dst)}'):
            os.replace(src, dst, **kw)

    def remove(self, path, **kw):
        if self._proc.op('remove', path):
            os.remove(path, **kw)

    unlink = remove

    def fsync(self, fd):
        if self._proc.op('fsync', fd):
            os.fsync(fd)


def _open_for(proc):
    def _open(path, mode='r', *a, **kw):
        m = mode.replace('t', '')
        if m in ('w', 'w+'):
            return FileProxy(proc, path, os.O_WRONLY | os.O_CREAT | os.O_TRUNC)
        if m == 'a':
            return FileProxy(proc, path, os.O_WRONLY | os.O_CREAT | os.O_APPEND)
        if m == 'x':
            return FileProxy(proc, path, os.O_WRONLY | os.O_CREAT | os.O_EXCL)
        return builtins.open(path, mode, *a, **kw)

    return _open


def _save_once(mod, name, params, proc, safely, overwrite):
    osp = OsProxy(proc)
    direct = {id(os.rename): osp.rename, id(os.replace): osp.replace, id(os.remove): osp.remove,
              id(os.unlink): osp.unlink, id(os.fsync): osp.fsync}
    plan = M.patch_plan(mod, None, osp, None, _open_for(proc), direct)
    err = None
    with M.patched(mod, plan):
        try:
            mod.save_parameters(name, params, safely, overwrite)
        except Exception as e:
            err = f'{type(e).__name__}: {e}'
    return err


def classify(path, docs):
    """(class, version|None) of a real file."""
    if not os.path.lexists(path):
        return ABSENT, None
    try:
        with builtins.open(path) as f:
            obj = json.load(f)
    except Exception:
        return BAD, None
    for v, d in docs.items():
        if obj == d:
            return COMPLETE, v
    return BAD, 'parses-but-is-no-version'


class Sandbox:
    """A temporary directory plus the serialised documents of the versions used."""

    def __init__(self, K=None, nver=2):
        self.K = K or M.K
        self.mod = M.target_module()
        self.dir = tempfile.mkdtemp(prefix='c18_')
        self.text = {}
        self.docs = {}
        self.nruns = 0
        for v in range(nver):
            self._doc(v)

    def _doc(self, v):
        if v not in self.text:
            # the document of version v = what an uninterrupted real save_parameters writes into a fresh name
            p = os.path.join(self.dir, f'dry{v}.json')
            self.mod.save_parameters(p, make_params(v))
            with builtins.open(p, 'rb') as f:
                self.text[v] = f.read()
            self.docs[v] = json.loads(self.text[v])
            os.remove(p)
        return self.text[v]

    def close(self):
        shutil.rmtree(self.dir, ignore_errors=True)

    def __enter__(self):
        return self

    def __exit__(self, *exc):
        self.close()
        return False

    def run(self, pre, steps, safely=True, overwrite=False):
        """Materialise pre-state `pre` (model terms, version 0), then run one real save_parameters per
        (crash_at, lost) in `steps`, each writing a new version.  Returns a plain dict."""
        self.nruns += 1
        d = os.path.join(self.dir, f'run{self.nruns}')
        os.mkdir(d)
        K = self.K
        name = os.path.join(d, M.NAME)
        paths = (name, name + '.old', name + '.new')
        t0 = self._doc(0)
        for p, n in zip(paths, pre):
            if n == -1:
                continue
            with builtins.open(p, 'wb') as f:
                f.write(t0 if n >= K else t0[:(len(t0) * n) // K])
        out = {'pre': list(pre), 'K': K, 'steps': [], 'safely': safely, 'overwrite': overwrite}
        for i, (crash_at, lost) in enumerate(steps):
            ver = i + 1
            self._doc(ver)
            proc = _Proc(crash_at, lost, K, len(self.text[ver]))
            err = _save_once(self.mod, name, make_params(ver), proc, safely, overwrite)
            cls = [classify(p, self.docs) for p in paths]
            out['steps'].append({'crash_at': crash_at, 'lost': lost, 'ops': proc.trace, 'raised': err,
                                 'after': {os.path.basename(p): _show(p, c) for p, c in zip(paths, cls)},
                                 'classes': [c[0] for c in cls]})
        final = out['steps'][-1]['classes'] if steps else None
        out['final_classes'] = final
        if final is not None:
            out['some_complete'] = COMPLETE in final
            out['name_ok'] = final[0] != BAD
        shutil.rmtree(d, ignore_errors=True)
        return out


def _show(path, c):
    if c[0] == ABSENT:
        return 'absent'
    size = os.path.getsize(path)
    if c[0] == COMPLETE:
        return f'complete (version {c[1]}, {size} bytes, json.load ok)'
    return f'NOT PARSEABLE ({size} bytes)' if c[1] is None else f'parses but matches no version ({size} bytes)'


def replay_dict(r):
    """Re-run a stored replay; True when the violation shows again on the real file system."""
    K = r['K']
    with Sandbox(K=K, nver=1) as sb:
        out = sb.run(tuple(r['pre']), [tuple(s) for s in r['steps']], r.get('safely', True), r.get('overwrite', False))
    if r['clause'] == 'name-truncated':
        bad = not out['name_ok']
    else:
        bad = not out['some_complete']
    return bad, out


# ====================================================================================== caller level
# The REAL algorithms (real torch optimisers, real Parameters, real joint distribution, real MCMC operator, real
# leapfrog integrator) run in a REAL temporary directory; only the file-system primitives visible in
# parameter_utils (and in the module of the algorithm) go through the crash-counting proxies above.
def _seed():
    import random

    import numpy as np
    import torch

    torch.manual_seed(7)
    np.random.seed(7)
    random.seed(7)


def _joint_and_param():
    import torch
    from torchtree.core.parameter import Parameter
    from torchtree.distributions.distributions import Distribution
    from torchtree.distributions.joint_distribution import JointDistributionModel

    x = Parameter('x', torch.tensor([0.5, -1.0, 2.0], dtype=torch.float64))
    loc = Parameter('loc', torch.tensor([0.0], dtype=torch.float64))
    scale = Parameter('scale', torch.tensor([1.0], dtype=torch.float64))
    joint = JointDistributionModel('joint', [Distribution('normal', torch.distributions.Normal, x,
                                                          {'loc': loc, 'scale': scale})])
    return joint, x


def real_algo(entry, name, ca, freq, iters):
    import torch

    joint, x = _joint_and_param()
    kw = dict(checkpoint=name, checkpoint_frequency=freq, checkpoint_all=ca)
    if entry.startswith('Optimizer.'):
        from torchtree.optim.optimizer import Optimizer

        x.requires_grad = True
        if entry == 'Optimizer._run_closure':
            topt = torch.optim.LBFGS([x.tensor], lr=0.1, max_iter=2)
        else:
            topt = torch.optim.Adam([x.tensor], lr=0.1)
        return Optimizer('opt', [x], joint, topt, iters, **kw)
    if entry == 'MCMC.run':
        from torchtree.inference.mcmc.mcmc import MCMC
        from torchtree.inference.mcmc.operator import SlidingWindowOperator

        op = SlidingWindowOperator('op', [x], 1.0, 0.24, 0.5)
        return MCMC('mcmc', joint, [op], iters, every=0, **kw)
    if entry == 'HMC.run':
        from torchtree.inference.hmc.hmc import HMC
        from torchtree.inference.hmc.integrator import LeapfrogIntegrator

        return HMC([x], joint, iters, LeapfrogIntegrator('leapfrog', 2, 0.01), every=1000, **kw)
    raise KeyError(entry)


def _resume(algo, entry, epoch0, workdir):
    """Bring a fresh algorithm object to epoch0 the way torchtree.py does with -c: an uninterrupted run of the same
    algorithm writes a checkpoint at epoch0, its state entry is read back (TensorDecoder) and handed to
    load_state_dict.  Returns a note."""
    if epoch0 == 1 or entry == 'HMC.run':
        return 'fresh run' if entry != 'HMC.run' else 'HMC has no resumable epoch'
    from torchtree.core.utils import TensorDecoder

    p = os.path.join(workdir, 'resume-from.json')
    _seed()
    prev = real_algo(entry, p, False, epoch0, epoch0)
    _quiet(prev.run)
    with builtins.open(p) as f:
        doc = json.load(f, cls=TensorDecoder)
    state = [e for e in doc if isinstance(e, dict) and e.get('id') == algo.id and 'iteration' in e]
    os.remove(p)
    if len(state) != 1 or state[0]['iteration'] != epoch0:
        raise RuntimeError(f'no state entry with iteration={epoch0} in the checkpoint to resume from')
    algo.load_state_dict(state[0])
    return f'resumed at epoch {epoch0} through load_state_dict from a checkpoint written by an uninterrupted run'


def _quiet(fn):
    import contextlib
    import io

    with contextlib.redirect_stdout(io.StringIO()):
        return fn()


def _run_real(entry, name, ca, freq, iters, epoch0, proc, workdir, on_boundary=None):
    import importlib

    from chk.c18_callers import ENTRIES

    mod = M.target_module()
    caller = importlib.import_module(ENTRIES[entry][0])
    _seed()
    algo = real_algo(entry, name, ca, freq, iters)
    note = _resume(algo, entry, epoch0, workdir)
    _seed()
    osp = OsProxy(proc)
    direct = {id(os.rename): osp.rename, id(os.replace): osp.replace, id(os.remove): osp.remove,
              id(os.unlink): osp.unlink, id(os.fsync): osp.fsync}
    plan_t = M.patch_plan(mod, None, osp, None, _open_for(proc), direct)
    plan_c = M.patch_plan(caller, None, osp, None, _open_for(proc), direct)
    real = mod.save_parameters
    calls = []

    def save_parameters(*a, **kw):
        calls.append(proc.ops)
        out = real(*a, **kw)
        if on_boundary is not None and not proc.dead:
            on_boundary()
        return out

    plan_c['save_parameters'] = save_parameters
    err = None
    with M.patched(mod, plan_t), M.patched(caller, plan_c):
        try:
            _quiet(algo.run)
        except Exception as e:
            err = f'{type(e).__name__}: {e}'
    return err, note, calls


class _Tape(_Proc):
    """uninterrupted reference run: every handle keeps the whole document it received"""

    def __init__(self, K):
        _Proc.__init__(self, 10 ** 9, 0, K, 1)


def _parse(path):
    if not os.path.lexists(path):
        return ABSENT, None
    try:
        with builtins.open(path) as f:
            return COMPLETE, json.load(f)
    except Exception:
        return BAD, None


def _family_of(path):
    b = os.path.basename(str(path))
    return b[:-4] if b.endswith(('.old', '.new')) else b


def run_caller(entry, ca, kind, freq, iters, epoch0, families, crash_at, lost, K=None):
    """families: {base name: (n, o, w)} pre-state lengths in model terms (the families the model run touched).
    Materialise them in a real directory, run the real algorithm with the process dying before file-system
    operation `crash_at` of the run, classify every family at every call boundary and afterwards (a file is
    complete iff json.load succeeds and yields the previous document of that name or one the uninterrupted
    reference run wrote under that name).  Returns a plain dict."""
    from chk.c18_callers import NAMES

    K = K or M.K
    top = tempfile.mkdtemp(prefix='c18c_')
    try:
        ref, d = os.path.join(top, 'ref'), os.path.join(top, 'run')
        os.mkdir(ref)
        os.mkdir(d)
        base_name = NAMES[kind]
        prev = {}
        for b in families:
            # the previous checkpoint under b = what an uninterrupted one-write run of the same algorithm leaves
            p = os.path.join(ref, 'prev-' + b)
            _seed()
            _quiet(real_algo(entry, p, False, 1, 1).run)
            with builtins.open(p, 'rb') as f:
                prev[b] = f.read()
            os.remove(p)
        for dd in (ref, d):
            for b, pre in families.items():
                for suffix, n in zip(('', '.old', '.new'), pre):
                    if n == -1:
                        continue
                    with builtins.open(os.path.join(dd, b + suffix), 'wb') as f:
                        f.write(prev[b] if n >= K else prev[b][:(len(prev[b]) * n) // K])
        tape = _Tape(K)
        err0, _, _ = _run_real(entry, os.path.join(ref, base_name), ca, freq, iters, epoch0, tape, top)
        if err0:
            raise RuntimeError(f'uninterrupted reference run raised {err0}')
        lens = [h.pos for h in tape.handles] or [1]
        good = {b: [json.loads(prev[b])] for b in families}
        for h in tape.handles:
            b = _family_of(h.path)
            if b in good:
                try:
                    good[b].append(json.loads(h.text))
                except Exception:
                    pass

        def classes(b, show=None):
            cl = []
            for suffix in ('', '.old', '.new'):
                p = os.path.join(d, b + suffix)
                c, obj = _parse(p)
                txt = 'absent'
                if c == COMPLETE and not any(obj == g for g in good[b]):
                    c = BAD
                    txt = f'parses but is neither the previous nor a new checkpoint ({os.path.getsize(p)} bytes)'
                elif c == COMPLETE:
                    txt = f'complete ({os.path.getsize(p)} bytes, json.load ok)'
                elif c == BAD:
                    txt = f'NOT PARSEABLE ({os.path.getsize(p)} bytes)'
                if show is not None:
                    show[b + suffix] = txt
                cl.append(c)
            return tuple(cl)

        state = {'c1': True, 'c2': True,
                 'snap': {b: tuple(0 if n == -1 else (1 if n >= K else 2) for n in pre) for b, pre in families.items()}}

        def boundary():
            for b in families:
                a, now = state['snap'][b], classes(b)
                if a != (0, 0, 0):
                    if 1 in a and COMPLETE not in now:
                        state['c1'] = False
                    if a[0] != 2 and now[0] == BAD:
                        state['c2'] = False
                state['snap'][b] = now

        before = {b: list(v) for b, v in state['snap'].items()}
        proc = _Proc(crash_at, lost, K, lens)
        err, note, calls = _run_real(entry, os.path.join(d, base_name), ca, freq, iters, epoch0, proc, top, boundary)
        last = {b: list(v) for b, v in state['snap'].items()}
        boundary()
        out = {'entry': entry, 'checkpoint_all': ca, 'checkpoint': base_name, 'checkpoint_frequency': freq,
               'iterations': iters, 'start_epoch': epoch0, 'start': note, 'crash_at': crash_at, 'lost': lost, 'K': K,
               'ops': proc.trace, 'raised': err, 'families': {}, 'c1': state['c1'], 'c2': state['c2'],
               'save_parameters_calls': len(calls)}
        for b in families:
            show = {}
            cl = classes(b, show)
            out['families'][b] = {'before_run': before[b], 'at_last_completed_write': last[b], 'after': list(cl),
                                  'files': show}
        out['nops'] = len([o for o in proc.trace if not o.startswith('CRASH')])
        return out
    finally:
        shutil.rmtree(top, ignore_errors=True)


def replay_caller(r):
    out = run_caller(r['entry'], r['checkpoint_all'], r['kind'], r['freq'], r['iters'], r['epoch0'],
                     {b: tuple(v) for b, v in r['families'].items()}, r['crash_at'], r['lost'], r['K'])
    bad = (not out['c2']) if r['clause'] == 'name-truncated' else (not out['c1'])
    return bad, out
