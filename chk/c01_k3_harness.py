"""C01 / K3 "tip vectors": PEP316 contract harness (CrossHair + z3) around the real torchtree code that turns
alignment characters into tip vectors.

Every contract function runs the REAL implementation on symbolic inputs (int character codes / choice
indices; numpy / torch are C level, so CrossHair realises a symbolic value when it reaches them - the
verdict "Confirmed over all paths" then is a solver-driven exhaustive case split of the stated finite
domain) and an INDEPENDENT oracle written below (IUPAC table, stop-codon lists per genetic code, column
multisets) and returns `(impl, oracle, reached)`:

    <name>        post: _[0] == _[1]     the obligation
    <name>_twin   post: not _[2]         reachability twin: must be REFUTED (some admitted input reaches the
                                         end of the body with a non-degenerate result), otherwise the
                                         obligation might hold vacuously

Implementation exceptions are caught (`Exception` only) and show up as impl == ['raised', <type>, <msg>].
Configuration (genetic code, alignment bounds, ...) comes from the environment, see `configure`.
"""
from __future__ import annotations

import os as _os

from torchtree.evolution.alignment import Alignment, Sequence
from torchtree.evolution.datatype import AminoAcidDataType, CodonDataType, GeneralDataType, NucleotideDataType
from torchtree.evolution.site_pattern import compress, compress_alignment, compress_alignment_states
from torchtree.evolution.taxa import Taxa, Taxon

# ====================================================================== independent tables (oracle side)
NUC = 'ACGT'
# IUPAC nucleotide codes (Cornish-Bowden 1985); U = T; N ? - and every other character = any state
IUPAC = (('A', 'A'), ('C', 'C'), ('G', 'G'), ('T', 'T'), ('U', 'T'),
         ('R', 'AG'), ('Y', 'CT'), ('M', 'AC'), ('K', 'GT'), ('S', 'CG'), ('W', 'AT'),
         ('B', 'CGT'), ('D', 'AGT'), ('H', 'ACT'), ('V', 'ACG'),
         ('N', 'ACGT'), ('?', 'ACGT'), ('-', 'ACGT'))
IUPAC_ORD = tuple((ord(k), v) for k, v in IUPAC)

AA = 'ACDEFGHIKLMNPQRSTVWY'
# B = D or N (Asx), Z = E or Q (Glx); X * ? - and every other character = any state
AA_AMBIG_ORD = ((ord('B'), 'DN'), (ord('Z'), 'EQ'))

# genetic codes in the order of BEAST's GeneticCode.java; stop codons per NCBI transl_table
# (1, 2, 3, 4, 4, 5, 6, 9, 10, 11, 12, 13, 14, 15) - "No stops" is BEAST specific
CODE_NAMES = ('Universal', 'Vertebrate Mitochondrial', 'Yeast', 'Mold Protozoan Mitochondrial', 'Mycoplasma',
              'Invertebrate Mitochondrial', 'Ciliate', 'Echinoderm Mitochondrial', 'Euplotid Nuclear', 'Bacterial',
              'Alternative Yeast', 'Ascidian Mitochondrial', 'Flatworm Mitochondrial', 'Blepharisma Nuclear', 'No stops')
CODE_STOPS = (('TAA', 'TAG', 'TGA'), ('TAA', 'TAG', 'AGA', 'AGG'), ('TAA', 'TAG'), ('TAA', 'TAG'), ('TAA', 'TAG'),
              ('TAA', 'TAG'), ('TGA',), ('TAA', 'TAG'), ('TAA', 'TAG'), ('TAA', 'TAG', 'TGA'),
              ('TAA', 'TAG', 'TGA'), ('TAA', 'TAG'), ('TAG',), ('TAA', 'TGA'), ())
ALL_TRIPLETS = tuple(a + b + c for a in NUC for b in NUC for c in NUC)  # AAA, AAC, AAG, AAT, ACA, ... TTT


def nuc_set(code):
    """IUPAC state set of the character with this code; lower case = upper case; unknown = any"""
    if 97 <= code <= 122:
        code = code - 32
    for k, v in IUPAC_ORD:
        if code == k:
            return v
    return NUC


def aa_set(code):
    if 97 <= code <= 122:
        code = code - 32
    for i in range(20):
        if code == ord(AA[i]):
            return AA[i]
    for k, v in AA_AMBIG_ORD:
        if code == k:
            return v
    return AA


# the two character tables, tabulated once (concretely) from the rules above; a contract function looks its symbolic
# character code up in them (CrossHair splits a lookup in a constant table by distinct entry, not by index)
NUC_SETS = tuple(nuc_set(i) for i in range(128))
AA_SETS = tuple(aa_set(i) for i in range(128))


def indicator(sset, states):
    return [1.0 if s in sset else 0.0 for s in states]


def sense_codons(code_index):
    return [t for t in ALL_TRIPLETS if t not in CODE_STOPS[code_index]]


def codon_oracle(code_index, chars):
    """(state index or state_count for "unknown", tip vector) of a triplet given as 3 characters"""
    sense = sense_codons(code_index)
    n = len(sense)
    sets = [nuc_set(ord(c)) for c in chars]
    if all(len(s) == 1 for s in sets):
        t = sets[0] + sets[1] + sets[2]
        if t in sense:
            r = sense.index(t)
            return r, [1.0 if i == r else 0.0 for i in range(n)]
    return n, [1.0] * n


def raised(e):
    return ['raised', type(e).__name__, str(e)[:80]]


# ====================================================================== configuration
CFG = {}


def configure(env):
    """(re)read the configuration; called with os.environ at import and by the driver before a replay"""
    g = globals()
    CFG.clear()
    CFG.update({k: v for k, v in env.items() if k.startswith('C01K3_')})
    g['CODE'] = int(env.get('C01K3_CODE', '0'))
    g['CODON_ALPHABET'] = env.get('C01K3_CODON_ALPHABET', 'ACGTN-')
    g['KMIN'] = int(env.get('C01K3_KMIN', '2'))
    g['KMAX'] = int(env.get('C01K3_KMAX', '3'))
    g['NT'] = int(env.get('C01K3_NT', '2'))
    g['NC'] = int(env.get('C01K3_NC', '2'))
    g['SYMS'] = tuple(env.get('C01K3_SYMS', 'A,C,-').split(','))
    g['DTYPE'] = env.get('C01K3_DTYPE', 'nucleotide')  # nucleotide | aminoacid | codon
    g['IXMAX'] = int(env.get('C01K3_IXMAX', '0'))
    g['X0'] = int(env.get('C01K3_X0', '-1'))  # case split over the first cell (parallelism), -1 = free
    g['_NUCT'] = NucleotideDataType(None)
    g['_AAT'] = AminoAcidDataType(None)
    try:
        g['_CODT'] = CodonDataType(None, CODE_NAMES[g['CODE']].upper())  # the lookup is case-insensitive
    except Exception as e:
        g['_CODT'] = raised(e)
    g['PERMS'] = _perms(g['NT'])
    al = g['CODON_ALPHABET']
    trip = [(a, b, c) for a in al for b in al for c in al]
    g['CODON_ENC'] = tuple(codon_oracle(g['CODE'], t)[0] for t in trip)
    g['CODON_STOP'] = tuple(''.join(nuc_set(ord(c)) if len(nuc_set(ord(c))) == 1 else '.' for c in t) in CODE_STOPS[g['CODE']]
                            for t in trip)


def _perms(n):
    out = [[]]
    for _ in range(n):
        out = [p + [i] for p in out for i in range(n) if i not in p]
    return out


# ====================================================================== (1) NucleotideDataType / AminoAcidDataType
def _listf(x):
    return [float(v) for v in x]


def _nuc_partial(c, code, amb):
    try:
        impl = _listf(_NUCT.partial(c, amb))
    except Exception as e:
        impl = raised(e)
    s = NUC_SETS[code]
    if not amb and len(s) > 1:
        s = NUC
    return impl, indicator(s, NUC), impl != [1.0] * 4


def nuc_amb(code: int):
    """
    partial(chr(code), use_ambiguities=True) is the indicator vector of the IUPAC set of the character.

    pre: 0 <= code <= 127
    post: _[0] == _[1]
    """
    return _nuc_partial(chr(code), code, True)


def nuc_amb_twin(code: int):
    """
    pre: 0 <= code <= 127
    post: not _[2]
    """
    return _nuc_partial(chr(code), code, True)


def nuc_noamb(code: int):
    """
    partial(chr(code), use_ambiguities=False): indicator for A C G T U (either case), all ones otherwise.

    pre: 0 <= code <= 127
    post: _[0] == _[1]
    """
    return _nuc_partial(chr(code), code, False)


def nuc_noamb_twin(code: int):
    """
    pre: 0 <= code <= 127
    post: not _[2]
    """
    return _nuc_partial(chr(code), code, False)


def nuc_amb_str(c: str, amb: bool):
    """
    Same two obligations with a symbolic one-character string (and a symbolic flag).

    pre: len(c) == 1 and ord(c) <= 127
    post: _[0] == _[1]
    """
    return _nuc_partial(c, ord(c), amb)


def nuc_amb_str_twin(c: str, amb: bool):
    """
    pre: len(c) == 1 and ord(c) <= 127
    post: not _[2]
    """
    return _nuc_partial(c, ord(c), amb)


def _nuc_enc(code):
    try:
        e = int(_NUCT.encoding(chr(code)))
        impl = e if e < 4 else 4  # every value >= state_count means "no single state" (compress_alignment_states clamps)
    except Exception as ex:
        impl = raised(ex)
    s = NUC_SETS[code]
    orc = NUC.index(s) if len(s) == 1 else 4
    return impl, orc, orc < 4


def nuc_enc(code: int):
    """
    encoding(chr(code)) = index of the state for A C G T U (either case), >= 4 for every other character.

    pre: 0 <= code <= 127
    post: _[0] == _[1]
    """
    return _nuc_enc(code)


def nuc_enc_twin(code: int):
    """
    pre: 0 <= code <= 127
    post: not _[2]
    """
    return _nuc_enc(code)


def _aa(code, amb):
    c = chr(code)
    try:
        e = int(_AAT.encoding(c))
        impl = [e if e < 20 else 20] + _listf(_AAT.partial(c, amb))
    except Exception as ex:
        impl = raised(ex)
    s = AA_SETS[code]
    enc = AA.index(s) if len(s) == 1 else 20
    if not amb and len(s) > 1:
        s = AA
    return impl, [enc] + indicator(s, AA), 1 < len(s) < 20


def aa_partial(code: int, amb: bool):
    """
    AminoAcidDataType: encoding + partial of chr(code) against the independent amino-acid table (B = D|N, Z = E|Q).

    pre: 0 <= code <= 127
    post: _[0] == _[1]
    """
    return _aa(code, amb)


def aa_partial_twin(code: int, amb: bool):
    """
    pre: 0 <= code <= 127
    post: not _[2]
    """
    return _aa(code, amb)


# ====================================================================== (2) CodonDataType
def _codon(n1, n2, n3, tup):
    chars = (CODON_ALPHABET[n1], CODON_ALPHABET[n2], CODON_ALPHABET[n3])
    m = len(CODON_ALPHABET)
    n = 64 - len(CODE_STOPS[CODE])
    o_enc = CODON_ENC[(n1 * m + n2) * m + n3]  # tabulated codon_oracle(CODE, .)
    o_par = [1.0] * n if o_enc == n else [1.0 if i == o_enc else 0.0 for i in range(n)]
    try:
        t = _CODT
        arg = chars if tup else chars[0] + chars[1] + chars[2]  # compress() hands over a tuple of 3 characters
        e = int(t.encoding(arg))
        impl = [int(t.state_count), e if e < n else n] + _listf(t.partial(arg, True))
    except Exception as ex:
        impl = raised(ex)
    return impl, [n, o_enc] + o_par, o_enc < n


def _is_stop(n1, n2, n3):
    m = len(CODON_ALPHABET)
    return CODON_STOP[(n1 * m + n2) * m + n3]


def _cdom(n1, n2, n3):
    m = len(CODON_ALPHABET)
    return 0 <= n1 < m and 0 <= n2 < m and 0 <= n3 < m


def codon_nonstop(n1: int, n2: int, n3: int, tup: bool):
    """
    Sense codons and ambiguous / gapped triplets of genetic code CODE: encoding = rank among the sense codons in
    AAA..TTT order (unknown -> >= state_count), partial = one-hot of it (unknown -> all ones), state_count = 64 - #stops.

    pre: _cdom(n1, n2, n3) and not _is_stop(n1, n2, n3)
    post: _[0] == _[1]
    """
    return _codon(n1, n2, n3, tup)


def codon_nonstop_twin(n1: int, n2: int, n3: int, tup: bool):
    """
    pre: _cdom(n1, n2, n3) and not _is_stop(n1, n2, n3)
    post: not _[2]
    """
    return _codon(n1, n2, n3, tup)


def codon_stop(n1: int, n2: int, n3: int, tup: bool):
    """
    Stop codons of genetic code CODE are no state of the model: "unknown" encoding and an all-ones tip vector.

    pre: _cdom(n1, n2, n3) and _is_stop(n1, n2, n3)
    post: _[0] == _[1]
    """
    return _codon(n1, n2, n3, tup)


def codon_stop_twin(n1: int, n2: int, n3: int, tup: bool):
    """
    pre: _cdom(n1, n2, n3) and _is_stop(n1, n2, n3)
    post: _[2]
    """
    return _codon(n1, n2, n3, tup)


# ====================================================================== (3) GeneralDataType
POOL = 'ACGT'


def _bits(m, k):
    return [POOL[i] for i in range(k) if (m >> i) & 1]


def _popcount(m):
    return (m & 1) + ((m >> 1) & 1) + ((m >> 2) & 1) + ((m >> 3) & 1)


def _general(k, m1, m2, a, q):
    """k states POOL[:k]; ambiguity symbols 'R' -> list(bits of m1), 'Y' -> list(bits of m2); alias 'U' -> POOL[a];
    query = q-th entry of states + ['R', 'Y', 'U', '?', '-']"""
    states = tuple(POOL[:k])
    amb = {'R': _bits(m1, k), 'Y': _bits(m2, k), 'U': POOL[a]}
    query = list(states) + ['R', 'Y', 'U', '?', '-']
    ch = query[q]
    if ch in states:
        o_set, o_enc = [ch], states.index(ch)
    elif ch == 'U':
        o_set, o_enc = [POOL[a]], a
    elif ch in amb:
        o_set, o_enc = amb[ch], (k if len(amb[ch]) > 1 else states.index(amb[ch][0]))
    else:
        o_set, o_enc = list(states), k
    try:
        t = GeneralDataType(None, states, {kk: (list(v) if isinstance(v, list) else v) for kk, v in amb.items()})
        e = int(t.encoding(ch))
        impl = [int(t.state_count), e if e < k else k] + _listf(t.partial(ch, True))
    except Exception as ex:
        impl = raised(ex)
    return impl, [k, o_enc] + indicator(o_set, states), ch in ('R', 'Y') and len(o_set) < k


def _gdom(k, m1, m2, a, q):
    return KMIN <= k <= KMAX and 0 < m1 < (1 << k) and 0 < m2 < (1 << k) and 0 <= a < k and 0 <= q < k + 5


def general(k: int, m1: int, m2: int, a: int, q: int):
    """
    GeneralDataType(states, {'R': [..], 'Y': [..], 'U': 'x'}): a state -> one-hot, an ambiguity (list of >= 2 states) ->
    union of its states, an alias (string) -> one-hot of the target, anything else -> all ones; encoding accordingly.

    pre: _gdom(k, m1, m2, a, q) and _popcount(m1) >= 2 and _popcount(m2) >= 2
    post: _[0] == _[1]
    """
    return _general(k, m1, m2, a, q)


def general_twin(k: int, m1: int, m2: int, a: int, q: int):
    """
    pre: _gdom(k, m1, m2, a, q) and _popcount(m1) >= 2 and _popcount(m2) >= 2
    post: not _[2]
    """
    return _general(k, m1, m2, a, q)


def general_single(k: int, m1: int, m2: int, a: int, q: int):
    """
    Same with a one-element list for 'R' (e.g. {"R": ["G"]} in a JSON file): union of one state = that state.

    pre: _gdom(k, m1, m2, a, q) and _popcount(m1) == 1 and _popcount(m2) >= 2
    post: _[0] == _[1]
    """
    return _general(k, m1, m2, a, q)


def general_single_twin(k: int, m1: int, m2: int, a: int, q: int):
    """
    pre: _gdom(k, m1, m2, a, q) and _popcount(m1) == 1 and _popcount(m2) >= 2
    post: not _[2]
    """
    return _general(k, m1, m2, a, q)


# ====================================================================== (4) compress / compress_alignment / ..._states
TAXA_NAMES = ('t2', 't0', 't1')  # Taxa order deliberately differs from the lexical order of the names


def index_choices(ncols):
    return [None, [0], [ncols - 1, 0], [slice(0, None)], [slice(1, None)], [slice(0, None, 2)], [slice(0, 1), ncols - 1]]


def selected_columns(indices, ncols):
    if indices is None:
        return list(range(ncols))
    out = []
    for ix in indices:
        out += list(range(ncols))[ix] if isinstance(ix, slice) else [list(range(ncols))[ix]]
    return out


def data_type():
    if DTYPE == 'nucleotide':
        return _NUCT
    if DTYPE == 'aminoacid':
        return _AAT
    return _CODT


def token_oracle(tok, amb):
    """(tip vector, tip state) of one alignment token by the independent tables"""
    if DTYPE == 'nucleotide':
        s = nuc_set(ord(tok))
        enc = NUC.index(s) if len(s) == 1 else 4
        return tuple(indicator(s if (amb or len(s) == 1) else NUC, NUC)), enc
    if DTYPE == 'aminoacid':
        s = aa_set(ord(tok))
        enc = AA.index(s) if len(s) == 1 else 20
        return tuple(indicator(s if (amb or len(s) == 1) else AA, AA)), enc
    enc, par = codon_oracle(CODE, tok)
    return tuple(par), enc


def build(cells, ncols, perm, names=TAXA_NAMES):
    """alignment of NT taxa x ncols tokens; sequences handed over in the order PERMS[perm]"""
    names = list(names[:NT])
    rows = [[SYMS[cells[i * NC + j]] for j in range(ncols)] for i in range(NT)]
    seqs = [''.join(r) for r in rows]
    sequences = [Sequence(names[i], seqs[i]) for i in PERMS[perm]]
    taxa = Taxa(None, [Taxon(n, {}) for n in names])
    al = Alignment(None, sequences, taxa, data_type())
    return names, rows, al


def _ms(keys, weights):
    d = {}
    for k, w in zip(keys, weights):
        d[k] = d.get(k, 0) + w
    return sorted(d.items())


def _cmp(which, cells, ncols, perm, ix, amb, names=TAXA_NAMES):
    """which: 0 compress, 1 compress_alignment, 2 compress_alignment_states.
    Returns (impl, oracle, reached) with impl / oracle = [weighted multiset of columns, weights positive, sum of weights]
    where a column is the tuple over taxa IN TAXA ORDER of tokens (0) / tip vectors (1) / tip states (2)."""
    names, rows, al = build(cells, ncols, perm, names)
    indices = index_choices(ncols)[ix]
    sel = selected_columns(indices, ncols)

    def view(tok):
        if which == 0:
            return tuple(tok) if len(tok) > 1 else tok
        return token_oracle(tok, amb)[which - 1]

    orc = [_ms([tuple(view(rows[i][j]) for i in range(NT)) for j in sel], [1] * len(sel)), True, len(sel)]
    try:
        if which == 0:
            patterns, weights = compress(al, indices)
            w = [int(x) for x in weights.tolist()]
            if sorted(patterns.keys()) != sorted(names):
                return ['taxa-keys', sorted(patterns.keys())], orc, False
            if any(len(patterns[n]) != len(w) for n in names):
                return ['pattern-length', [len(patterns[n]) for n in names], len(w)], orc, False
            cols = [tuple(patterns[n][p] for n in names) for p in range(len(w))]
        elif which == 1:
            partials, weights = compress_alignment(al, indices, amb)
            w = [int(x) for x in weights.tolist()]
            if len(partials) != NT or any(list(t.shape) != [al.data_type.state_count, len(w)] for t in partials):
                return ['shape', [list(t.shape) for t in partials], len(w)], orc, False
            lists = [t.tolist() for t in partials]
            cols = [tuple(tuple(float(lists[i][s][p]) for s in range(len(lists[i]))) for i in range(NT)) for p in range(len(w))]
        else:
            states, weights = compress_alignment_states(al, indices)
            w = [int(x) for x in weights.tolist()]
            if len(states) != NT or any(list(t.shape) != [len(w)] for t in states):
                return ['shape', [list(t.shape) for t in states], len(w)], orc, False
            lists = [t.tolist() for t in states]
            cols = [tuple(int(lists[i][p]) for i in range(NT)) for p in range(len(w))]
        impl = [_ms(cols, w), all(x > 0 for x in w), sum(w)]
    except Exception as ex:
        return raised(ex), orc, False
    return impl, orc, any(x > 1 for x in w)


def _adom(x0, x1, x2, x3, x4, x5, x6, x7, x8, ncols, perm, ix):
    cells = (x0, x1, x2, x3, x4, x5, x6, x7, x8)
    for i in range(9):
        used = i < NT * NC and (i % NC) < ncols
        if used:
            if not 0 <= cells[i] < len(SYMS):
                return False
        elif cells[i] != 0:
            return False
    if X0 >= 0 and x0 != X0:
        return False
    if not (0 <= perm < len(PERMS) and 0 <= ix <= IXMAX):
        return False
    return len(selected_columns(index_choices(ncols)[ix], ncols)) >= 1


def cmp_compress(x0: int, x1: int, x2: int, x3: int, x4: int, x5: int, x6: int, x7: int, x8: int, ncols: int, perm: int, ix: int):
    """
    compress(alignment, indices): the weighted patterns are the multiset of the selected columns (taxa keyed by name),
    weights positive, summing to the number of selected columns; independent of the order the sequences were given in.

    pre: 1 <= ncols <= NC and _adom(x0, x1, x2, x3, x4, x5, x6, x7, x8, ncols, perm, ix)
    post: _[0] == _[1]
    """
    return _cmp(0, (x0, x1, x2, x3, x4, x5, x6, x7, x8), ncols, perm, ix, True)


def cmp_compress_twin(x0: int, x1: int, x2: int, x3: int, x4: int, x5: int, x6: int, x7: int, x8: int, ncols: int, perm: int, ix: int):
    """
    pre: 1 <= ncols <= NC and _adom(x0, x1, x2, x3, x4, x5, x6, x7, x8, ncols, perm, ix)
    post: not _[2]
    """
    return _cmp(0, (x0, x1, x2, x3, x4, x5, x6, x7, x8), ncols, perm, ix, True)


def cmp_partials(x0: int, x1: int, x2: int, x3: int, x4: int, x5: int, x6: int, x7: int, x8: int, ncols: int, perm: int, ix: int, amb: bool):
    """
    compress_alignment(alignment, indices, use_ambiguities): tensor i holds the tip vectors of the i-th taxon of Taxa;
    the weighted columns of tip vectors are the multiset of the oracle tip vectors of the selected alignment columns.

    pre: 1 <= ncols <= NC and _adom(x0, x1, x2, x3, x4, x5, x6, x7, x8, ncols, perm, ix)
    post: _[0] == _[1]
    """
    return _cmp(1, (x0, x1, x2, x3, x4, x5, x6, x7, x8), ncols, perm, ix, amb)


def cmp_partials_twin(x0: int, x1: int, x2: int, x3: int, x4: int, x5: int, x6: int, x7: int, x8: int, ncols: int, perm: int, ix: int, amb: bool):
    """
    pre: 1 <= ncols <= NC and _adom(x0, x1, x2, x3, x4, x5, x6, x7, x8, ncols, perm, ix)
    post: not _[2]
    """
    return _cmp(1, (x0, x1, x2, x3, x4, x5, x6, x7, x8), ncols, perm, ix, amb)


def cmp_states(x0: int, x1: int, x2: int, x3: int, x4: int, x5: int, x6: int, x7: int, x8: int, ncols: int, perm: int, ix: int):
    """
    compress_alignment_states(alignment, indices): tensor i holds the tip states of the i-th taxon of Taxa (state index,
    state_count for "no single state"); weighted columns = multiset of the oracle states of the selected columns.

    pre: 1 <= ncols <= NC and _adom(x0, x1, x2, x3, x4, x5, x6, x7, x8, ncols, perm, ix)
    post: _[0] == _[1]
    """
    return _cmp(2, (x0, x1, x2, x3, x4, x5, x6, x7, x8), ncols, perm, ix, True)


def cmp_states_twin(x0: int, x1: int, x2: int, x3: int, x4: int, x5: int, x6: int, x7: int, x8: int, ncols: int, perm: int, ix: int):
    """
    pre: 1 <= ncols <= NC and _adom(x0, x1, x2, x3, x4, x5, x6, x7, x8, ncols, perm, ix)
    post: not _[2]
    """
    return _cmp(2, (x0, x1, x2, x3, x4, x5, x6, x7, x8), ncols, perm, ix, True)


configure(_os.environ)
