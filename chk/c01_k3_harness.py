"""C01 / K3 "tip vectors": PEP316 contract harness (CrossHair + z3) around the real torchtree code that turns
alignment characters into tip vectors.

Every contract function runs the REAL implementation on symbolic inputs (int character codes / choice
indices; numpy / torch are C level, so CrossHair realises a symbolic value when it reaches them - the
verdict "Confirmed over all paths" then is a solver-driven exhaustive case split of the stated finite
domain; lookups `BOX[i][0]` in a constant table of 1-tuples are used to make CrossHair split a small choice index per
entry) and an INDEPENDENT oracle written below (IUPAC table, stop-codon lists per genetic code, column
multisets) and returns `(impl, oracle, reached)`:

    <name>        post: _[0] == _[1]     the obligation
    <name>_twin   post: not _[2]         reachability twin: must be REFUTED (some admitted input reaches the
                                         end of the body with a non-degenerate result), otherwise the
                                         obligation might hold vacuously

Implementation exceptions are caught (`Exception` only) and show up as impl == ['raised', <type>, <msg>].
Configuration (genetic code, alignment bounds, ...) comes from the environment, see `configure`.
"""
from __future__ import annotations

import os as _os

from torchtree.evolution.alignment import Alignment, Sequence
from torchtree.evolution.datatype import AminoAcidDataType, CodonDataType, GeneralDataType, NucleotideDataType
from torchtree.evolution.site_pattern import compress, compress_alignment, compress_alignment_states
from torchtree.evolution.taxa import Taxa, Taxon

# ====================================================================== independent tables (oracle side)
NUC = 'ACGT'
# IUPAC nucleotide codes (Cornish-Bowden 1985); U = T; N ? - and every other character = any state
IUPAC = (('A', 'A'), ('C', 'C'), ('G', 'G'), ('T', 'T'), ('U', 'T'),
         ('R', 'AG'), ('Y', 'CT'), ('M', 'AC'), ('K', 'GT'), ('S', 'CG'), ('W', 'AT'),
         ('B', 'CGT'), ('D', 'AGT'), ('H', 'ACT'), ('V', 'ACG'),
         ('N', 'ACGT'), ('?', 'ACGT'), ('-', 'ACGT'))
IUPAC_ORD = tuple((ord(k), v) for k, v in IUPAC)

AA = 'ACDEFGHIKLMNPQRSTVWY'
# B = D or N (Asx), Z = E or Q (Glx); X * ? - and every other character = any state
AA_AMBIG_ORD = ((ord('B'), 'DN'), (ord('Z'), 'EQ'))

# genetic codes in the order of BEAST's GeneticCode.java; stop codons per NCBI transl_table
# (1, 2, 3, 4, 4, 5, 6, 9, 10, 11, 12, 13, 14, 15) - "No stops" is BEAST specific
CODE_NAMES = ('Universal', 'Vertebrate Mitochondrial', 'Yeast', 'Mold Protozoan Mitochondrial', 'Mycoplasma',
              'Invertebrate Mitochondrial', 'Ciliate', 'Echinoderm Mitochondrial', 'Euplotid Nuclear', 'Bacterial',
              'Alternative Yeast', 'Ascidian Mitochondrial', 'Flatworm Mitochondrial', 'Blepharisma Nuclear', 'No stops')
CODE_STOPS = (('TAA', 'TAG', 'TGA'), ('TAA', 'TAG', 'AGA', 'AGG'), ('TAA', 'TAG'), ('TAA', 'TAG'), ('TAA', 'TAG'),
              ('TAA', 'TAG'), ('TGA',), ('TAA', 'TAG'), ('TAA', 'TAG'), ('TAA', 'TAG', 'TGA'),
              ('TAA', 'TAG', 'TGA'), ('TAA', 'TAG'), ('TAG',), ('TAA', 'TGA'), ())
ALL_TRIPLETS = tuple(a + b + c for a in NUC for b in NUC for c in NUC)  # AAA, AAC, AAG, AAT, ACA, ... TTT


def nuc_set(code):
    """IUPAC state set of the character with this code; lower case = upper case; unknown = any"""
    if 97 <= code <= 122:
        code = code - 32
    for k, v in IUPAC_ORD:
        if code == k:
            return v
    return NUC


def aa_set(code):
    if 97 <= code <= 122:
        code = code - 32
    for i in range(20):
        if code == ord(AA[i]):
            return AA[i]
    for k, v in AA_AMBIG_ORD:
        if code == k:
            return v
    return AA


# the two character tables, tabulated once (concretely) from the rules above; a contract function looks its symbolic
# character code up in them (CrossHair turns a lookup in a constant table into an if-then-else term / a split per entry)
NUC_SETS = tuple(nuc_set(i) for i in range(128))
AA_SETS = tuple(aa_set(i) for i in range(128))


def indicator(sset, states):
    return [1.0 if s in sset else 0.0 for s in states]


def sense_codons(code_index):
    return [t for t in ALL_TRIPLETS if t not in CODE_STOPS[code_index]]


def codon_oracle(code_index, chars):
    """(state index or state_count for "unknown", tip vector) of a triplet given as 3 characters"""
    sense = sense_codons(code_index)
    n = len(sense)
    sets = [nuc_set(ord(c)) for c in chars]
    if all(len(s) == 1 for s in sets):
        t = sets[0] + sets[1] + sets[2]
        if t in sense:
            r = sense.index(t)
            return r, [1.0 if i == r else 0.0 for i in range(n)]
    return n, [1.0] * n


def raised(e):
    return ['raised', type(e).__name__, str(e)[:80]]


# ====================================================================== configuration
CFG = {}
INT_BOX = tuple((i,) for i in range(16))
BOOL_BOX = ((False,), (True,))


def _product(items, n):
    out = [()]
    for _ in range(n):
        out = [p + (x,) for p in out for x in items]
    return out


def _perms(n):
    out = [[]]
    for _ in range(n):
        out = [p + [i] for p in out for i in range(n) if i not in p]
    return out


def configure(env):
    """(re)read the configuration; called with os.environ at import and by the driver before a concrete replay"""
    g = globals()
    CFG.clear()
    CFG.update({k: v for k, v in env.items() if k.startswith('C01K3_')})
    # (2) codon
    g['CODE'] = int(env.get('C01K3_CODE', '0'))
    al = env.get('C01K3_CODON_ALPHABET', 'ACGT-')
    g['CODON_ALPHABET'] = al
    g['ALPHABET_BOX'] = tuple((c,) for c in al)
    nsense = 64 - len(CODE_STOPS[g['CODE']])
    g['CODON_ORC'] = {}
    g['CODON_STOP'] = {}
    for t in _product(al, 3):
        enc, par = codon_oracle(g['CODE'], t)
        g['CODON_ORC'][t] = (nsense, enc, tuple(par))
        g['CODON_STOP'][t] = ''.join(nuc_set(ord(c)) if len(nuc_set(ord(c))) == 1 else '.' for c in t) in CODE_STOPS[g['CODE']]
    # (3) general
    g['KMIN'] = int(env.get('C01K3_KMIN', '3'))
    g['KMAX'] = int(env.get('C01K3_KMAX', '3'))
    g['GM2'] = int(env.get('C01K3_M2', '-1'))  # case split over the second ambiguity mask (parallelism), -1 = free
    # (4) alignments
    g['NT'] = int(env.get('C01K3_NT', '2'))
    g['NC'] = int(env.get('C01K3_NC', '2'))
    g['SYMS'] = tuple(env.get('C01K3_SYMS', 'A,C,-').split(','))
    g['DTYPE'] = env.get('C01K3_DTYPE', 'nucleotide')  # nucleotide | aminoacid | codon (genetic code CODE)
    g['IXMIN'] = int(env.get('C01K3_IXMIN', '0'))
    g['IXMAX'] = int(env.get('C01K3_IXMAX', '0'))
    g['C0'] = int(env.get('C01K3_C0', '-1'))  # case split over the first column (parallelism), -1 = free
    g['PERM'] = int(env.get('C01K3_PERM', '-1'))  # case split over the hand-over order, -1 = free
    g['PERMS'] = _perms(g['NT'])
    g['COL_BOX'] = tuple(_product(g['SYMS'], g['NT']))  # every possible alignment column (taxa order), as tuples
    g['SEL_OK'] = tuple(tuple(n >= 1 and len(selected_columns(ch, n)) >= 1 for ch in index_choices(max(n, 1))) for n in range(4))
    # data type objects (the real ones)
    g['_NUCT'] = NucleotideDataType(None)
    g['_AAT'] = AminoAcidDataType(None)
    try:
        g['_CODT'] = CodonDataType(None, CODE_NAMES[g['CODE']].upper())  # the lookup by name is case-insensitive
    except Exception as e:
        g['_CODT'] = raised(e)
    _apply_mutant(env.get('C01K3_MUTANT', ''))


# harness sensitivity tests only (C01K3_MUTANT=...): in-memory stand-ins for seeded defects; /repo stays untouched and the
# driver writes a note into the evidence whenever one is active
_ORIG = {}


def _apply_mutant(name):
    import numpy as np

    g = globals()
    if not _ORIG:
        _ORIG.update(table=NucleotideDataType.NUCLEOTIDE_STATES, compress=compress, ca=compress_alignment,
                     cas=compress_alignment_states, gpartial=GeneralDataType.partial)
    NucleotideDataType.NUCLEOTIDE_STATES = _ORIG['table']
    g['compress'], g['compress_alignment'], g['compress_alignment_states'] = _ORIG['compress'], _ORIG['ca'], _ORIG['cas']
    GeneralDataType.partial = _ORIG['gpartial']
    if not name:
        return
    tab = list(_ORIG['table'])
    if name == 'nuc-R':  # R read as Y
        tab[ord('R')] = 6
        NucleotideDataType.NUCLEOTIDE_STATES = tuple(tab)
    elif name == 'nuc-lower':  # lower-case m unknown
        tab[ord('m')] = 16
        NucleotideDataType.NUCLEOTIDE_STATES = tuple(tab)
    elif name == 'codon-rank' and not isinstance(_CODT, list):  # exclusive instead of inclusive stop count
        _CODT.stop_count = np.concatenate([[0], _CODT.stop_count[:-1]])
        _CODT.stop_count[60:] += 1
    elif name == 'order':  # tip vectors in the order of the names, not of Taxa

        def ca(al, indices=None, use_ambiguities=True):
            p, w = _ORIG['ca'](al, indices, use_ambiguities)
            order = sorted(range(len(p)), key=lambda i: al.taxa[i].id)
            return [p[i] for i in order], w

        g['compress_alignment'] = ca
    elif name == 'weights':  # repeated columns counted once

        def cs(al, indices=None):
            p, w = _ORIG['cas'](al, indices)
            return p, w.clamp(max=1)

        g['compress_alignment_states'] = cs
    elif name == 'union':  # ambiguity = first state only

        def gp(self, string, use_ambiguities=True):
            p = list(_ORIG['gpartial'](self, string, use_ambiguities))
            if string in self.ambiguities and isinstance(self.ambiguities[string], list) and sum(p) > 1:
                p[p.index(1.0)] = 0.0
            return tuple(p)

        GeneralDataType.partial = gp
    else:
        raise ValueError(f'unknown C01K3_MUTANT {name}')


# ====================================================================== (1) NucleotideDataType / AminoAcidDataType
def _listf(x):
    return list(map(float, x))


def _nuc_partial(c, code, amb):
    try:
        impl = _listf(_NUCT.partial(c, amb))
    except Exception as e:
        impl = raised(e)
    s = NUC_SETS[code]
    if not amb and len(s) > 1:
        s = NUC
    return impl, indicator(s, NUC), impl != [1.0] * 4


def nuc_amb(code: int):
    """
    partial(chr(code), use_ambiguities=True) is the indicator vector of the IUPAC set of the character.

    pre: 0 <= code <= 127
    post: _[0] == _[1]
    """
    return _nuc_partial(chr(code), code, True)


def nuc_amb_twin(code: int):
    """
    pre: 0 <= code <= 127
    post: not _[2]
    """
    return _nuc_partial(chr(code), code, True)


def nuc_noamb(code: int):
    """
    partial(chr(code), use_ambiguities=False): indicator for A C G T U (either case), all ones otherwise.

    pre: 0 <= code <= 127
    post: _[0] == _[1]
    """
    return _nuc_partial(chr(code), code, False)


def nuc_noamb_twin(code: int):
    """
    pre: 0 <= code <= 127
    post: not _[2]
    """
    return _nuc_partial(chr(code), code, False)


def nuc_amb_str(c: str, amb: bool):
    """
    Same two obligations with a symbolic one-character string (and a symbolic flag).

    pre: len(c) == 1 and ord(c) <= 127
    post: _[0] == _[1]
    """
    return _nuc_partial(c, ord(c), amb)


def nuc_amb_str_twin(c: str, amb: bool):
    """
    pre: len(c) == 1 and ord(c) <= 127
    post: not _[2]
    """
    return _nuc_partial(c, ord(c), amb)


def _nuc_enc(code):
    try:
        e = int(_NUCT.encoding(chr(code)))
        impl = e if e < 4 else 4  # every value >= state_count means "no single state" (compress_alignment_states clamps)
    except Exception as ex:
        impl = raised(ex)
    s = NUC_SETS[code]
    orc = NUC.index(s) if len(s) == 1 else 4
    return impl, orc, orc < 4


def nuc_enc(code: int):
    """
    encoding(chr(code)) = index of the state for A C G T U (either case), >= 4 for every other character.

    pre: 0 <= code <= 127
    post: _[0] == _[1]
    """
    return _nuc_enc(code)


def nuc_enc_twin(code: int):
    """
    pre: 0 <= code <= 127
    post: not _[2]
    """
    return _nuc_enc(code)


def _aa(code, amb):
    c = chr(code)
    try:
        e = int(_AAT.encoding(c))
        impl = [e if e < 20 else 20] + _listf(_AAT.partial(c, amb))
    except Exception as ex:
        impl = raised(ex)
    s = AA_SETS[code]
    enc = AA.index(s) if len(s) == 1 else 20
    if not amb and len(s) > 1:
        s = AA
    return impl, [enc] + indicator(s, AA), 1 < len(s) < 20


def aa_partial(code: int, amb: bool):
    """
    AminoAcidDataType: encoding + partial of chr(code) against the independent amino-acid table (B = D|N, Z = E|Q).

    pre: 0 <= code <= 127
    post: _[0] == _[1]
    """
    return _aa(code, amb)


def aa_partial_twin(code: int, amb: bool):
    """
    pre: 0 <= code <= 127
    post: not _[2]
    """
    return _aa(code, amb)


# ====================================================================== (2) CodonDataType
def _codon(n1, n2, n3, tup):
    # ALPHABET_BOX[i] = (character,): the lookup makes CrossHair split the path per entry, so the characters are concrete
    # below (the numpy indexing inside CodonDataType.encoding would realise them anyway)
    chars = (ALPHABET_BOX[n1][0], ALPHABET_BOX[n2][0], ALPHABET_BOX[n3][0])
    n, o_enc, o_par = CODON_ORC[chars]  # tabulated codon_oracle(CODE, .)
    try:
        t = _CODT
        arg = chars if tup else chars[0] + chars[1] + chars[2]  # compress() hands over a tuple of 3 characters
        e = int(t.encoding(arg))
        impl = [int(t.state_count), e if e < n else n] + _listf(t.partial(arg, True))
    except Exception as ex:
        impl = raised(ex)
    return impl, [n, o_enc] + list(o_par), o_enc < n


def _is_stop(n1, n2, n3):
    return CODON_STOP[(ALPHABET_BOX[n1][0], ALPHABET_BOX[n2][0], ALPHABET_BOX[n3][0])]


def _cdom(n1, n2, n3):
    m = len(CODON_ALPHABET)
    return 0 <= n1 < m and 0 <= n2 < m and 0 <= n3 < m


def codon_nonstop(n1: int, n2: int, n3: int, tup: bool):
    """
    Sense codons and ambiguous / gapped triplets of genetic code CODE: encoding = rank among the sense codons in
    AAA..TTT order (unknown -> >= state_count), partial = one-hot of it (unknown -> all ones), state_count = 64 - #stops.

    pre: _cdom(n1, n2, n3) and not _is_stop(n1, n2, n3)
    post: _[0] == _[1]
    """
    return _codon(n1, n2, n3, tup)


def codon_nonstop_twin(n1: int, n2: int, n3: int, tup: bool):
    """
    pre: _cdom(n1, n2, n3) and not _is_stop(n1, n2, n3)
    post: not _[2]
    """
    return _codon(n1, n2, n3, tup)


def codon_stop(n1: int, n2: int, n3: int, tup: bool):
    """
    Stop codons of genetic code CODE are no state of the model: "unknown" encoding and an all-ones tip vector.

    pre: _cdom(n1, n2, n3) and _is_stop(n1, n2, n3)
    post: _[0] == _[1]
    """
    return _codon(n1, n2, n3, tup)


def codon_stop_twin(n1: int, n2: int, n3: int, tup: bool):
    """
    (reachability only: some admitted triplet is a stop codon and the body runs to its end)

    pre: _cdom(n1, n2, n3) and _is_stop(n1, n2, n3)
    post: _[2]
    """
    return _codon(n1, n2, n3, tup)


# ====================================================================== (3) GeneralDataType
POOL = 'ACGT'
MASK_SETS = tuple(tuple(POOL[i] for i in range(4) if (m >> i) & 1) for m in range(16))  # bit i of the mask = POOL[i]
POPCOUNT = tuple(len(x) for x in MASK_SETS)
LIMIT = (1, 2, 4, 8, 16)
QUERIES = tuple(tuple(POOL[:k]) + ('R', 'Y', 'U', '?', '-') for k in range(5))


def _popcount(m):
    return POPCOUNT[m]


def _general(k, m1, m2, a, q):
    """k states POOL[:k]; ambiguity symbols 'R' -> list(bits of m1), 'Y' -> list(bits of m2); alias 'U' -> POOL[a];
    query = q-th entry of states + ('R', 'Y', 'U', '?', '-')"""
    states = QUERIES[k][:-5]
    k = len(states)
    tgt = INT_BOX[a][0]
    tgt = states[tgt]
    amb = {'R': list(MASK_SETS[m1]), 'Y': list(MASK_SETS[m2]), 'U': tgt}
    ch = QUERIES[k][INT_BOX[q][0]]
    if ch in states:
        o_set, o_enc = [ch], states.index(ch)
    elif ch == 'U':
        o_set, o_enc = [tgt], states.index(tgt)
    elif ch in amb:
        o_set, o_enc = amb[ch], (k if len(amb[ch]) > 1 else states.index(amb[ch][0]))
    else:
        o_set, o_enc = list(states), k
    try:
        t = GeneralDataType(None, states, {'R': list(amb['R']), 'Y': list(amb['Y']), 'U': tgt})
        e = int(t.encoding(ch))
        impl = [int(t.state_count), e if e < k else k] + _listf(t.partial(ch, True))
    except Exception as ex:
        impl = raised(ex)
    return impl, [k, o_enc] + indicator(o_set, states), ch in ('R', 'Y')


def _gdom(k, m1, m2, a, q):
    if not KMIN <= k <= KMAX:
        return False
    if GM2 >= 0 and m2 != GM2:
        return False
    lim = LIMIT[k]
    return 0 < m1 < lim and 0 < m2 < lim and 0 <= a < k and 0 <= q < k + 5


def general(k: int, m1: int, m2: int, a: int, q: int):
    """
    GeneralDataType(states, {'R': [..], 'Y': [..], 'U': 'x'}): a state -> one-hot, an ambiguity (list of >= 2 states) ->
    union of its states, an alias (string) -> one-hot of the target, anything else -> all ones; encoding accordingly.

    pre: _gdom(k, m1, m2, a, q) and _popcount(m1) >= 2 and _popcount(m2) >= 2
    post: _[0] == _[1]
    """
    return _general(k, m1, m2, a, q)


def general_twin(k: int, m1: int, m2: int, a: int, q: int):
    """
    pre: _gdom(k, m1, m2, a, q) and _popcount(m1) >= 2 and _popcount(m2) >= 2
    post: not _[2]
    """
    return _general(k, m1, m2, a, q)


def general_single(k: int, m1: int, m2: int, a: int, q: int):
    """
    Same with a one-element list for 'R' (e.g. {"R": ["G"]} in a JSON file): union of one state = that state.

    pre: _gdom(k, m1, m2, a, q) and _popcount(m1) == 1 and _popcount(m2) >= 2
    post: _[0] == _[1]
    """
    return _general(k, m1, m2, a, q)


def general_single_twin(k: int, m1: int, m2: int, a: int, q: int):
    """
    pre: _gdom(k, m1, m2, a, q) and _popcount(m1) == 1 and _popcount(m2) >= 2
    post: not _[2]
    """
    return _general(k, m1, m2, a, q)


# ====================================================================== (4) compress / compress_alignment / ..._states
TAXA_NAMES = ('t2', 't0', 't1')  # Taxa order deliberately differs from the lexical order of the names
PARTS = ('compress', 'compress_alignment[use_ambiguities=True]', 'compress_alignment[use_ambiguities=False]',
         'compress_alignment_states')


def index_choices(ncols):
    return [None, [0], [ncols - 1, 0], [slice(0, None)], [slice(1, None)], [slice(0, None, 2)], [slice(0, 1), ncols - 1]]


def selected_columns(indices, ncols):
    if indices is None:
        return list(range(ncols))
    out = []
    for ix in indices:
        out += list(range(ncols))[ix] if isinstance(ix, slice) else [list(range(ncols))[ix]]
    return out


def data_type():
    if DTYPE == 'nucleotide':
        return _NUCT
    if DTYPE == 'aminoacid':
        return _AAT
    return _CODT


def token_oracle(tok, amb):
    """(tip vector, tip state) of one alignment token by the independent tables"""
    if DTYPE == 'nucleotide':
        s = nuc_set(ord(tok))
        enc = NUC.index(s) if len(s) == 1 else 4
        return tuple(indicator(s if (amb or len(s) == 1) else NUC, NUC)), enc
    if DTYPE == 'aminoacid':
        s = aa_set(ord(tok))
        enc = AA.index(s) if len(s) == 1 else 20
        return tuple(indicator(s if (amb or len(s) == 1) else AA, AA)), enc
    enc, par = codon_oracle(CODE, tok)
    return tuple(par), enc


def build(cols, perm, names=TAXA_NAMES):
    """alignment with the given columns (tuples over the NT taxa in Taxa order); sequences handed over in order PERMS[perm]"""
    names = list(names[:NT])
    rows = [[col[i] for col in cols] for i in range(NT)]
    sequences = [Sequence(names[i], ''.join(rows[i])) for i in PERMS[perm]]
    taxa = Taxa(None, [Taxon(n, {}) for n in names])
    return names, rows, Alignment(None, sequences, taxa, data_type())


def _ms(keys, weights):
    d = {}
    for k, w in zip(keys, weights):
        d[k] = d.get(k, 0) + w
    return sorted(d.items())


def view(part, tok):
    if part == 0:
        return tuple(tok) if len(tok) > 1 else tok
    return token_oracle(tok, part == 1)[0 if part < 3 else 1]


def impl_part(part, al, names, indices):
    """[weighted multiset of columns, all weights positive, sum of weights] as produced by the real function; a column is
    the tuple over the taxa IN TAXA ORDER of tokens (part 0) / tip vectors (1, 2) / tip states (3)"""
    try:
        if part == 0:
            patterns, weights = compress(al, indices)
            w = list(map(int, weights.tolist()))
            if sorted(patterns.keys()) != sorted(names):
                return ['taxa-keys', sorted(patterns.keys())], w
            if any(len(patterns[n]) != len(w) for n in names):
                return ['pattern-length', [len(patterns[n]) for n in names], len(w)], w
            cols = list(zip(*[patterns[n] for n in names]))
        elif part < 3:
            partials, weights = compress_alignment(al, indices, part == 1)
            w = list(map(int, weights.tolist()))
            if len(partials) != NT or any(list(t.shape) != [al.data_type.state_count, len(w)] for t in partials):
                return ['shape', [list(t.shape) for t in partials], len(w)], w
            cols = list(zip(*[list(map(tuple, t.t().tolist())) for t in partials]))
        else:
            states, weights = compress_alignment_states(al, indices)
            w = list(map(int, weights.tolist()))
            if len(states) != NT or any(list(t.shape) != [len(w)] for t in states):
                return ['shape', [list(t.shape) for t in states], len(w)], w
            cols = list(zip(*[t.tolist() for t in states]))
        return [_ms(cols, w), min(w) > 0, sum(w)], w
    except Exception as ex:
        return raised(ex), []


def oracle_part(part, rows, sel, order=None):
    order = range(NT) if order is None else order
    return [_ms([tuple(view(part, rows[i][j]) for i in order) for j in sel], [1] * len(sel)), True, len(sel)]


def _cmp(c0, c1, c2, ncols, perm, ix):
    """all four parts on one symbolic alignment: (impl, oracle, reached) with impl / oracle = list over PARTS"""
    ncols, perm, ix = INT_BOX[ncols][0], INT_BOX[perm][0], INT_BOX[ix][0]
    cols = [COL_BOX[c] for c in (c0, c1, c2)[:ncols]]
    names, rows, al = build(cols, perm)
    indices = index_choices(ncols)[ix]
    sel = selected_columns(indices, ncols)
    impl, orc = [], []
    for part in range(4):
        impl.append(impl_part(part, al, names, indices)[0])
        orc.append(oracle_part(part, rows, sel))
    return impl, orc, max(n for _, n in orc[0][0]) > 1


def _adom(c0, c1, c2, ncols, perm, ix):
    m = len(COL_BOX)
    if not (1 <= ncols <= NC and 0 <= perm < len(PERMS) and IXMIN <= ix <= IXMAX):
        return False
    if (C0 >= 0 and c0 != C0) or (PERM >= 0 and perm != PERM):
        return False
    if not (0 <= c0 < m and 0 <= c1 < m and 0 <= c2 < m):
        return False
    if (ncols < 2 and c1 != 0) or (ncols < 3 and c2 != 0):
        return False
    return SEL_OK[INT_BOX[ncols][0]][ix]


def cmp_all(c0: int, c1: int, c2: int, ncols: int, perm: int, ix: int):
    """
    Alignment of NT taxa with ncols <= NC columns c_j (index into COL_BOX = SYMS ** NT), sequences handed over in the order
    PERMS[perm], site selection index_choices(ncols)[ix].  For compress (patterns keyed by taxon name), compress_alignment
    with and without ambiguities and compress_alignment_states (tensor i = i-th taxon of Taxa): the weighted patterns are
    the multiset of the selected columns (as tokens / oracle tip vectors / oracle tip states, taxa in Taxa order), the
    weights are positive and sum to the number of selected columns.

    pre: _adom(c0, c1, c2, ncols, perm, ix)
    post: _[0] == _[1]
    """
    return _cmp(c0, c1, c2, ncols, perm, ix)


def cmp_all_twin(c0: int, c1: int, c2: int, ncols: int, perm: int, ix: int):
    """
    (reached = the body ran to its end on an alignment with a repeated selected column)

    pre: _adom(c0, c1, c2, ncols, perm, ix)
    post: not _[2]
    """
    return _cmp(c0, c1, c2, ncols, perm, ix)


configure(_os.environ)
