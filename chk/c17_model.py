"""C17 support code shared by the CrossHair harness (chk/c17_harness.py) and the driver (checks/C17.py).

* `json_model`      pure-Python model of what `json.dump(obj, cls=ParameterEncoder)` followed by
                    `json.load(fp, cls=TensorDecoder)` does to a Python value (data model only: int keys -> str,
                    tuple -> list, scalars preserved exactly, unknown types go through the encoder's real
                    `default`, every decoded object goes through the decoder's real `object_hook`).  It never
                    touches the C scanner, so symbolic ints/floats/bools survive unrealised.
* `real_json`       the same pipeline through the real `json` module (used by the sanity pass and by replays).
* builders          construct the real torchtree objects (small concrete Parameters / tensors).
* `view`            the state an object needs to continue a run, as (responsible class, path, owner, attr).
* `run_case`        one checkpoint round trip A -> state_dict -> JSON -> fresh B.load_state_dict, returning the
                    list of problems (signatures).  Used symbolically (model codec, tolerant dicts, first
                    problem only) and concretely (real json, plain dicts, all problems).

Only `Exception` is ever caught here (CrossHair control flow uses BaseException subclasses).
"""
from __future__ import annotations

import collections
import contextlib
import io
import json
import os

import torch

from torchtree.core.parameter import Parameter
from torchtree.core.parameter_encoder import ParameterEncoder
from torchtree.core.utils import TensorDecoder, update_parameters
from torchtree.distributions.gmrf import GMRF
from torchtree.inference.hmc.adaptation import (
    AdaptiveStepSize,
    DualAveragingStepSize,
    MassMatrixAdaptor,
)
from torchtree.inference.hmc.integrator import LeapfrogIntegrator
from torchtree.inference.hmc.operator import HMCOperator
from torchtree.inference.mcmc.gmrf_block_updating import (
    GMRFPiecewiseCoalescentBlockUpdatingOperator,
)
from torchtree.inference.mcmc.mcmc import MCMC
from torchtree.inference.mcmc.operator import (
    DirichletOperator,
    MCMCOperator,
    ScalerOperator,
    SlidingWindowOperator,
)
from torchtree.ops.dual_averaging import DualAveraging
from torchtree.ops.welford import WelfordVariance
from torchtree.optim.convergence import StanVariationalConvergence
from torchtree.optim.lr_scheduler import Scheduler
from torchtree.optim.optimizer import Optimizer

_ENC = ParameterEncoder()
_DEC = TensorDecoder()


def skip_set():
    """Signatures already reported in an earlier CrossHair round (the driver passes them through the
    environment so the next round looks for a *different* problem)."""
    raw = os.environ.get('C17_SKIP', '')
    return set(json.loads(raw)) if raw else set()


# ------------------------------------------------------------------------------------------------ JSON
class NotSerialisable(Exception):
    def __init__(self, typename):
        Exception.__init__(self, typename)
        self.typename = typename


class _Missing:
    """Returned by `Tolerant.__missing__` so that a load_state_dict that reads a key state_dict never wrote
    keeps going and the fields it handles afterwards can still be judged."""

    def __getitem__(self, k):
        return self

    def __iter__(self):
        return iter(())

    def __repr__(self):
        return '<MISSING>'


MISSING = _Missing()


class Tolerant(dict):
    """dict that records reads of absent keys instead of raising KeyError (`in`/`get` behave as usual)."""

    log = None  # list shared by all dicts of one decode

    def __missing__(self, k):
        self.log.append((dict.get(self, 'id', None), k))
        return MISSING


def _key_model(k):
    # json.encoder: str kept; True/False/None -> 'true'/'false'/'null'; int -> int.__repr__; float -> float.__repr__
    if isinstance(k, str):
        return k
    if isinstance(k, bool):
        return 'true' if k else 'false'
    if k is None:
        return 'null'
    if isinstance(k, int):
        return str(int(k)) if type(k) is int else str(k)
    if isinstance(k, float):
        if k != k:
            return 'NaN'
        if k == float('inf'):
            return 'Infinity'
        if k == float('-inf'):
            return '-Infinity'
        return float.__repr__(k)
    raise NotSerialisable('key:' + type(k).__name__)


def json_model(x, default=None, hook=None, tolerant_log=None, leaf=None):
    """Value obtained from json.loads(json.dumps(x, default=default), object_hook=hook).
    leaf (symtorch runs, chk/c17_resume.py): applied to every float that crosses the file."""
    if leaf is not None and isinstance(x, float):
        return leaf(x)
    if x is None or isinstance(x, (bool, int, float, str)):
        return x
    if isinstance(x, (list, tuple)):
        return [json_model(v, default, hook, tolerant_log, leaf) for v in x]
    if isinstance(x, dict):
        if tolerant_log is not None:
            out = Tolerant()
            out.log = tolerant_log
        else:
            out = {}
        for k, v in x.items():
            out[_key_model(k)] = json_model(v, default, hook, tolerant_log, leaf)
        if hook is not None:
            return hook(out)
        return out
    if default is not None:
        try:
            if isinstance(x, (torch.Tensor, Parameter)):
                with untraced():  # concrete payload: run the real encoder without opcode tracing
                    y = default(x)
            else:
                y = default(x)
        except TypeError:
            raise NotSerialisable(type(x).__name__)
        return json_model(y, default, hook, tolerant_log, leaf)
    raise NotSerialisable(type(x).__name__)


def checkpoint_model(x, tolerant_log=None):
    """save_parameters (json.dump cls=ParameterEncoder) then main() (json.load cls=TensorDecoder)."""
    return json_model(x, _ENC.default, _DEC.object_hook, tolerant_log)


def checkpoint_real(x):
    try:
        txt = json.dumps(x, cls=ParameterEncoder, indent=2)
    except TypeError as e:
        raise NotSerialisable(str(e).split(' ')[3] if str(e).startswith('Object of type') else str(e))
    return json.loads(txt, cls=TensorDecoder)


# ------------------------------------------------------------------------------------------- comparison
def untraced():
    """Inside CrossHair: switch the opcode tracer off (torch's own Python code builds sets of tensors, which
    CrossHair's symbolic-aware `set` cannot hash/compare).  Only used around code that sees concrete values."""
    try:
        from crosshair.tracers import NoTracing, is_tracing

        if is_tracing():
            return NoTracing()
    except Exception:
        pass
    return contextlib.nullcontext()


def _kind(x):
    if x is None:
        return 'none'
    if isinstance(x, bool):
        return 'bool'
    if isinstance(x, int):
        return 'int'
    if isinstance(x, float):
        return 'float'
    if isinstance(x, str):
        return 'str'
    return None


def _tensor_diff(a, b, path):
    if a.dtype != b.dtype:
        return path + ':dtype'
    if a.shape != b.shape:
        return path + ':shape'
    if isinstance(a, torch.nn.Parameter) != isinstance(b, torch.nn.Parameter):
        return path + ':nn-flag'
    if a.numel() and not bool(((a == b) | ((a != a) & (b != b))).all()):
        return path + ':values'
    return ''


def diff(a, b, path=''):
    """'' when a and b are the same state; otherwise 'path:reason' of the first difference.  tuple == list
    (JSON data model); NaN == NaN; dict keys are compared with their types ('0' != 0)."""
    if a is b:
        return ''
    if isinstance(a, torch.Tensor) or isinstance(b, torch.Tensor):
        if not (isinstance(a, torch.Tensor) and isinstance(b, torch.Tensor)):
            return path + ':tensor-vs-' + type(b if isinstance(a, torch.Tensor) else a).__name__
        with untraced():  # tensors are concrete
            return _tensor_diff(a, b, path)
    if isinstance(a, Parameter) and isinstance(b, Parameter):
        return diff(a.tensor, b.tensor, path + '.tensor')
    ka, kb = _kind(a), _kind(b)
    if ka is not None or kb is not None:
        if ka != kb:
            return path + ':type'
        if ka == 'none':
            return ''
        if ka == 'float':
            return '' if (a == b or (a != a and b != b)) else path + ':value'
        return '' if a == b else path + ':value'
    if isinstance(a, (list, tuple, collections.deque)) and isinstance(b, (list, tuple, collections.deque)):
        if isinstance(a, collections.deque) != isinstance(b, collections.deque):
            return path + ':type'
        if len(a) != len(b):
            return path + ':length'
        for i, (x, y) in enumerate(zip(a, b)):
            d = diff(x, y, f'{path}[{i}]')
            if d:
                return d
        return ''
    if isinstance(a, dict) and isinstance(b, dict):
        ak, bk = list(a.keys()), list(b.keys())
        for k in ak:
            if k not in b:
                if any(str(k) == str(k2) for k2 in bk):
                    return path + ':int-keys-become-str'
                return f'{path}[{k}]:key-lost'
        for k in bk:
            if k not in a:
                return f'{path}[{k}]:key-added'
        for k in ak:
            d = diff(a[k], b[k], f'{path}[{k}]')
            if d:
                return d
        return ''
    if isinstance(a, (DualAveraging, WelfordVariance)) and type(a) is type(b):
        return diff(vars(a), vars(b), path)
    if callable(a) and callable(b):
        return ''
    if type(a) is not type(b):
        return path + ':type'
    return '' if a == b else path + ':value'


# ---------------------------------------------------------------------------------------------- builders
def _params():
    return [Parameter('p1', torch.tensor([1.0, 2.0])), Parameter('p2', torch.tensor([0.5]))]


def mk_scaler(id_='scaler'):
    return ScalerOperator(id_, _params(), 1.0, 0.24, 0.1, acceptance_window_length=3)


def mk_sliding(id_='sliding'):
    return SlidingWindowOperator(id_, _params(), 2.0, 0.24, 0.1, acceptance_window_length=3)


def mk_dirichlet(id_='dirichlet'):
    return DirichletOperator(id_, [Parameter('freq', torch.tensor([0.2, 0.3, 0.5]))], 1.0, 0.24, 1.0,
                             acceptance_window_length=3)


def mk_gmrf_op(id_='gmrfop'):
    gmrf = GMRF('gmrf', Parameter('field', torch.tensor([0.1, 0.2, 0.3])), Parameter('prec', torch.tensor([1.0])))
    return GMRFPiecewiseCoalescentBlockUpdatingOperator(id_, None, gmrf, 1.0, 0.24, 2.0, acceptance_window_length=3)


def mk_leapfrog(id_='leapfrog'):
    return LeapfrogIntegrator(id_, 10, 0.01)


def _window(window, shift=0):
    """window None: the defaults of the class (open ended); (start, end): a finite adaptation window
    (the bounds may be symbolic ints)"""
    if window is None:
        return {}
    return {'start': window[0] + shift, 'end': window[1] + shift}


def mk_adaptive(integrator=None, use_rate=False, window=None):
    return AdaptiveStepSize('ass', integrator or mk_leapfrog(), 0.8, use_acceptance_rate=use_rate, **_window(window))


def mk_dual(integrator=None, window=None):
    return DualAveragingStepSize('dass', integrator or mk_leapfrog(), mu=0.5, delta=0.8, **_window(window))


def _mass(diag):
    return Parameter('mass', torch.ones(3) if diag else torch.eye(3))


def mk_mma(mass=None, diag=True, mode=0, window=None):
    # mode 0: plain, 1: variance_window, 2: swap_every
    kw = _window(window)
    if mode == 1:
        kw['variance_window'] = 1
    elif mode == 2:
        kw['swap_every'] = 5
    return MassMatrixAdaptor('mma', _params(), mass if mass is not None else _mass(diag), True, **kw)


def mk_hmc(diag=True, has_ass=False, has_da=False, has_mma=False, mma_mode=0, id_='hmc', window=None):
    """window (start, end): the three adaptors get the finite windows [start, end], [start+1, end+1], [start+2, end+2]"""
    integ = mk_leapfrog()
    mass = _mass(diag)
    params = _params()
    adaptors = []
    if has_ass:
        adaptors.append(mk_adaptive(integ, window=window))
    if has_da:
        adaptors.append(DualAveragingStepSize('dass', integ, mu=0.5, delta=0.8, **_window(window, 1)))
    if has_mma:
        adaptors.append(MassMatrixAdaptor('mma', params, mass, True,
                                          **dict({'variance_window': 1} if mma_mode == 1 else
                                                 {'swap_every': 5} if mma_mode == 2 else {}, **_window(window, 2))))
    return HMCOperator(id_, None, params, integ, mass, 1.0, 0.8, adaptors, acceptance_window_length=3)


def mk_mcmc(with_hmc=False, **hmc_kw):
    ops = [mk_scaler('op_scaler'), mk_sliding('op_sliding'), mk_dirichlet('op_dirichlet'), mk_gmrf_op('op_gmrf')]
    if with_hmc:
        ops.append(mk_hmc(id_='op_hmc', **hmc_kw))
    return MCMC('mcmc', None, ops, 100, checkpoint=None)


ALGOS = ('SGD', 'Adam', 'Adagrad', 'RMSprop', 'AdamW')  # SGD with momentum, AdamW with amsgrad
SCHEDS = ('none', 'StepLR', 'MultiStepLR', 'ExponentialLR', 'LambdaLR', 'CosineAnnealingLR')


def mk_optimizer(algo=0, sched=0, warm=0, conv=False):
    """Real torch optimiser over two torchtree Parameters (float64 [2] and float32 [1]); `warm` concrete
    optimisation steps populate the per-parameter state (moments, step counts)."""
    # the selectors may be symbolic: branch on them here (forks the path), then build with concrete values
    sched_c = 0 if sched == 0 else 1 if sched == 1 else 2 if sched == 2 else 3 if sched == 3 else 4 if sched == 4 else 5
    warm_c = 0 if warm == 0 else 1 if warm == 1 else 2
    conv_c = True if conv else False
    with untraced():
        return _mk_optimizer(algo, sched_c, warm_c, conv_c)


def _mk_optimizer(algo, sched, warm, conv):
    p1 = Parameter('q1', torch.tensor([1.0, 2.0], dtype=torch.float64, requires_grad=True))
    p2 = Parameter('q2', torch.tensor([0.5], dtype=torch.float32, requires_grad=True))
    # two param groups, the second with its own learning rate (the form Optimizer.from_json builds for
    # "parameters": [{"params": [...]}, {"params": [...], "lr": ...}])
    ts = [{'params': [p1.tensor]}, {'params': [p2.tensor], 'lr': 0.05}]
    if algo == 0:
        o = torch.optim.SGD(ts, lr=0.1, momentum=0.9)
    elif algo == 1:
        o = torch.optim.Adam(ts, lr=0.1)
    elif algo == 2:
        o = torch.optim.Adagrad(ts, lr=0.1)
    elif algo == 3:
        o = torch.optim.RMSprop(ts, lr=0.1, momentum=0.5)
    else:
        o = torch.optim.AdamW(ts, lr=0.1, amsgrad=True)
    s = None
    L = torch.optim.lr_scheduler
    if sched == 1:
        s = Scheduler(L.StepLR(o, step_size=2, gamma=0.5))
    elif sched == 2:
        s = Scheduler(L.MultiStepLR(o, milestones=[2, 5], gamma=0.5))
    elif sched == 3:
        s = Scheduler(L.ExponentialLR(o, gamma=0.9))
    elif sched == 4:
        s = Scheduler(L.LambdaLR(o, lr_lambda=_lr_lambda))
    elif sched == 5:
        s = Scheduler(L.CosineAnnealingLR(o, T_max=10))
    kw = {'scheduler': s}
    if conv:
        with contextlib.redirect_stdout(io.StringIO()):  # the constructor prints a table header
            kw['convergence'] = StanVariationalConvergence(None, 1, torch.Size([1]), 100)
    opt = Optimizer('opt', [p1, p2], None, o, 100, **kw)
    for _ in range(warm):
        o.zero_grad()
        ((p1.tensor ** 2).sum() + (p2.tensor.double() ** 2).sum()).backward()
        o.step()
        if s is not None:
            s.step()
    return opt


def _lr_lambda(epoch):
    return 0.9 ** epoch


# ------------------------------------------------------------------------------ state views (what must survive)
def _base_items(op, cls):
    return [(cls, '_adapt_count', op, '_adapt_count'), (cls, '_accept', op, '_accept'),
            (cls, '_reject', op, '_reject'), (cls, '_accept_window', op, '_accept_window')]


def view(obj):
    """[(responsible class name, relative path, owner object, attribute)] - the run state of obj."""
    cls = type(obj).__name__
    if isinstance(obj, HMCOperator):
        items = _base_items(obj, cls)
        items.append((cls, '_mass_matrix.tensor', obj._mass_matrix, 'tensor'))
        items.append((cls, 'inverse_mass_matrix', obj, 'inverse_mass_matrix'))
        items += view(obj._integrator)
        for ad in obj._adaptors:
            items += view(ad)
        return items
    if isinstance(obj, (ScalerOperator, DirichletOperator, GMRFPiecewiseCoalescentBlockUpdatingOperator)):
        return _base_items(obj, cls) + [(cls, '_scaler', obj, '_scaler')]
    if isinstance(obj, SlidingWindowOperator):
        return _base_items(obj, cls) + [(cls, '_width', obj, '_width')]
    if isinstance(obj, LeapfrogIntegrator):
        return [(cls, 'step_size', obj, 'step_size'), (cls, 'steps', obj, 'steps')]
    if isinstance(obj, AdaptiveStepSize):
        return [(cls, '_call_counter', obj, '_call_counter'), (cls, '_accepted', obj, '_accepted')]
    if isinstance(obj, DualAveragingStepSize):
        d = obj._dual_avg
        return [(cls, '_call_counter', obj, '_call_counter'), (cls, '_dual_avg._counter', d, '_counter'),
                (cls, '_dual_avg.x', d, 'x'), (cls, '_dual_avg.x_bar', d, 'x_bar'),
                (cls, '_dual_avg.s_bar', d, 's_bar')]
    if isinstance(obj, MassMatrixAdaptor):
        e = obj.variance_estimator
        items = [(cls, '_call_counter', obj, '_call_counter'), (cls, 'variance_estimator.samples', e, 'samples'),
                 (cls, 'variance_estimator._mean', e, '_mean'), (cls, 'variance_estimator._variance', e, '_variance'),
                 (cls, '_values', obj, '_values'), (cls, 'variance_estimator2', obj, 'variance_estimator2')]
        return items
    if isinstance(obj, MCMC):
        items = [(cls, '_epoch', obj, '_epoch')]
        for op in obj._operators:
            items += view(op)
        return items
    raise TypeError(cls)


# attributes that are fixed by the constructor arguments / configuration (identical in A and B by construction)
# or transient within one iteration; everything else found in vars(obj) must be covered by `view`.
CTOR = {
    'MCMCOperator': {'_id', 'parameters', 'weight', 'target_acceptance_probability', '_disable_adaptation',
                     '_accept_window_length', 'saved_tensors'},
    'GMRFPiecewiseCoalescentBlockUpdatingOperator': {'gmrf', 'coalescent', '_stop_value', '_max_iterations'},
    'HMCOperator': {'_hamiltonian', '_divergence_threshold', '_integrator', '_adaptors', '_mass_matrix'},
    'LeapfrogIntegrator': {'_id'},
    'AdaptiveStepSize': {'_id', '_integrator', 'target_acceptance_probability', '_start', '_end', '_acceptance_rate'},
    'DualAveragingStepSize': {'_id', 'integrator', '_delta', '_start', '_end', '_dual_avg'},
    'DualAveraging': {'_mu', '_gamma', '_kappa', '_t0'},
    'MassMatrixAdaptor': {'_id', '_mass_matrix', '_parameters', '_diagonal', '_regularize', '_start', '_end',
                          '_frequency', '_restart_frequency', '_variance_window', '_swap_every',
                          'variance_estimator'},
    'WelfordVariance': set(),
    'MCMC': {'_id', '_operators', 'joint', 'iterations', 'loggers', 'checkpoint', 'checkpoint_frequency', 'every',
             'parameters'},
    'Optimizer': {'_id', 'parameters', 'loss', 'iterations', 'loggers', 'maximize', 'checkpoint',
                  'checkpoint_frequency', 'checkpoint_all', 'distributions'},
}
STATE_TOP = {
    'MCMCOperator': {'_adapt_count', '_accept', '_reject', '_accept_window'},
    'ScalerOperator': {'_scaler'}, 'DirichletOperator': {'_scaler'},
    'GMRFPiecewiseCoalescentBlockUpdatingOperator': {'_scaler'}, 'SlidingWindowOperator': {'_width'},
    'HMCOperator': {'inverse_mass_matrix'},
    'LeapfrogIntegrator': {'step_size', 'steps'},
    'AdaptiveStepSize': {'_call_counter', '_accepted'},
    'DualAveragingStepSize': {'_call_counter'},
    'DualAveraging': {'_counter', 'x', 'x_bar', 's_bar'},
    'MassMatrixAdaptor': {'_call_counter', '_values', 'variance_estimator2'},
    'WelfordVariance': {'_mean', '_variance', 'samples'},
    'MCMC': {'_epoch'},
    'Optimizer': {'_epoch', 'optimizer', 'scheduler', 'convergence'},
}


def unclassified_fields(obj):
    """Attributes of obj (and the helper objects it owns) that are neither listed as constructor-determined
    nor covered by the state view.  Non-empty => the harness does not know whether the field matters."""
    out = []
    seen = set()

    def one(o):
        if id(o) in seen:
            return
        seen.add(id(o))
        names = set(vars(o))
        known = set()
        for k in type(o).__mro__:
            known |= CTOR.get(k.__name__, set()) | STATE_TOP.get(k.__name__, set())
        for n in sorted(names - known):
            out.append(f'{type(o).__name__}.{n}')
        for n in names:
            v = getattr(o, n)
            if isinstance(v, (DualAveraging, WelfordVariance, LeapfrogIntegrator, AdaptiveStepSize,
                              DualAveragingStepSize, MassMatrixAdaptor, MCMCOperator)):
                one(v)
            elif isinstance(v, list):
                for w in v:
                    if isinstance(w, (AdaptiveStepSize, DualAveragingStepSize, MassMatrixAdaptor, MCMCOperator)):
                        one(w)

    one(obj)
    return out


# ------------------------------------------------------------------------------------------- state injection
def set_operator_base(op, adapt, acc, rej, w0, w1, w2, nw):
    op._adapt_count = adapt
    op._accept = acc
    op._reject = rej
    ws = [w0, w1, w2]
    for i in range(3):
        if i < nw:
            op._accept_window.append(ws[i])


def set_dual(ad, cc, cnt, xkind, x, xb, sb):
    ad._call_counter = cc
    ad._dual_avg._counter = cnt
    if xkind == 1:  # python floats
        ad._dual_avg.x = x
        ad._dual_avg.x_bar = xb
        ad._dual_avg.s_bar = sb
    elif xkind == 2:  # 0-dim tensors: what DualAveraging.step produces from a tensor acceptance probability
        ad._dual_avg.x = torch.tensor(-1.25, dtype=torch.float64)
        ad._dual_avg.x_bar = torch.tensor(-0.5, dtype=torch.float64)
        ad._dual_avg.s_bar = torch.tensor(0.125, dtype=torch.float64)
    # xkind == 0: untouched since construction (x None, x_bar 0, s_bar 0)


def set_mma(ad, cc, samples, nvals, samples2):
    ad._call_counter = cc
    e = ad.variance_estimator
    e.samples = samples
    e._mean = torch.tensor([0.5, 1.5, 2.5], dtype=e._mean.dtype)
    e._variance = (torch.tensor([0.25, 0.5, 0.75], dtype=e._variance.dtype) if e._variance.dim() == 1
                   else torch.tensor([[2.0, 0.1, 0.0], [0.1, 3.0, 0.2], [0.0, 0.2, 4.0]], dtype=e._variance.dtype))
    if ad._variance_window != 0:
        for i in range(2):
            if i < nvals:
                ad._values.append(torch.tensor([1.0 + i, 2.0, 0.5]))
    if ad.variance_estimator2 is not None:
        e2 = ad.variance_estimator2
        e2.samples = samples2
        e2._mean = torch.tensor([0.25, 0.5, 0.75], dtype=e2._mean.dtype)


def set_mass(op, diag):
    op._mass_matrix.tensor = (torch.tensor([2.0, 4.0, 8.0]) if diag
                              else torch.tensor([[2.0, 0.5, 0.0], [0.5, 4.0, 0.0], [0.0, 0.0, 8.0]]))


# ------------------------------------------------------------------------------------------------ round trip
def _sig_field(cls, path, why=''):
    if why.endswith('int-keys-become-str'):
        return f'{cls}.load_state_dict:{path}-int-keys-become-str'
    return f'{cls}.load_state_dict:{path}-not-restored'


def _class_by_id(obj):
    m = {}

    def one(o):
        i = getattr(o, 'id', None)
        if i is not None:
            m[i] = type(o).__name__
        for n in ('_operators', '_adaptors'):
            for c in getattr(o, n, ()) or ():
                one(c)
        for n in ('_integrator', 'integrator'):
            c = getattr(o, n, None)
            if c is not None and getattr(c, 'id', None) not in m:
                one(c)

    one(obj)
    return m


def _raiser_class(exc, default):
    """class of the innermost object whose (_)load_state_dict frame is on the traceback of exc"""
    tb = exc.__traceback__
    who = default
    while tb is not None:
        if tb.tb_frame.f_code.co_name in ('load_state_dict', '_load_state_dict'):
            slf = tb.tb_frame.f_locals.get('self')
            if slf is not None:
                who = type(slf).__name__
        tb = tb.tb_next
    return who


TOLERANT = [True]  # model codec only; switched off by the sanity pass to compare the model with real json


def roundtrip(a, b, real, skip, first, extra_items=None):
    """state_dict -> JSON -> load_state_dict on the fresh twin b, then compare.  Returns list of signatures
    (only the first one not in `skip` when `first`).  real: real json module, else the model; with
    TOLERANT (model only) absent keys are recorded instead of raising KeyError."""
    top = type(a).__name__
    probs = []

    def add(sig):
        if sig in skip or sig in probs:
            return False
        probs.append(sig)
        return first

    try:
        sd = a.state_dict()
    except Exception as e:
        add(f'{top}.state_dict:raises-{type(e).__name__}')
        return probs
    log = [] if (TOLERANT[0] and not real) else None
    try:
        back = checkpoint_real(sd) if real else checkpoint_model(sd, log)
    except NotSerialisable as e:
        add(f'{top}.state_dict:not-JSON-serialisable-{e.typename}')
        return probs
    exc = None
    try:
        b.load_state_dict(back)
    except Exception as e:
        exc = e
    if log:
        ids = _class_by_id(a)
        for owner_id, key in log:
            if add(f'{ids.get(owner_id, top)}.load_state_dict:KeyError-{key}'):
                return probs
    if exc is not None:
        if isinstance(exc, KeyError) and len(exc.args) == 1 and isinstance(exc.args[0], str):
            if add(f'{_raiser_class(exc, top)}.load_state_dict:KeyError-{exc.args[0]}'):
                return probs
        elif not log:  # with recorded missing keys a later exception may be an artefact of the MISSING sentinel
            if add(f'{_raiser_class(exc, top)}.load_state_dict:raises-{type(exc).__name__}'):
                return probs
    ia = view(a) if extra_items is None else extra_items(a)
    ib = view(b) if extra_items is None else extra_items(b)
    if len(ia) != len(ib):
        add(f'{top}.load_state_dict:state-structure-differs')
        return probs
    for (cls, path, oa, na), (_, _, ob, nb) in zip(ia, ib):
        va, vb = getattr(oa, na), getattr(ob, nb)
        d = diff(va, vb, path)
        if d:
            if add(_sig_field(cls, path, d)):
                return probs
            try:  # heal, so that the state_dict comparison below only reports what the fields do not explain
                setattr(ob, nb, va)
            except Exception:
                pass
    try:
        sa = checkpoint_real(a.state_dict()) if real else checkpoint_model(a.state_dict())
        sb = checkpoint_real(b.state_dict()) if real else checkpoint_model(b.state_dict())
    except Exception as e:
        add(f'{top}.state_dict:raises-after-reload-{type(e).__name__}')
        return probs
    d = diff(sa, sb, 'sd')
    if d:
        add(f'{top}.state_dict:differs-after-reload-{d}')
    return probs


# ------------------------------------------------------------------------------------------------- the cases
def _optimizer_items(o):
    items = [('Optimizer', '_epoch', o, '_epoch')]
    to = o.optimizer
    holder = _Holder()
    index = {}
    k = 0
    for group in to.param_groups:
        for p in group['params']:
            index[id(p)] = k
            k += 1
    # how the per-parameter state is keyed: parameter tensors are shown by their position, anything else raw
    holder.keymap = {(index[id(kk)] if isinstance(kk, torch.Tensor) and id(kk) in index else kk): True
                     for kk in to.state.keys()}
    items.append(('Optimizer', 'optimizer.state', holder, 'keymap'))
    k = 0
    for g, group in enumerate(to.param_groups):
        for p in group['params']:
            # content of the state of parameter k, wherever load_state_dict filed it
            st = to.state[p] if p in to.state else to.state[str(k)] if str(k) in to.state else None
            setattr(holder, f's{k}', dict(st) if st is not None else None)
            items.append(('Optimizer', f'optimizer.state[param{k}]', holder, f's{k}'))
            k += 1
        setattr(holder, f'g{g}', {kk: vv for kk, vv in group.items() if kk != 'params'})
        items.append(('Optimizer', f'optimizer.param_groups[{g}]', holder, f'g{g}'))
    if o.scheduler is not None:
        sch = o.scheduler.scheduler
        name = type(sch).__name__
        for kk in sorted(vars(sch)):
            if kk == 'optimizer':
                continue
            items.append((f'Scheduler[{name}]', kk, _DictAttr(vars(sch)), kk))
    if o.convergence is not None:
        holder.conv = {kk: vv for kk, vv in vars(o.convergence).items() if kk not in ('loss', 'f')}
        items.append(('Optimizer', 'convergence', holder, 'conv'))
    return items


class _Holder:
    pass


class _DictAttr:
    def __init__(self, d):
        object.__setattr__(self, '_d', d)

    def __getattr__(self, k):
        return object.__getattribute__(self, '_d')[k]

    def __setattr__(self, k, v):
        object.__getattribute__(self, '_d')[k] = v


def case_operator(kind, args, real=False, skip=(), first=True):
    adapt, acc, rej, tune, w0, w1, w2, nw = args
    mk = {'ScalerOperator': mk_scaler, 'SlidingWindowOperator': mk_sliding, 'DirichletOperator': mk_dirichlet,
          'GMRFPiecewiseCoalescentBlockUpdatingOperator': mk_gmrf_op}[kind]
    a, b = mk(), mk()
    set_operator_base(a, adapt, acc, rej, w0, w1, w2, nw)
    if kind == 'SlidingWindowOperator':
        a._width = tune
    else:
        a._scaler = tune
    return roundtrip(a, b, real, skip, first)


def case_leapfrog(args, real=False, skip=(), first=True):
    steps, step_size = args
    a, b = mk_leapfrog(), mk_leapfrog()
    a.steps = steps
    a.step_size = step_size
    return roundtrip(a, b, real, skip, first)


def _win(finite, ws, we):
    return (ws, we) if finite else None


def _owned_first(items_of, owner_items):
    """state view of an adaptor + what its owner (the HMC operator) restores BEFORE the adaptor is loaded: the
    adaptor's load_state_dict must leave that alone"""
    return lambda o: view(o) + owner_items(o)


def case_adaptive(args, real=False, skip=(), first=True):
    """window: defaults (open ended) or a finite [ws, we] with symbolic bounds, so that the counter lies before,
    inside or after it; the integrator both objects share with their owner already holds the restored step size"""
    cc, accepted, use_rate, finite, ws, we = args
    w = _win(finite, ws, we)
    a, b = mk_adaptive(use_rate=use_rate, window=w), mk_adaptive(use_rate=use_rate, window=w)
    a._call_counter = cc
    a._accepted = accepted
    a._integrator.step_size = b._integrator.step_size = 0.375
    return roundtrip(a, b, real, skip, first, extra_items=_owned_first(view, lambda o: [
        ('AdaptiveStepSize', 'integrator.step_size[restored-by-owner]', o._integrator, 'step_size')]))


def case_dual(args, real=False, skip=(), first=True):
    cc, cnt, xkind, f, finite, ws, we = args
    w = _win(finite, ws, we)
    a, b = mk_dual(window=w), mk_dual(window=w)
    # one symbolic float, three distinct values (a swap of two fields is visible for every finite f)
    set_dual(a, cc, cnt, xkind, f, f + 1.0, f + 2.0)
    a.integrator.step_size = b.integrator.step_size = 0.375
    return roundtrip(a, b, real, skip, first, extra_items=_owned_first(view, lambda o: [
        ('DualAveragingStepSize', 'integrator.step_size[restored-by-owner]', o.integrator, 'step_size')]))


def case_mma(args, real=False, skip=(), first=True):
    cc, samples, diag, mode, nvals, samples2, finite, ws, we = args
    w = _win(finite, ws, we)
    a, b = mk_mma(diag=diag, mode=mode, window=w), mk_mma(diag=diag, mode=mode, window=w)
    set_mma(a, cc, samples, nvals, samples2)
    set_mass(a, diag)
    set_mass(b, diag)
    return roundtrip(a, b, real, skip, first, extra_items=_owned_first(view, lambda o: [
        ('MassMatrixAdaptor', 'mass_matrix.tensor[restored-by-owner]', o._mass_matrix, 'tensor')]))


def _inject_hmc(a, diag, adapt, acc, rej, w0, nw, steps, snum, cc1, accd, cc2, cnt, cc3, samples):
    set_operator_base(a, adapt, acc, rej, w0, 1, 0, nw)
    set_mass(a, diag)
    a._integrator.steps = steps
    a._integrator.step_size = snum * 0.125  # finite symbolic float (the full float domain: LeapfrogIntegrator case)
    for ad in a._adaptors:
        if isinstance(ad, AdaptiveStepSize):
            ad._call_counter = cc1
            ad._accepted = accd
        elif isinstance(ad, DualAveragingStepSize):
            set_dual(ad, cc2, cnt, 2, None, None, None)
        else:
            set_mma(ad, cc3, samples, 0, 0)


def case_hmc(diag, args, real=False, skip=(), first=True):
    """HMCOperator with every subset of {AdaptiveStepSize, DualAveragingStepSize, MassMatrixAdaptor} and a
    diagonal or dense mass matrix (the adaptors' own configuration space is covered by their own cases)."""
    (has_ass, has_da, has_mma, *rest, finite, ws, we) = args
    kw = dict(diag=diag, has_ass=has_ass, has_da=has_da, has_mma=has_mma, mma_mode=0, window=_win(finite, ws, we))
    a, b = mk_hmc(**kw), mk_hmc(**kw)
    _inject_hmc(a, diag, *rest)
    return roundtrip(a, b, real, skip, first)


def case_mcmc(args, real=False, skip=(), first=True):
    """MCMC over Scaler + SlidingWindow + Dirichlet + GMRF block operators, optionally plus an HMC operator
    carrying all three adaptors."""
    (epoch, with_hmc, tnum, adapt, acc, rej, w0, w1, w2, nw, steps, snum, cc1, accd, cc2, cnt, cc3, samples, finite, ws,
     we) = args
    kw = dict(diag=True, has_ass=True, has_da=True, has_mma=True, mma_mode=0, window=_win(finite, ws, we))
    a, b = mk_mcmc(with_hmc, **kw), mk_mcmc(with_hmc, **kw)
    a._epoch = epoch
    k = 0
    for op in a._operators[:4]:
        set_operator_base(op, adapt + k, acc + k, rej + k, w0, w1, w2, nw)
        t = tnum * 0.125 + k
        if isinstance(op, SlidingWindowOperator):
            op._width = t
        else:
            op._scaler = t
        k += 1
    if with_hmc:
        _inject_hmc(a._operators[4], True, adapt + 4, acc + 4, rej + 4, w0, 1, steps, snum, cc1, accd, cc2, cnt, cc3,
                    samples)
    return roundtrip(a, b, real, skip, first)


def _untraced_torch_load():
    """torch.optim.Optimizer.load_state_dict (torch's own code, not torchtree's) keys dicts by tensors; CrossHair's
    symbolic-aware dict/set compare keys with ==, which is ambiguous for tensors.  It is therefore executed with
    the opcode tracer switched off; everything handed to it is concrete (torchtree's Optimizer.load_state_dict,
    which prepares that argument, stays traced)."""
    orig = torch.optim.Optimizer.load_state_dict
    if getattr(orig, '_c17_untraced', False):
        return

    def load_state_dict(self, state_dict):
        with untraced():
            return orig(self, state_dict)

    load_state_dict._c17_untraced = True
    torch.optim.Optimizer.load_state_dict = load_state_dict


_untraced_torch_load()


def case_optimizer(algo, args, real=False, skip=(), first=True):
    epoch, sched, warm, conv, f, last_epoch, step_count = args
    a, b = mk_optimizer(algo, sched, warm, conv), mk_optimizer(algo, sched, 0, conv)
    a._epoch = epoch
    # concrete (read by torch's own load_state_dict, untraced): EVERY numeric hyper-parameter of every param group has
    # moved away from the specification, as schedulers (lr; OneCycleLR / CyclicLR also momentum / betas) make them
    with untraced():
        _perturb_groups(a.optimizer)
    if a.scheduler is not None:
        a.scheduler.scheduler.last_epoch = last_epoch
        a.scheduler.scheduler._step_count = step_count
        a.scheduler.scheduler._last_lr = [f, 0.25]  # symbolic float in the scheduler state
    if a.convergence is not None:
        a.convergence.elbo = f + 1.0
        a.convergence.elbo_diff.append(0.125)
    return roundtrip(a, b, real, skip, first, extra_items=_optimizer_items)


def _perturb_groups(o):
    for gi, g in enumerate(o.param_groups):
        for k, v in list(g.items()):
            if k == 'params' or isinstance(v, bool) or v is None:
                continue
            if k == 'lr':
                g[k] = 0.046875 + 0.015625 * gi
            elif isinstance(v, (int, float)):
                g[k] = float(v) * 0.5 + 0.015625 * (gi + 1)
            elif isinstance(v, tuple) and all(isinstance(x, float) for x in v):
                g[k] = tuple(x * 0.5 + 0.015625 * (gi + 1) for x in v)


# ---- tensor / parameter codec --------------------------------------------------------------------------------
DTYPES = (torch.float64, torch.float32, torch.int64, torch.bool)


def _payload(dtype, ndim, n):
    # explicit branches on n: slicing a tensor with a symbolic int would realise it at the C boundary
    if ndim == 0:
        base = torch.tensor(1.5)
    elif ndim == 1:
        base = (torch.tensor([]) if n == 0 else torch.tensor([0.1]) if n == 1 else torch.tensor([0.1, 1.5])
                if n == 2 else torch.tensor([0.1, 1.5, -2.25]))
    else:
        base = (torch.zeros([2, 0]) if n == 0 else torch.tensor([[0.1], [3.0]]) if n == 1
                else torch.tensor([[0.1, 1.5], [3.0, 0.0]]) if n == 2
                else torch.tensor([[0.1, 1.5, -2.25], [3.0, 0.0, 1e-30]]))
    if dtype == torch.bool:
        return base > 1.0
    return base.to(dtype)


def case_tensor(args, real=False, skip=(), first=True):
    """TensorEncoder.default -> JSON -> TensorDecoder.object_hook on a bare tensor."""
    dt, ndim, n, nn = args
    if nn and dt >= 2:
        return []  # torch.nn.Parameter only wraps floating point tensors
    dtype = DTYPES[0] if dt == 0 else DTYPES[1] if dt == 1 else DTYPES[2] if dt == 2 else DTYPES[3]
    t = _payload(dtype, ndim, n)
    if nn:
        t = torch.nn.Parameter(t)
    probs = []
    try:
        back = checkpoint_real({'v': t}) if real else checkpoint_model({'v': t})
    except NotSerialisable as e:
        return [f'TensorEncoder.default:not-JSON-serialisable-{e.typename}']
    except Exception as e:
        return [f'TensorDecoder.object_hook:raises-{type(e).__name__}']
    d = diff(t, back['v'], 'tensor')
    if d:
        sig = 'TensorDecoder.object_hook:' + d.split(':')[-1] + '-not-restored'
        if sig not in skip:
            probs.append(sig)
    return probs


SPEC_KINDS = ('tensor', 'full', 'zeros', 'ones', 'zeros_like', 'ones_like', 'full_like', 'eye', 'tensor+dimension',
              'scalar tensor', 'integer tensor')


def _spec(kind, spec_dtype, nn, like_f32):
    like = {'id': 'like', 'type': 'Parameter', 'tensor': [1.0, 2.0, 3.0],
            'dtype': 'torch.float32' if like_f32 else 'torch.float64'}
    s = {'id': 'p', 'type': 'Parameter'}
    if kind == 0:
        s['tensor'] = [0.25, 0.5, 0.75]
    elif kind == 1:
        s['full'] = [3]
        s['tensor'] = 0.25
    elif kind == 2:
        s['zeros'] = [3]
    elif kind == 3:
        s['ones'] = [3]
    elif kind == 4:
        s['zeros_like'] = like
    elif kind == 5:
        s['ones_like'] = like
    elif kind == 6:
        s['full_like'] = like
        s['tensor'] = 0.25
    elif kind == 7:
        s['eye'] = 3
    elif kind == 8:
        s['tensor'] = [0.25, 0.5]
        s['dimension'] = 3
    elif kind == 9:
        s['tensor'] = 0.25
    else:
        s['tensor'] = [1, 2, 3]
    if spec_dtype == 1:
        s['dtype'] = 'torch.float32'
    elif spec_dtype == 2:
        s['dtype'] = 'torch.float64'
    if nn:
        s['nn'] = True
    return s


def case_parameter(args, real=False, skip=(), first=True):
    """A Parameter built from its specification, changed by the run (new values), saved with
    ParameterEncoder, read back with TensorDecoder, re-injected with update_parameters into the same
    specification and rebuilt with Parameter.from_json under the same default dtype (torchtree.main)."""
    kind, spec_dtype, nn, like_f32, default_f32 = args
    if nn and kind == 10 and spec_dtype == 0:
        return []  # torch.nn.Parameter only wraps floating point tensors
    old = torch.get_default_dtype()
    torch.set_default_dtype(torch.float32 if default_f32 else torch.float64)
    probs = []

    def add(sig):
        if sig not in skip and sig not in probs:
            probs.append(sig)

    try:
        spec = _spec(kind, spec_dtype, nn, like_f32)
        p = Parameter.from_json(_copy_spec(spec), {})
        with torch.no_grad():
            new = (p.tensor.detach() * 0.5 + 0.125).to(p.tensor.dtype)
        p.tensor = torch.nn.Parameter(new) if isinstance(p.tensor, torch.nn.Parameter) else new
        ckpt = [{'id': 'algo', 'type': 'MCMC', 'iteration': 3}, p]
        try:
            back = checkpoint_real(ckpt) if real else checkpoint_model(ckpt)
        except NotSerialisable as e:
            return [f'ParameterEncoder.default:not-JSON-serialisable-{e.typename}']
        tensors = {}
        for entry in back:
            if entry['type'] in ('torchtree.Parameter', 'Parameter'):
                tensors[entry['id']] = entry
        if 'p' not in tensors:
            add('ParameterEncoder.default:parameter-not-recognised-on-restart')
            return probs
        data = [_copy_spec(spec)]
        update_parameters(data, tensors)
        try:
            q = Parameter.from_json(data[0], {})
        except Exception as e:
            add(f'update_parameters:restart-raises-{type(e).__name__}')
            return probs
        d = diff(p.tensor, q.tensor, 'tensor')
        if d:
            add('update_parameters:' + d.split(':')[-1] + '-not-restored')
    finally:
        torch.set_default_dtype(old)
    return probs


def _copy_spec(s):
    return {k: (_copy_spec(v) if isinstance(v, dict) else list(v) if isinstance(v, list) else v) for k, v in s.items()}


CASES = {
    'ScalerOperator': lambda *a, **k: case_operator('ScalerOperator', *a, **k),
    'SlidingWindowOperator': lambda *a, **k: case_operator('SlidingWindowOperator', *a, **k),
    'DirichletOperator': lambda *a, **k: case_operator('DirichletOperator', *a, **k),
    'GMRFPiecewiseCoalescentBlockUpdatingOperator':
        lambda *a, **k: case_operator('GMRFPiecewiseCoalescentBlockUpdatingOperator', *a, **k),
    'LeapfrogIntegrator': case_leapfrog,
    'AdaptiveStepSize': case_adaptive,
    'DualAveragingStepSize': case_dual,
    'MassMatrixAdaptor': case_mma,
    'HMCOperator[diag]': lambda *a, **k: case_hmc(True, *a, **k),
    'HMCOperator[dense]': lambda *a, **k: case_hmc(False, *a, **k),
    'MCMC': case_mcmc,
    'Tensor': case_tensor,
    'Parameter': case_parameter,
}


def _opt_case(algo):
    return lambda *a, **k: case_optimizer(algo, *a, **k)


for _i, _n in enumerate(ALGOS):
    CASES[f'Optimizer[{_n}]'] = _opt_case(_i)
CASES['Optimizer[Adam,quick]'] = _opt_case(1)  # quick-tier slice (no scheduler / StepLR / LambdaLR, 2 warm-up steps)


def first_problem(case, args):
    """What the harness functions return under CrossHair: '' or the first problem not yet reported."""
    p = CASES[case](tuple(args), real=False, skip=skip_set(), first=True)
    return p[0] if p else ''


def reached(case, args):
    CASES[case](tuple(args), real=False, skip=skip_set(), first=True)
    return 'reached'


def concrete_problems(case, args):
    """All problems of one concrete round trip through the real json module (plain dicts)."""
    return CASES[case](tuple(args), real=True, skip=(), first=False)


def model_problems(case, args, tolerant=True):
    TOLERANT[0] = tolerant
    try:
        return CASES[case](tuple(args), real=False, skip=(), first=False)
    finally:
        TOLERANT[0] = True
