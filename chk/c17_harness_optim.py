"""C17 CrossHair harness, part 2 (thorough tier; OptimizerQ = the quick-tier slice of Optimizer[Adam]): torchtree
Optimizer over real torch optimisers and schedulers, and the tensor / parameter codec.  Same conventions as
chk/c17_harness.py.

Importing this module runs every torch optimiser once: torch imports parts of itself lazily on the first
optimiser step (creating a cache directory), which CrossHair would flag as a side effect during analysis.
"""
from chk import c17_model as M

for _algo in range(len(M.ALGOS)):
    M.mk_optimizer(_algo, 1, 1, False)


def Optimizer_SGD_rt(epoch: int, sched: int, warm: int, conv: bool, f: float, last_epoch: int,
                                step_count: int) -> str:
    """
    pre: 0 <= sched <= 5 and 0 <= warm <= 2 and (not conv or (sched == 0 and warm == 2))
    post: __return__ == ''
    """
    return M.first_problem('Optimizer[SGD]', (epoch, sched, warm, conv, f, last_epoch, step_count))


def Optimizer_SGD_twin(epoch: int, sched: int, warm: int, conv: bool, f: float, last_epoch: int,
                                step_count: int) -> str:
    """
    pre: 0 <= sched <= 5 and 0 <= warm <= 2 and (not conv or (sched == 0 and warm == 2))
    post: __return__ != 'reached'
    """
    return M.reached('Optimizer[SGD]', (epoch, sched, warm, conv, f, last_epoch, step_count))


def Optimizer_Adam_rt(epoch: int, sched: int, warm: int, conv: bool, f: float, last_epoch: int,
                                step_count: int) -> str:
    """
    pre: 0 <= sched <= 5 and 0 <= warm <= 2 and (not conv or (sched == 0 and warm == 2))
    post: __return__ == ''
    """
    return M.first_problem('Optimizer[Adam]', (epoch, sched, warm, conv, f, last_epoch, step_count))


def Optimizer_Adam_twin(epoch: int, sched: int, warm: int, conv: bool, f: float, last_epoch: int,
                                step_count: int) -> str:
    """
    pre: 0 <= sched <= 5 and 0 <= warm <= 2 and (not conv or (sched == 0 and warm == 2))
    post: __return__ != 'reached'
    """
    return M.reached('Optimizer[Adam]', (epoch, sched, warm, conv, f, last_epoch, step_count))


def Optimizer_Adagrad_rt(epoch: int, sched: int, warm: int, conv: bool, f: float, last_epoch: int,
                                step_count: int) -> str:
    """
    pre: 0 <= sched <= 5 and 0 <= warm <= 2 and (not conv or (sched == 0 and warm == 2))
    post: __return__ == ''
    """
    return M.first_problem('Optimizer[Adagrad]', (epoch, sched, warm, conv, f, last_epoch, step_count))


def Optimizer_Adagrad_twin(epoch: int, sched: int, warm: int, conv: bool, f: float, last_epoch: int,
                                step_count: int) -> str:
    """
    pre: 0 <= sched <= 5 and 0 <= warm <= 2 and (not conv or (sched == 0 and warm == 2))
    post: __return__ != 'reached'
    """
    return M.reached('Optimizer[Adagrad]', (epoch, sched, warm, conv, f, last_epoch, step_count))


def Optimizer_RMSprop_rt(epoch: int, sched: int, warm: int, conv: bool, f: float, last_epoch: int,
                                step_count: int) -> str:
    """
    pre: 0 <= sched <= 5 and 0 <= warm <= 2 and (not conv or (sched == 0 and warm == 2))
    post: __return__ == ''
    """
    return M.first_problem('Optimizer[RMSprop]', (epoch, sched, warm, conv, f, last_epoch, step_count))


def Optimizer_RMSprop_twin(epoch: int, sched: int, warm: int, conv: bool, f: float, last_epoch: int,
                                step_count: int) -> str:
    """
    pre: 0 <= sched <= 5 and 0 <= warm <= 2 and (not conv or (sched == 0 and warm == 2))
    post: __return__ != 'reached'
    """
    return M.reached('Optimizer[RMSprop]', (epoch, sched, warm, conv, f, last_epoch, step_count))


def Optimizer_AdamW_rt(epoch: int, sched: int, warm: int, conv: bool, f: float, last_epoch: int,
                                step_count: int) -> str:
    """
    pre: 0 <= sched <= 5 and 0 <= warm <= 2 and (not conv or (sched == 0 and warm == 2))
    post: __return__ == ''
    """
    return M.first_problem('Optimizer[AdamW]', (epoch, sched, warm, conv, f, last_epoch, step_count))


def Optimizer_AdamW_twin(epoch: int, sched: int, warm: int, conv: bool, f: float, last_epoch: int,
                                step_count: int) -> str:
    """
    pre: 0 <= sched <= 5 and 0 <= warm <= 2 and (not conv or (sched == 0 and warm == 2))
    post: __return__ != 'reached'
    """
    return M.reached('Optimizer[AdamW]', (epoch, sched, warm, conv, f, last_epoch, step_count))


def OptimizerQ_rt(epoch: int, sched: int, warm: int, conv: bool, f: float, last_epoch: int,
                                step_count: int) -> str:
    """
    pre: (sched == 0 or sched == 1 or sched == 4) and warm == 2 and not conv
    post: __return__ == ''
    """
    return M.first_problem('Optimizer[Adam,quick]', (epoch, sched, warm, conv, f, last_epoch, step_count))


def OptimizerQ_twin(epoch: int, sched: int, warm: int, conv: bool, f: float, last_epoch: int,
                                step_count: int) -> str:
    """
    pre: (sched == 0 or sched == 1 or sched == 4) and warm == 2 and not conv
    post: __return__ != 'reached'
    """
    return M.reached('Optimizer[Adam,quick]', (epoch, sched, warm, conv, f, last_epoch, step_count))


# ------------------------------------------------------------------------------ tensor / parameter codec
def Tensor_rt(dt: int, ndim: int, n: int, nn: bool) -> str:
    """
    pre: 0 <= dt <= 3 and 0 <= ndim <= 2 and 0 <= n <= 3
    post: __return__ == ''
    """
    return M.first_problem('Tensor', (dt, ndim, n, nn))


def Tensor_twin(dt: int, ndim: int, n: int, nn: bool) -> str:
    """
    pre: 0 <= dt <= 3 and 0 <= ndim <= 2 and 0 <= n <= 3
    post: __return__ != 'reached'
    """
    return M.reached('Tensor', (dt, ndim, n, nn))


def Parameter_rt(kind: int, spec_dtype: int, nn: bool, like_f32: bool, default_f32: bool) -> str:
    """
    pre: 0 <= kind <= 10 and 0 <= spec_dtype <= 2
    post: __return__ == ''
    """
    return M.first_problem('Parameter', (kind, spec_dtype, nn, like_f32, default_f32))


def Parameter_twin(kind: int, spec_dtype: int, nn: bool, like_f32: bool, default_f32: bool) -> str:
    """
    pre: 0 <= kind <= 10 and 0 <= spec_dtype <= 2
    post: __return__ != 'reached'
    """
    return M.reached('Parameter', (kind, spec_dtype, nn, like_f32, default_f32))
