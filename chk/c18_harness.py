"""C18 CrossHair harness: PEP316 contracts around one symbolic step of the real save_parameters.

Every function executes `chk.c18_model.step`, i.e. the real
`torchtree.core.parameter_utils.save_parameters` on the modelled file system with
    n0, o0, w0   symbolic pre-state of name / name.old / name.new  (-1 absent, 0..K-1 truncated, K complete)
    crash_at     symbolic index of the file-system operation before which the process dies
    lost         symbolic number of buffered chunks that never reach the disk at the crash
and returns (class(name), class(.old), class(.new), died_mid_write, crashed, ops_done) with
class 0 absent / 1 complete / 2 truncated-or-mixed.

INV (environment C18_INV) is a candidate invariant: a set of class triples (name, .old, .new) that
contains the clean state (1,0,0).  It is *proposed* by the driver (concrete exploration of the model)
and *verified* here by the solver:
    ind   pre-state in INV                          ==> post-state in INV            (INV is inductive)
    c1    pre-state in INV, some file complete      ==> some file complete afterwards (clause 1)
    c2    pre-state in INV, name absent-or-complete ==> name absent-or-complete       (clause 2)
Together with the base case this covers every state reachable from an existing checkpoint by any
number of interrupted or completed writes.  SEL (environment C18_SEL, subset of INV) restricts the
pre-state of one CrossHair run, so that INV is split over several processes / counterexamples.
*_twin: same precondition and body, post that must be REFUTED (by a run that dies in the middle of a
write) - guards against a vacuous precondition / unreachable body.
"""
from __future__ import annotations

import os as _os

from chk.c18_model import K, MAXOPS, step, run_model, NAME, OLD, NEW


def _triples(s):
    return frozenset((int(t[0]), int(t[1]), int(t[2])) for t in s.split(',') if t)


INV = _triples(_os.environ.get('C18_INV', '100'))
SEL = _triples(_os.environ.get('C18_SEL', _os.environ.get('C18_INV', '100')))
SAFELY = _os.environ.get('C18_SAFELY', '1') == '1'
OVERWRITE = _os.environ.get('C18_OVERWRITE', '0') == '1'


def cls(n: int) -> int:
    """class of a pre-state length; returns a concrete int on every path"""
    if n == -1:
        return 0
    if n == K:
        return 1
    return 2


def sel(n0: int, o0: int, w0: int) -> bool:
    return (cls(n0), cls(o0), cls(w0)) in SEL


def in_inv(a: int, b: int, c: int) -> bool:
    return (int(a), int(b), int(c)) in INV


def dom(n0: int, o0: int, w0: int, crash_at: int, lost: int) -> bool:
    return -1 <= n0 <= K and -1 <= o0 <= K and -1 <= w0 <= K and 0 <= crash_at <= MAXOPS and 0 <= lost <= K


def _run(n0: int, o0: int, w0: int, crash_at: int, lost: int):
    return step(n0, o0, w0, crash_at, lost, SAFELY, OVERWRITE)


# ------------------------------------------------------------------ INV is inductive
def ind(n0: int, o0: int, w0: int, crash_at: int, lost: int):
    """
    pre: dom(n0, o0, w0, crash_at, lost) and sel(n0, o0, w0)
    post: in_inv(_[0], _[1], _[2])
    """
    return _run(n0, o0, w0, crash_at, lost)


def ind_twin(n0: int, o0: int, w0: int, crash_at: int, lost: int):
    """
    pre: dom(n0, o0, w0, crash_at, lost) and sel(n0, o0, w0)
    post: not _[3]
    """
    return _run(n0, o0, w0, crash_at, lost)


# ------------------------------------------------------------------ clause (1): some complete file remains
def c1(n0: int, o0: int, w0: int, crash_at: int, lost: int):
    """
    pre: dom(n0, o0, w0, crash_at, lost) and sel(n0, o0, w0) and (n0 == K or o0 == K or w0 == K)
    post: _[0] == 1 or _[1] == 1 or _[2] == 1
    """
    return _run(n0, o0, w0, crash_at, lost)


def c1_twin(n0: int, o0: int, w0: int, crash_at: int, lost: int):
    """
    pre: dom(n0, o0, w0, crash_at, lost) and sel(n0, o0, w0) and (n0 == K or o0 == K or w0 == K)
    post: not _[3]
    """
    return _run(n0, o0, w0, crash_at, lost)


# ------------------------------------------------------------------ clause (2): name never truncated
def c2(n0: int, o0: int, w0: int, crash_at: int, lost: int):
    """
    pre: dom(n0, o0, w0, crash_at, lost) and sel(n0, o0, w0) and (n0 == -1 or n0 == K)
    post: _[0] != 2
    """
    return _run(n0, o0, w0, crash_at, lost)


def c2_twin(n0: int, o0: int, w0: int, crash_at: int, lost: int):
    """
    pre: dom(n0, o0, w0, crash_at, lost) and sel(n0, o0, w0) and (n0 == -1 or n0 == K)
    post: not _[3]
    """
    return _run(n0, o0, w0, crash_at, lost)


# ------------------------------------------------------------------ frame condition for the in-place flags
def f_siblings_untouched(n0: int, o0: int, w0: int, crash_at: int, lost: int):
    """
    Only used with C18_SAFELY=0 or C18_OVERWRITE=1 (the caller asked for an in-place write):
    the write may touch `name` only - .old / .new keep their state.

    pre: dom(n0, o0, w0, crash_at, lost)
    post: (_[1] == 1) == (o0 == K) and (_[2] == 1) == (w0 == K) and (_[1] == 0) == (o0 == -1) and (_[2] == 0) == (w0 == -1)
    """
    return _run(n0, o0, w0, crash_at, lost)


def f_siblings_untouched_twin(n0: int, o0: int, w0: int, crash_at: int, lost: int):
    """
    pre: dom(n0, o0, w0, crash_at, lost)
    post: not _[3]
    """
    return _run(n0, o0, w0, crash_at, lost)


def f_inplace_loses_name(n0: int, o0: int, w0: int, crash_at: int, lost: int):
    """
    Documentation of the opt-out (C18_SAFELY=0 or C18_OVERWRITE=1): expected to be refuted.

    pre: dom(n0, o0, w0, crash_at, lost) and n0 == K and o0 < K and w0 < K
    post: _[0] == 1
    """
    return _run(n0, o0, w0, crash_at, lost)


# ------------------------------------------------------------------ two consecutive interrupted writes
def _two(n0, o0, w0, c1_, l1, c2_, l2):
    a = run_model(n0, o0, w0, c1_, l1, SAFELY, OVERWRITE, new_ver=1)
    b = run_model(a.n[NAME], a.n[OLD], a.n[NEW], c2_, l2, SAFELY, OVERWRITE, new_ver=2,
                  vers=(a.ver[NAME], a.ver[OLD], a.ver[NEW]))
    return b.summary()


def two_steps(n0: int, o0: int, w0: int, ca: int, la: int, cb: int, lb: int):
    """
    Direct (non-inductive) double-check of clause (1) for two explicit consecutive writes.

    pre: dom(n0, o0, w0, ca, la) and dom(n0, o0, w0, cb, lb) and sel(n0, o0, w0) and (n0 == K or o0 == K or w0 == K)
    post: _[0] == 1 or _[1] == 1 or _[2] == 1
    """
    return _two(n0, o0, w0, ca, la, cb, lb)


def two_steps_twin(n0: int, o0: int, w0: int, ca: int, la: int, cb: int, lb: int):
    """
    pre: dom(n0, o0, w0, ca, la) and dom(n0, o0, w0, cb, lb) and sel(n0, o0, w0) and (n0 == K or o0 == K or w0 == K)
    post: not _[3]
    """
    return _two(n0, o0, w0, ca, la, cb, lb)
