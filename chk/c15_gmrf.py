"""C15 / G3 for GMRFPiecewiseCoalescentBlockUpdatingOperator: the Hastings term returned by the REAL `_step`
equals log q(reverse) - log q(forward) of the proposal that the same code executes.

The real `step()` (propose_precision, newton_raphson, jacobian, gradient, GMRF.precision_matrix, the Cholesky /
triangular-solve pipeline) runs on SymTensors.  Symbols: field gamma (n), precision tau, sufficient statistics w (n),
coalescent counts c (n), scaler s, the two uniform draws r1, r2 of propose_precision and the n normal draws z.

Oracle (derived from the executed code, not from its formulas):
  * forward kernel  : the proposed field is the executed map  gamma' = F(gamma, tau', z),  z ~ N(0, I);
                      q_f = phi(z) / |det dF/dz|                      (dF/dz by symbolic differentiation of the run)
  * reverse kernel  : the SAME real `step()` is executed a second time from the proposed state (gamma', tau') with
                      the precision draw that returns to tau; that gives  gamma'' = F(gamma', tau, z2);
                      z_r is the draw with F(gamma', tau, z_r) = gamma and  q_r = phi(z_r) / |det dF/dz2|
  * precision move  : the density of the factor tau'/tau is the two-branch mixture derived from the executed
                      propose_precision (branch probability = threshold of the recorded path condition, branch
                      densities = 1/|d factor / d r2|); the Hastings term carries no precision contribution, so the
                      obligation is  q(1/f) / tau' == q(f) / tau.
Obligations (per explored region; Newton outputs generalised to free variables, so the proof does not depend on the
number of Newton iterations):
  P0  proposed precision > 0;   P1  Cholesky arguments symmetric positive definite (obligations of the stub)
  P2  z -> gamma' is affine with non-singular Jacobian (both kernels)
  P3  h == R + sum_k sigma_k log(a_k)   with integer sigma_k, a_k > 0        (R = h with every log set to 0)
  P4  prod a_k^sigma_k == |det J_f| / |det J_r|                              (log-determinant part, log-free)
  P5  R == -1/2 z_r.z_r + 1/2 z.z                                            (quadratic part)
  P6  newton_raphson does not modify its arguments; reject() restores field and precision (identical expressions)
Counterexamples / undecided goals are replayed on the real code with plain tensors against a numerical oracle that
probes the real forward kernel (z = 0, z = e_i) from both end points.
"""
from __future__ import annotations

import math
import types

import torch

from symtorch import SymTensor, cur, from_ids, tracing
from symtorch.axioms import ground_axioms
from symtorch.explore import _to_float, prove
from symtorch.ext_c15 import SymMath15, det_ids, strip_stop, subst
from symtorch.tensor import mkfloat

SIG_H = 'GMRFBlockUpdating._step:hastings-ratio'
SIG_P = 'GMRFBlockUpdating.propose_precision:not-symmetric'
SIG_R = 'GMRFBlockUpdating.reject:restore'
SIG_D = 'GMRFBlockUpdating._step:well-defined'

DEFAULTS = {'g': [1.2, 0.7, 1.6, 0.9], 'tau': 1.5, 'w': [2.0, 3.5, 1.0, 2.5], 'c': [1.0, 2.0, 1.0, 1.0], 's': 2.0,
            'r1': 0.1, 'r2': 0.8, 'z': [0.3, -0.5, 0.9, -0.2]}

STUBS = ['coalescent.distribution().sufficient_statistics(tree_model.node_heights) -> symbolic sufficient statistics w > 0 and '
         'counts c (the argument handed over is checked to be tree_model.node_heights)',
         'torch.rand(1) in propose_precision -> fresh symbols r1 (branch choice), r2 in [0,1)',
         'torch.randn(dim) in GMRFBlockUpdating._step -> fresh symbols z (unconstrained reals)',
         'torch.linalg.cholesky -> functional contract stub: fresh upper-triangular U with U^T U = A, U_ii > 0; '
         'obligations: A symmetric, leading principal minors of A > 0',
         'torch.linalg.solve -> exact rational expressions (substitution for triangular systems, Cramer n <= 3)',
         'torch.linalg.vector_norm -> sqrt(sum of squares), sqrt uninterpreted with axioms',
         'math module of torchtree.inference.mcmc.gmrf_block_updating -> SymMath (log/pow uninterpreted with axioms)']


def names(n):
    return ([f'g[{i}]' for i in range(n)] + ['tau'] + [f'w[{i}]' for i in range(n)] + [f'c[{i}]' for i in range(n)]
            + ['s', 'r1', 'r2'] + [f'z[{i}]' for i in range(n)])


def default_values(n, over=None):
    W = {}
    for k, v in DEFAULTS.items():
        if isinstance(v, list):
            for i in range(n):
                W[f'{k}[{i}]'] = v[i]
        else:
            W[k] = v
    W.update(over or {})
    return W


def in_domain(vals, n):
    if not (vals['tau'] > 0 and all(vals[f'w[{i}]'] >= 0 for i in range(n)) and sum(vals[f'w[{i}]'] for i in range(n)) > 0):
        return False
    if not (vals['s'] >= 1 and 0 <= vals['r1'] < 1 and 0 <= vals['r2'] < 1):
        return False
    return all(math.isfinite(v) and abs(v) < 1e6 for v in vals.values())


# ------------------------------------------------------------------ running the real operator
class _Dist:
    def __init__(self, w, c, log):
        self.w, self.c, self.log = w, c, log

    def sufficient_statistics(self, node_heights):
        self.log.append(node_heights)
        return self.w, self.c


class _Coalescent:
    """stands for the coalescent model: only distribution().sufficient_statistics(tree_model.node_heights) is used"""

    def __init__(self, w, c):
        self.calls = []
        self.node_heights = object()
        self.tree_model = types.SimpleNamespace(node_heights=self.node_heights)
        self._d = _Dist(w, c, self.calls)

    def distribution(self):
        return self._d


class Rng:
    """every source of randomness of the operator; `rands` / `normals` are lists of tensors handed out in order"""

    def __init__(self, rands, normals, sym):
        self.rands, self.normals, self.sym = list(rands), list(normals), sym
        self.nrand = self.nrandn = 0
        self.bad = None

    def __enter__(self):
        import torchtree.inference.mcmc.gmrf_block_updating as gb

        self.gb = gb
        self.saved = (torch.rand, torch.randn, gb.math)
        me = self

        def rand(*a, **k):
            me.nrand += 1
            if not me.rands:
                me.bad = 'more uniform draws than propose_precision is known to take'
                return torch.tensor([0.5], dtype=torch.float64)
            return me.rands.pop(0)

        def randn(*a, **k):
            me.nrandn += 1
            if not me.normals:
                me.bad = 'more than one normal draw in one step'
                return torch.zeros(a[0] if a and isinstance(a[0], int) else 1, dtype=torch.float64)
            return me.normals.pop(0)

        torch.rand, torch.randn = rand, randn
        if self.sym:
            gb.math = SymMath15()
        return self

    def __exit__(self, *exc):
        torch.rand, torch.randn, self.gb.math = self.saved
        return False


def ids_list(x):
    if isinstance(x, SymTensor):
        return x._ids.reshape(-1).tolist()
    return None


def make_operator(gamma, tau, w, c, scaler, nr_contract=False, nr_log=None):
    """the real GMRF and the real operator on the given tensors (symbolic or plain)"""
    from torchtree.core.parameter import Parameter
    from torchtree.distributions.gmrf import GMRF
    from torchtree.inference.mcmc.gmrf_block_updating import GMRFPiecewiseCoalescentBlockUpdatingOperator as G

    field = Parameter('field', gamma)
    prec = Parameter('precision', tau)
    gm = GMRF('gmrf', field, prec)
    coal = _Coalescent(w, c)
    op = G('op', coal, gm, 1.0, 0.24, scaler, disable_adaptation=True)
    if nr_log is not None:
        real_nr = op.newton_raphson
        real_jac = op.jacobian
        count = {'jac': 0}

        def jac(*a, **k):
            count['jac'] += 1
            return real_jac(*a, **k)

        op.jacobian = jac

        def nr(numCoalEv, wNative, gamma_, precision_matrix):
            args = (numCoalEv, wNative, gamma_, precision_matrix)
            before = [ids_list(a) for a in args]
            j0 = count['jac']
            if nr_contract:
                # functional contract: the expansion point is SOME deterministic function of the four arguments
                import hashlib

                from symtorch.tensor import new_vars

                vals = real_nr(*[a._v.clone() if isinstance(a, SymTensor) else a.clone() for a in args])
                key = hashlib.sha1(repr(before).encode()).hexdigest()[:10]
                out = new_vars(f'nr!{key}', vals)
            else:
                out = real_nr(*args)
            nr_log.append({'before': before, 'after': [ids_list(a) for a in args], 'out': ids_list(out), 'iterations': count['jac'] - j0})
            return out

        op.newton_raphson = nr
    return op, gm, coal


def sym_step(d, gamma_ids, tau_id, w_ids, c_ids, s, rands, z_ids, force_precision=None, nr_contract=False):
    """one symbolic execution of the real step() from the state (gamma, tau)"""
    n = len(gamma_ids)

    def T(ids):
        return from_ids(torch.tensor(ids, dtype=torch.int64))

    nr_log = []
    op, gm, coal = make_operator(T(gamma_ids), T([tau_id]), T(w_ids), T(c_ids), s, nr_contract, nr_log)
    if force_precision is not None:
        op.propose_precision = lambda: T([force_precision])
    before = [ids_list(p.tensor) for p in op.parameters]
    t = cur()
    npc, ncon = len(t.pcs), len(t.contracts)
    with Rng([T([r]) for r in rands], [T(z_ids)], True) as rng:
        h = op.step()
    out = {'op': op, 'gm': gm, 'h': h, 'nr': nr_log, 'before': before, 'bad': rng.bad, 'nrand': rng.nrand, 'nrandn': rng.nrandn,
           'pcs': t.pcs[npc:], 'contracts': t.contracts[ncon:], 'n': n,
           'ss_args_ok': len(coal.calls) >= 1 and all(a is coal.node_heights for a in coal.calls),
           'after': [ids_list(p.tensor) for p in op.parameters]}
    return out


def real_step(n, gamma, tau, w, c, s, rands, z, stop_value=None):
    """the real step() on plain float64 tensors with the draws forced"""
    T = lambda v: torch.tensor(v, dtype=torch.float64)  # noqa: E731
    op, gm, coal = make_operator(T(list(gamma)), T([tau]), T(list(w)), T(list(c)), s)
    with Rng([T([r]) for r in rands], [T(list(z))], False) as rng:
        h = op.step()
    return {'h': float(h), 'gamma': gm.field.tensor.tolist(), 'tau': float(gm.precision.tensor[0]), 'op': op, 'gm': gm,
            'nrand': rng.nrand}


# ------------------------------------------------------------------ numerical oracle on the real code
def _det(M):
    return float(torch.linalg.det(torch.tensor(M, dtype=torch.float64)))


def probe_kernel(n, gamma, tau, w, c, s, rands):
    """mean and Jacobian of the real forward field proposal from (gamma, tau) with the precision draws `rands`"""
    base = real_step(n, gamma, tau, w, c, s, rands, [0.0] * n)
    mu = base['gamma']
    J = [[0.0] * n for _ in range(n)]
    for j in range(n):
        e = [0.0] * n
        e[j] = 1.0
        col = real_step(n, gamma, tau, w, c, s, rands, e)['gamma']
        for i in range(n):
            J[i][j] = col[i] - mu[i]
    return mu, J, base['tau']


def precision_density(tau, s, x, eps=1e-6):
    """density of the factor tau'/tau at x under the REAL propose_precision: two-branch mixture located numerically"""
    if s == 1:
        return None

    def factor(r1, r2):
        T = lambda v: torch.tensor(v, dtype=torch.float64)  # noqa: E731
        op, gm, _ = make_operator(T([0.0, 0.0]), T([tau]), T([1.0, 1.0]), T([1.0, 1.0]), s)
        with Rng([T([r1]), T([r2])], [], False):
            return float(op.propose_precision().reshape(-1)[0]) / tau

    # the branch is chosen by r1: locate the threshold (the factor as a function of r1 has one jump)
    r2 = 0.3712
    lo, hi = 0.0, 1.0 - 1e-12
    flo, fhi = factor(lo, r2), factor(hi, r2)
    if flo == fhi:
        comps = [(1.0, lambda r: factor(0.0, r))]
    else:
        for _ in range(60):
            mid = 0.5 * (lo + hi)
            if factor(mid, r2) == flo:
                lo = mid
            else:
                hi = mid
        P = 0.5 * (lo + hi)
        comps = [(P, lambda r: factor(0.0, r)), (1 - P, lambda r: factor(1.0 - 1e-12, r))]
    dens = 0.0
    for pr, f in comps:
        a, b = f(0.0), f(1.0 - 1e-12)
        if not (min(a, b) * (1 - 1e-9) <= x <= max(a, b) * (1 + 1e-9)):
            continue
        lo, hi = 0.0, 1.0 - 1e-12
        inc = b > a
        for _ in range(80):
            mid = 0.5 * (lo + hi)
            if (f(mid) < x) == inc:
                lo = mid
            else:
                hi = mid
        r = min(max(0.5 * (lo + hi), eps), 1 - 2 * eps)
        der = (f(r + eps) - f(r - eps)) / (2 * eps)
        if der != 0:
            dens += pr / abs(der)
    return dens


def replay(n, vals):
    """(reproduced, detail): the Hastings term of the real step() on plain tensors against
    log q(reverse) - log q(forward) computed from numerical probes of the real forward kernel"""
    if not in_domain(vals, n):
        return False, 'outside the domain'
    g = [vals[f'g[{i}]'] for i in range(n)]
    w = [vals[f'w[{i}]'] for i in range(n)]
    c = [vals[f'c[{i}]'] for i in range(n)]
    z = [vals[f'z[{i}]'] for i in range(n)]
    tau, s = vals['tau'], vals['s']
    rands = [] if s == 1 else [vals['r1'], vals['r2']]
    try:
        fw = real_step(n, g, tau, w, c, s, rands, z)
        if not math.isfinite(fw['h']):
            return False, f'the real step reports a non-finite Hastings term ({fw["h"]}): the move is rejected by MCMC.run'
        tau1, g1 = fw['tau'], fw['gamma']
        mu_f, J_f, _ = probe_kernel(n, g, tau, w, c, s, rands)
        lin = max(abs(g1[i] - mu_f[i] - sum(J_f[i][j] * z[j] for j in range(n))) for i in range(n))
        if lin > 1e-8 * max(1.0, max(abs(v) for v in g1)):
            return False, 'the forward proposal is not affine in the normal draw (probe failed)'
        f = tau1 / tau
        if s == 1:
            rrev = []
        else:
            L = s - 1 / s
            rrev = [0.0, min(max((1 / f - 1 / s) / L, 0.0), 1.0 - 1e-16)]
        mu_r, J_r, tau_back = probe_kernel(n, g1, tau1, w, c, s, rrev)
        if abs(tau_back - tau) > 1e-9 * tau:
            return False, f'could not steer the reverse precision draw back to tau ({tau_back} vs {tau})'
        dJf, dJr = _det(J_f), _det(J_r)
        if dJf == 0 or dJr == 0:
            return False, 'singular proposal Jacobian'
        zr = torch.linalg.solve(torch.tensor(J_r, dtype=torch.float64),
                                torch.tensor([g[i] - mu_r[i] for i in range(n)], dtype=torch.float64)).tolist()
        lqf = -0.5 * sum(v * v for v in z) - math.log(abs(dJf))
        lqr = -0.5 * sum(v * v for v in zr) - math.log(abs(dJr))
        lprec = 0.0
        if s != 1:
            qf, qr = precision_density(tau, s, f), precision_density(tau1, s, 1 / f)
            if not qf or not qr:
                return (qf or 0) > 0 and not qr, f'precision factor densities q(f)={qf}, q(1/f)={qr}'
            lprec = (math.log(qr) - math.log(tau1)) - (math.log(qf) - math.log(tau))
        want = lqr - lqf + lprec
    except Exception as e:  # noqa
        return False, f'replay raised {type(e).__name__}: {e}'
    info = (f'real step(): precision {tau!r} -> {tau1!r}, field {g} -> {g1}; returned Hastings term {fw["h"]!r}; '
            f'log q(reverse) - log q(forward) of the executed proposal = {want!r} (field part {lqr - lqf!r}, precision part {lprec!r})')
    if abs(fw['h'] - want) > 1e-6 * max(1.0, abs(want)):
        return True, info
    return False, 'agrees: ' + info


def replay_defined(n, vals):
    """(reproduced, detail): the real step() raises / yields a non-finite state or a non-positive precision at an in-domain input"""
    g = [vals[f'g[{i}]'] for i in range(n)]
    w = [vals[f'w[{i}]'] for i in range(n)]
    c = [vals[f'c[{i}]'] for i in range(n)]
    z = [vals[f'z[{i}]'] for i in range(n)]
    tau, s = vals['tau'], vals['s']
    try:
        fw = real_step(n, g, tau, w, c, s, [] if s == 1 else [vals['r1'], vals['r2']], z)
    except Exception as e:  # noqa
        return True, f'real step() raised {type(e).__name__}: {e}'
    if not (fw['tau'] > 0) or not all(math.isfinite(v) for v in fw['gamma']) or math.isnan(fw['h']):
        return True, f'real step(): precision {tau} -> {fw["tau"]}, field -> {fw["gamma"]}, Hastings term {fw["h"]}'
    return False, 'the real step() is well defined at this point'


# ------------------------------------------------------------------ symbolic task
def approx_true(d, c, tol=1e-6):
    op, a = d.ops[c], d.args[c]
    if op == 'bconst':
        return bool(a[0])
    if op == 'not':
        if d.ops[a[0]] in ('eq', 'lt', 'le'):
            return not d.vals[a[0]]
        return not approx_true(d, a[0], tol)
    if op == 'and':
        return all(approx_true(d, x, tol) for x in a)
    if op == 'or':
        return any(approx_true(d, x, tol) for x in a)
    x, y = d.vals[a[0]], d.vals[a[1]]
    sc = tol * max(1.0, abs(x), abs(y))
    if op == 'eq':
        if d.ops[a[0]] in ('lt', 'le', 'eq', 'and', 'or', 'not', 'bconst'):
            return bool(x) == bool(y)
        return abs(x - y) <= sc
    if op == 'le':
        return x <= y + sc
    if op == 'lt':
        return x < y + sc
    raise KeyError(op)


def sym_abs(d, a):
    return d.ite(d.le(0, a), a, d.neg(a))


def step_task(task, tr):
    from torchtree.distributions.gmrf import GMRF
    from torchtree.inference.mcmc.gmrf_block_updating import GMRFPiecewiseCoalescentBlockUpdatingOperator as G
    from torchtree.inference.mcmc.operator import MCMCOperator

    n = task['n']
    contract = task.get('nr') == 'contract'
    W = default_values(n, task.get('witness'))
    s_one = W['s'] == 1
    label = f'gmrf-step n={n} newton={"contract" if contract else "real"} witness={task.get("witness") or "default"}'
    tr.fn(G._step, G.propose_precision, G.newton_raphson, G.jacobian, G.gradient, G.__init__, GMRF.precision_matrix,
          MCMCOperator.step, MCMCOperator.reject)
    tr.stubs |= set(STUBS)
    if contract:
        tr.stubs.add('GMRFBlockUpdating.newton_raphson -> functional contract stub (fresh symbols named by a hash of the four symbolic '
                     'arguments; covers every number of Newton iterations); the twin tasks execute the real iteration')
    tr.bounds['gmrf-step'] = ('field dimension n = 2, 3 with the real Newton iteration (Cramer solve), n <= 4 with the Newton contract stub; one '
                              'step() from a symbolic state (field, precision > 0, sufficient statistics w >= 0 with sum w > 0, counts c '
                              'unconstrained reals, scaler s > 1 or s == 1, all draws symbolic); both branches of the precision proposal; '
                              'Newton iteration counts: those of the explored witnesses, listed in the notes (real iteration; no coverage '
                              'certificate over iteration counts) / any (contract twin); region where every Cholesky pivot exceeds the 1e-7 '
                              'filter of _step (the filtered branch, pivots <= 1e-7, drops log-determinant terms and is not examined)')
    tr.assumptions |= {
        'GMRF block update: proposal densities are push-forwards of the stubbed draws: a standard normal z through the executed affine map '
        'has density phi(z)/|det dF/dz|; log of a product of positive reals = sum of logs (P3+P4 give the log-determinant part log-free)',
        'GMRF block update: the reverse move uses the precision draw that returns to the old precision; its existence and density are the '
        'subject of the separate precision-proposal obligations (mixture density derived from the executed propose_precision)',
    }
    reported = set()

    def fail(sig, text, status, model_vals=None, kind='hastings'):
        """verdict policy: replay the model point, then the witness, on the real code"""
        if sig in reported:
            return
        for vals in ([{**W, **model_vals}] if model_vals else []) + [dict(W)]:
            if not in_domain(vals, n):
                continue
            ok, detail = replay(n, vals) if kind == 'hastings' else replay_defined(n, vals)
            if ok:
                reported.add(sig)
                tr.violation(sig, f'{label}: "{text}" fails at {vals}: {detail}', {'kind': 'gmrf-step', 'n': n, 'values': vals, 'focus': kind})
                return
        tr.inconc(f'{label}: "{text}" {"refuted by the solver" if status == "refuted" else "undecided"} and the concrete replay '
                  f'found no disagreement')

    with tracing() as t:
        d = t.dag
        V = {nm: d.var(nm, W[nm]) for nm in names(n) if not (s_one and nm in ('s', 'r1', 'r2'))}
        g = [V[f'g[{i}]'] for i in range(n)]
        w = [V[f'w[{i}]'] for i in range(n)]
        c = [V[f'c[{i}]'] for i in range(n)]
        z = [V[f'z[{i}]'] for i in range(n)]
        s = 1.0 if s_one else mkfloat(V['s'])
        rands = [] if s_one else [V['r1'], V['r2']]
        wsum = 0
        for x in w:
            wsum = d.add(wsum, x)
        dom = [d.lt(0, V['tau']), d.lt(0, wsum)] + [d.le(0, x) for x in w]
        if not s_one:
            dom += [d.lt(1, V['s']), d.le(0, V['r1']), d.lt(V['r1'], 1), d.le(0, V['r2']), d.lt(V['r2'], 1)]
        varids = list(V.values())
        try:
            r1 = sym_step(d, g, V['tau'], w, c, s, rands, z, nr_contract=contract)
        except torch._C._LinAlgError:
            tr.inconc(f'{label}: harness: the witness is not positive definite')
            return
        tr.witness_runs += 1
        tr.regions += 1
        if r1['bad'] or r1['nrandn'] != 1 or r1['nrand'] != len(rands):
            tr.inconc(f'{label}: harness: random draws taken by step() do not match the stub plan ({r1["bad"]}, rand={r1["nrand"]}, randn={r1["nrandn"]})')
            return
        if not isinstance(r1['h'], SymTensor):
            tr.inconc(f'{label}: the step returned the constant {r1["h"]} at the witness (Cholesky failure branch)')
            return
        h = strip_stop(d, int(r1['h']._ids.reshape(-1)[0]))
        g1 = [strip_stop(d, i) for i in r1['after'][0]]
        tau1 = strip_stop(d, r1['after'][1][0])
        # ---- P6a reject() restores both parameters (identical expressions)
        r1['op'].reject()
        restored = [ids_list(p.tensor) for p in r1['op'].parameters] == r1['before'] and r1['before'] == [g, [V['tau']]]
        prove(d, [], d.bconst(restored), tr=tr, label='reject restores field and precision')
        if not restored:
            tr.violation(SIG_R, f'{label}: after step(); reject() field / precision are not the expressions they were before the proposal',
                         {'kind': 'gmrf-step', 'n': n, 'values': dict(W)})
        # ---- reverse kernel: the same real code from the proposed state, precision draw returning to tau
        zq = [d.var(f'zq[{i}]', 0.0) for i in range(n)]
        try:
            r2 = sym_step(d, g1, tau1, w, c, s, [], zq, force_precision=V['tau'], nr_contract=contract)
        except torch._C._LinAlgError:
            tr.inconc(f'{label}: harness: reverse kernel not positive definite at the witness')
            return
        tr.witness_runs += 1
        tr.ops_checked += t.nchecked
        if t.concretized:
            tr.inconc(f'{label}: symbolic value concretised: {t.concretized[:3]}')
            return
        g2 = [strip_stop(d, i) for i in r2['after'][0]]
        pure = all(c_['before'] == c_['after'] for c_ in r1['nr'] + r2['nr']) and r1['ss_args_ok'] and r2['ss_args_ok']
        prove(d, [], d.bconst(pure), tr=tr, label='newton_raphson leaves its arguments unchanged; sufficient statistics are taken at tree_model.node_heights')
        if not pure:
            fail(SIG_H, 'newton_raphson modifies its arguments / sufficient statistics not taken at the node heights', 'refuted')
            if SIG_H not in reported:
                return
        # ---- Jacobians of the executed maps
        J1 = [d.grad(g1[i], z, honour_stops=False) for i in range(n)]
        J2 = [d.grad(g2[i], zq, honour_stops=False) for i in range(n)]
        zn = {d.args[x][0] for x in z + zq}
        affine = not (zn & set(d.variables([e for row in J1 + J2 for e in row])))
        prove(d, [], d.bconst(affine), tr=tr, label='proposal affine in the normal draw')
        if not affine:
            fail(SIG_H, 'the proposed field is an affine function of the normal draw', 'refuted')
            return
        # reverse draw z_r: F(gamma', tau, z_r) = gamma   (numerical witness, then substituted for zq)
        J2v = torch.tensor([[d.vals[e] for e in row] for row in J2], dtype=torch.float64)
        rhs = torch.tensor([d.vals[g[i]] - d.vals[g2[i]] for i in range(n)], dtype=torch.float64)
        try:
            zrv = torch.linalg.solve(J2v, rhs).tolist()
        except Exception as e:  # noqa
            tr.inconc(f'{label}: reverse Jacobian singular at the witness: {e}')
            return
        zr = [d.var(f'zr[{i}]', zrv[i]) for i in range(n)]
        g2r = subst(d, g2, {a: b for a, b in zip(zq, zr)})
        back = [d.eq(g2r[i], g[i]) for i in range(n)]
        detJ1, detJ2 = det_ids(d, J1), det_ids(d, J2)
        # ---- log-linear decomposition of the implementation's Hastings term
        logs = [m for m in d.topo([h]) if d.ops[m] == 'uf' and d.args[m][0] == 'log']
        sig = d.grad(h, logs, honour_stops=False) if logs else []
        ints = all(d.ops[x] == 'const' and d.cval(x).denominator == 1 for x in sig)
        R = subst(d, [h], {m: 0 for m in logs})[0]
        nested = any(d.ops[m] == 'uf' and d.args[m][0] == 'log' for m in d.topo([R] + [d.args[m][1] for m in logs]))
        prove(d, [], d.bconst(ints and not nested), tr=tr, label='Hastings term = rational part + integer combination of logs')
        if not ints or nested:
            fail(SIG_H, 'the Hastings term is a rational expression plus an integer combination of logarithms', 'refuted')
            return
        comb = R
        num, den = 1, 1
        for m, sg in zip(logs, sig):
            k = int(d.cval(sg))
            comb = d.add(comb, d.mul(d.const(k), m))
            a = d.args[m][1]
            if k > 0:
                num = d.mul(num, d.ipow(a, k))
            elif k < 0:
                den = d.mul(den, d.ipow(a, -k))
        quad = d.add(d.mul(d.const(-0.5), sum_sq(d, zr)), d.mul(d.const(0.5), sum_sq(d, z)))
        # ---- generalisation: Newton outputs and the proposed precision become free variables
        amap = {}
        if not contract:
            for k, call in enumerate(r1['nr'] + r2['nr']):
                for i, m in enumerate(call['out']):
                    m = strip_stop(d, m)
                    if m not in amap and d.ops[m] != 'var':
                        amap[m] = d.var(f'abs!M{k}[{i}]', d.vals[m])
        TP = None
        if not s_one and d.ops[tau1] != 'var':
            TP = d.var('abs!TP', d.vals[tau1])
            amap[tau1] = TP
        contracts = r1['contracts'] + r2['contracts']
        chol = [c_ for c_ in contracts if c_['kind'] == 'cholesky']
        con_rows = [x for c_ in chol for x in list(c_['rows'].values()) + c_['positive']]
        con_obl = [x for c_ in chol for x in c_['symmetric_obligation'] + c_['posdef_obligation']]
        pivots = [p for p in r1['pcs'] + r2['pcs'] if any(d.args[v][0].startswith('chol!') for v in d.topo([p]) if d.ops[v] == 'var')]
        goals = {
            'P1': d.and_(*con_obl) if con_obl else d.TRUE,
            'P2': d.and_(d.not_(d.eq(detJ1, 0)), d.not_(d.eq(detJ2, 0))),
            'P3': d.and_(d.eq(h, comb), *[d.lt(0, d.args[m][1]) for m in logs]),
            'P4': d.eq(d.mul(num, sym_abs(d, detJ2)), d.mul(den, sym_abs(d, detJ1))),
            'P5': d.eq(R, quad),
        }
        keys = list(goals)
        # second-level atoms for P5: entries of the Cholesky arguments and the mean of the reverse kernel (= F at z2 = 0)
        mu2 = subst(d, g2, {a: 0 for a in zq})
        a_entries = sorted({x for c_ in chol for x in c_['A']._ids.reshape(-1).tolist() if d.ops[x] != 'const'})
        roots = [goals[k] for k in keys] + con_rows + back + pivots + mu2 + a_entries
        res = subst(d, roots, amap)
        G_ = dict(zip(keys, res[:len(keys)]))
        p = len(keys)
        con_rows_a = res[p:p + len(con_rows)]
        back_a = res[p + len(con_rows):p + len(con_rows) + len(back)]
        piv_a = res[p + len(con_rows) + len(back):p + len(con_rows) + len(back) + len(pivots)]
        q = p + len(con_rows) + len(back) + len(pivots)
        mu2_a = res[q:q + n]
        a_entries_a = res[q + n:]
        amap2 = {}
        for k, x in enumerate(a_entries_a):
            if d.ops[x] not in ('const', 'var') and x not in amap2:
                amap2[x] = d.var(f'abs!A{k}', d.vals[x])
        for k, x in enumerate(mu2_a):
            if d.ops[x] not in ('const', 'var') and x not in amap2:
                amap2[x] = d.var(f'abs!MU{k}', d.vals[x])
        hyp0 = list(dom)
        prop_vars = {'s', 'r1', 'r2', 'tau'}

        def only_prop(x):
            return set(d.variables([x])) <= prop_vars

        pcs_prop = [x for x in r1['pcs'] if only_prop(x)]
        # P0: the proposed precision is positive (full expression, the path conditions of propose_precision)
        if TP is not None:
            ax0 = ground_axioms(d, [tau1] + pcs_prop, monotone=True)
            st, r, _ = prove(d, dom + pcs_prop + ax0, d.lt(0, tau1), timeout=20, get_values=varids, tr=tr, label='P0 proposed precision > 0',
                             parallel=True)
            if st != 'proved':
                fail(SIG_D, 'the proposed precision is positive', st, model(r, V) if st == 'refuted' else None, kind='defined')
                return
            hyp0.append(d.lt(0, TP))

        def exp_pos(roots):
            return [d.lt(0, m) for m in d.topo(list(roots)) if d.ops[m] == 'uf' and d.args[m][0] == 'exp']

        chol_a = []  # contracts after generalisation: (variable names of the factor, rows, positivity)
        pos_in = 0
        for c_ in chol:
            nrow, npos = len(c_['rows']), len(c_['positive'])
            rows_a = con_rows_a[pos_in:pos_in + nrow]
            posi_a = con_rows_a[pos_in + nrow:pos_in + nrow + npos]
            pos_in += nrow + npos
            fv = {d.args[v][0] for v in c_['F']._ids.reshape(-1).tolist() if d.ops[v] == 'var'}
            chol_a.append((fv, rows_a, posi_a))

        def lemmas(roots, rows=True):
            """lemma selection: only the contracts of the Cholesky factors that occur in the roots"""
            names_ = set(d.variables(list(roots)))
            out = []
            for fv, rows_a, posi_a in chol_a:
                if fv & names_:
                    out += posi_a + (rows_a if rows else [])
            return out

        # non-vacuity: every hypothesis holds (up to rounding) at the witness
        allh = hyp0 + con_rows_a + back_a + piv_a
        badh = [x for x in allh if not approx_true(d, x)]
        if badh:
            tr.inconc(f'{label}: harness: a hypothesis does not hold at the witness: {d.to_str(badh[0], 5)}')
            return
        its = [c_['iterations'] for c_ in r1['nr']]
        tr.notes.append(f'{label}: Newton iterations of the explored region (forward, backward) = {its}')
        tr.sample({'case': label, 'newton_iterations_forward_backward': its,
                   'path_conditions': [d.to_str(x, 4)[:160] for x in (r1['pcs'] + r2['pcs'])[:8]],
                   'hastings_logs': [f'{int(d.cval(sg)):+d}*log({d.to_str(d.args[m][1], 3)})' for m, sg in zip(logs, sig)],
                   'obligations': ['P0 proposed precision > 0', 'P1 Cholesky arguments symmetric positive definite',
                                   'P2 det dF/dz != 0 (forward and reverse kernel)', 'P3 h == R + sum sigma_k log a_k, a_k > 0',
                                   'P4 prod a_k^sigma_k == |det J_f| / |det J_r|', 'P5 R == -1/2 z_r.z_r + 1/2 z.z']})
        text = {'P1': 'every Cholesky argument is symmetric positive definite (the LinAlgError branch is unreachable over the reals)',
                'P2': 'the executed map normal draw -> proposed field has a non-singular Jacobian (forward and reverse kernel)',
                'P3': 'Hastings term == rational part + sum sigma_k log(a_k) with every a_k > 0',
                'P4': 'log-determinant part: prod a_k^sigma_k == |det J_forward| / |det J_reverse|',
                'P5': 'quadratic part: rational part of the Hastings term == -1/2 z_r.z_r + 1/2 z.z with F(gamma\', tau, z_r) = gamma'}
        plan = [('P1', hyp0 + exp_pos([G_['P1']]), SIG_D, 'defined'),
                ('P2', hyp0 + lemmas([G_['P2']], rows=False), SIG_H, 'hastings'),
                ('P3', hyp0 + lemmas([G_['P3']], rows=False), SIG_H, 'hastings'),
                ('P4', hyp0 + lemmas([G_['P4']], rows=False), SIG_H, 'hastings'),
                ]
        # P5 is a polynomial identity once the Cholesky arguments and the reverse mean are opaque: generalise them as well
        h5 = back_a + lemmas([G_['P5']] + back_a)
        r5 = subst(d, [G_['P5']] + h5, amap2)
        G_['P5'] = r5[0]
        plan.append(('P5', hyp0 + r5[1:], SIG_H, 'hastings'))
        for key, hy, sg, kind in plan:
            st, r, _ = prove(d, hy, G_[key], timeout=task.get('timeout', 30), get_values=varids, tr=tr, label=key + ' ' + text[key], parallel=True)
            if st == 'proved':
                continue
            fail(sg, text[key], st, model(r, V) if st == 'refuted' else None, kind=kind)
        # well-definedness, one obligation per group of denominators / log / sqrt arguments
        wd_nodes = [d.not_(d.eq(b, 0)) for b in t.denominators] + [d.lt(0, x) if k == 'pos' else d.le(0, x) for k, x in t.domains]
        wd_prop = [x for x in wd_nodes if only_prop(x)]
        wd_rest = [x for x in wd_nodes if not only_prop(x)]
        if wd_prop:
            gp = d.and_(*wd_prop)
            st, r, _ = prove(d, dom + pcs_prop + ground_axioms(d, [gp] + pcs_prop, monotone=True), gp, timeout=20, get_values=varids, tr=tr,
                             label='propose_precision: every denominator non-zero, every log argument positive', parallel=True)
            if st != 'proved':
                fail(SIG_D, 'propose_precision: every denominator is non-zero and every log argument positive', st,
                     model(r, V) if st == 'refuted' else None, kind='defined')
        if wd_rest:
            rest_a = []
            for x in subst(d, wd_rest, amap):
                # a sum of even powers is non-negative whatever is squared: the squared terms are generalised to free variables
                sq = {d.args[m][0]: None for m in d.topo([x]) if d.ops[m] == 'ipow' and d.args[m][1] % 2 == 0 and d.ops[d.args[m][0]] != 'var'}
                if d.ops[x] == 'le' and sq:
                    for k, b_ in enumerate(sq):
                        sq[b_] = d.var(f'abs!Q{k}', d.vals[b_])
                    x = subst(d, [x], sq)[0]
                rest_a.append(x)
            rest_a = list(dict.fromkeys(rest_a))
            # exp(.) > 0 is all that is needed about the exponentials: they are generalised to positive free variables
            emap = {}
            for m in d.topo(rest_a):
                if d.ops[m] == 'uf' and d.args[m][0] == 'exp':
                    emap[m] = d.var(f'abs!E{len(emap)}', d.vals[m])
            rest_a = subst(d, rest_a, emap)
            epos = [d.lt(0, v) for v in emap.values()]
            for k0 in range(0, len(rest_a), 4):
                gp = d.and_(*rest_a[k0:k0 + 4])
                st, r, _ = prove(d, hyp0 + [e for e in epos if set(d.variables([e])) & set(d.variables([gp]))] + lemmas([gp], rows=False), gp,
                                 timeout=30, get_values=varids, tr=tr,
                                 label='_step: denominators non-zero, log / sqrt arguments in their domain', parallel=True)
                if st != 'proved':
                    fail(SIG_D, 'every denominator is non-zero and every log / sqrt argument is in its domain', st,
                         model(r, V) if st == 'refuted' else None, kind='defined')
                    break


def sum_sq(d, xs):
    acc = 0
    for x in xs:
        acc = d.add(acc, d.ipow(x, 2))
    return acc


def model(r, V):
    return {nm: _to_float(r.values[i]) for nm, i in V.items() if i in r.values}


# ------------------------------------------------------------------ precision proposal: symmetric mixture
def precision_task(task, tr):
    """q(tau'|tau) of the executed propose_precision, as a two-branch mixture, satisfies q(tau|tau') == q(tau'|tau)
    (the Hastings term of _step carries no contribution of the precision move)"""
    from torchtree.inference.mcmc.gmrf_block_updating import GMRFPiecewiseCoalescentBlockUpdatingOperator as G

    tr.fn(G.propose_precision)
    tr.stubs |= {STUBS[1], STUBS[6]}
    label = 'gmrf precision proposal'
    tr.bounds['gmrf-precision'] = ('scaler s > 1 symbolic (s == 1: the precision is returned unchanged, checked structurally); factor x = tau\'/tau any '
                                   'point of [1/s, s]; both branches of the mixture')
    tr.assumptions |= {
        'precision proposal: with r1 uniform the branch "r1 < P" has probability P (0 <= P <= 1 proved); within a branch the factor is the '
        'executed map of the uniform r2, density 1/|d factor/d r2|; the density of the factor is the sum over the branches that reach it',
        'pow(s, e) for s > 1 is continuous and increasing in e: it maps [-1, 1] onto [1/s, s] (existence of the pre-images b with '
        'pow(s, 2b-1) = x for x in [1/s, s]); ground instance used: 1/s <= pow(s, e) <= s for -1 <= e <= 1',
    }
    W = {'s': task.get('s', 2.0), 'tau': 1.5, 'r1': 0.1, 'X': task.get('X', 1.4)}
    with tracing() as t:
        d = t.dag
        V = {k: d.var(k, v) for k, v in W.items()}
        s_ = mkfloat(V['s'])
        dom = [d.lt(1, V['s']), d.lt(0, V['tau']), d.le(0, V['r1']), d.lt(V['r1'], 1)]

        def T(ids):
            return from_ids(torch.tensor(ids, dtype=torch.int64))

        op, gm, _ = make_operator(T([0, 0]), T([V['tau']]), T([1, 1]), T([1, 1]), s_)
        # s == 1: same tensor back
        op1, gm1, _ = make_operator(T([0, 0]), T([V['tau']]), T([1, 1]), T([1, 1]), 1.0)
        with Rng([], [], True) as rng:
            same = op1.propose_precision()
        ok1 = ids_list(same) == [V['tau']] and rng.nrand == 0
        prove(d, [], d.bconst(ok1), tr=tr, label='scaler == 1: precision unchanged, no draw')
        if not ok1:
            tr.inconc(f'{label}: scaler == 1 does not return the precision unchanged (harness expectation)')
            return
        branches = {}
        for r1w, var in ((0.001, 'ra'), (0.999, 'rb')):
            # (the witness of r1 selects the branch; the recorded path condition carries the threshold)
            r1n = d.var(f'r1@{var}', r1w)
            rv = d.var(var, 0.37)
            npc = len(t.pcs)
            with Rng([T([r1n]), T([rv])], [], True) as rng:
                out = op.propose_precision()
            if rng.bad or rng.nrand != 2:
                tr.inconc(f'{label}: harness: propose_precision took {rng.nrand} uniform draws')
                return
            pcs = t.pcs[npc:]
            thr = None
            for c_ in pcs:
                a, pol = (d.args[c_][0], False) if d.ops[c_] == 'not' else (c_, True)
                if d.ops[a] == 'lt' and d.args[a][0] == r1n and f'r1@{var}' not in d.variables([d.args[a][1]]):
                    thr = (d.args[a][1], pol)
            if thr is None:
                tr.inconc(f'{label}: harness: no branch condition of the form r1 < P in {[d.to_str(c_, 4) for c_ in pcs]}')
                return
            tau_new = strip_stop(d, ids_list(out)[0])
            if {f'r1@{var}'} & set(d.variables([tau_new])):
                tr.inconc(f'{label}: harness: the proposed precision depends on the branch draw')
                return
            branches[thr[1]] = {'P': thr[0], 'f': d.div(tau_new, V['tau']), 'r': rv}
        tr.witness_runs += 2
        tr.regions += 2
        tr.ops_checked += t.nchecked
        if t.concretized or set(branches) != {True, False} or branches[True]['P'] != branches[False]['P']:
            tr.inconc(f'{label}: harness: expected the two branches r1 < P / r1 >= P with one threshold ({t.concretized[:2]})')
            return
        P = branches[True]['P']
        sv, Xv = W['s'], W['X']
        Lv = sv - 1 / sv
        X = V['X']
        # pre-images of x and 1/x in both branches (fresh symbols; numerical witnesses)
        pre = {}
        for key, x_w in (('x', Xv), ('inv', 1 / Xv)):
            for br in (True, False):
                f, rv = branches[br]['f'], branches[br]['r']
                lo, hi = 0.0, 1.0
                inc = d.evaluate([f], {**W, d.args[rv][0]: 1.0})[f] > d.evaluate([f], {**W, d.args[rv][0]: 0.0})[f]
                for _ in range(100):
                    mid = 0.5 * (lo + hi)
                    if (d.evaluate([f], {**W, d.args[rv][0]: mid})[f] < x_w) == inc:
                        lo = mid
                    else:
                        hi = mid
                v = d.var(f'pre!{key}{int(br)}', 0.5 * (lo + hi))
                fx, Dx = subst(d, [f, d.grad(f, [rv], honour_stops=False)[0]], {rv: v})
                pre[(key, br)] = {'v': v, 'f': fx, 'D': Dx}
        hy = list(dom) + [d.le(d.div(1, V['s']), X), d.le(X, V['s'])]
        for (key, br), e in pre.items():
            hy += [d.le(0, e['v']), d.le(e['v'], 1)]
            hy.append(d.eq(e['f'], X) if key == 'x' else d.eq(d.mul(e['f'], X), 1))

        def q(key):
            return d.add(d.div(P, sym_abs(d, pre[(key, True)]['D'])), d.div(d.sub(1, P), sym_abs(d, pre[(key, False)]['D'])))

        goal = d.eq(q('inv'), d.mul(X, q('x')))
        powax = []
        for m in d.topo([goal] + hy + [b['f'] for b in branches.values()]):
            if d.ops[m] == 'uf' and d.args[m][0] == 'pow':
                b_, e_ = d.args[m][1], d.args[m][2]
                powax.append(d.or_(d.not_(d.and_(d.lt(1, b_), d.le(d.const(-1), e_), d.le(e_, 1))), d.and_(d.le(d.div(1, b_), m), d.le(m, b_))))
        ax = ground_axioms(d, [goal, P] + hy, monotone=True) + powax
        bad = [x for x in hy if not approx_true(d, x)]
        if bad:
            tr.inconc(f'{label}: harness: a hypothesis does not hold at the witness: {d.to_str(bad[0], 5)}')
            return
        varids = list(V.values()) + [e['v'] for e in pre.values()]
        st0, _, _ = prove(d, hy + ax, d.FALSE, timeout=10, tr=tr, label='hypotheses consistent')
        if st0 == 'proved':
            tr.inconc(f'{label}: harness: hypotheses are inconsistent')
            return
        goals = [('branch probability 0 < P < 1', d.and_(d.lt(0, P), d.lt(P, 1)), dom),
                 ('branch 1 reaches every factor of [1/s, s]: explicit pre-image inside [0, 1]', None, None),
                 ('both branches produce factors inside [1/s, s]',
                  d.and_(*[d.and_(d.le(d.div(1, V['s']), b['f']), d.le(b['f'], V['s'])) for b in branches.values()]),
                  dom + [d.le(0, b['r']) for b in branches.values()] + [d.lt(b['r'], 1) for b in branches.values()]),
                 ('density of the factor: q(1/x) == x q(x), i.e. q(tau|tau\') == q(tau\'|tau)', goal, hy)]
        # explicit pre-image for the affine branch
        fa, ra = branches[True]['f'], branches[True]['r']
        slope = d.grad(fa, [ra], honour_stops=False)[0]
        if not set(d.variables([slope])) & {d.args[ra][0]}:
            f0 = subst(d, [fa], {ra: 0})[0]
            a_exp = d.div(d.sub(X, f0), slope)
            goals[1] = (goals[1][0], d.and_(d.le(0, a_exp), d.le(a_exp, 1), d.eq(subst(d, [fa], {ra: a_exp})[0], X)),
                        dom + [d.le(d.div(1, V['s']), X), d.le(X, V['s'])])
        else:
            goals.pop(1)
        tr.sample({'case': label, 'threshold_P': d.to_str(P, 6), 'branch_factors': {str(k): d.to_str(b['f'], 6) for k, b in branches.items()},
                   'goals': [g_[0] for g_ in goals]})
        for text, node, hyps in goals:
            st, r, _ = prove(d, hyps + ax, node, timeout=30, get_values=varids, tr=tr, label=text, parallel=True)
            if st == 'proved':
                continue
            cands = []
            if st == 'refuted':
                mv = {nm: _to_float(r.values[i]) for nm, i in V.items() if i in r.values}
                a1 = r.values.get(pre[('x', True)]['v'])
                if a1 is not None:
                    cands.append(default_values(2, {'s': mv.get('s', sv), 'tau': mv.get('tau', 1.5), 'r1': 0.0, 'r2': min(max(_to_float(a1), 0.0), 1 - 1e-9)}))
            cands.append(default_values(2, {'s': sv, 'r1': 0.0, 'r2': (Xv - 1 / sv) / Lv}))
            cands.append(default_values(2, {'s': sv, 'r1': 1 - 1e-9, 'r2': 0.8}))
            done = False
            for vals in cands:
                if not in_domain(vals, 2):
                    continue
                ok, detail = replay(2, vals)
                if ok:
                    tr.violation(SIG_P, f'{label}: "{text}" fails: {detail}', {'kind': 'gmrf-step', 'n': 2, 'values': vals, 'focus': 'hastings'})
                    done = True
                    break
            if done:
                return
            tr.inconc(f'{label}: "{text}" {"refuted by the solver" if st == "refuted" else "undecided"} and the concrete replay found no disagreement')
