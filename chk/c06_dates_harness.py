"""C06 / sampling dates -> leaf heights: CrossHair (PEP316) harnesses.

Executed symbolically (the real code of /repo/torchtree/evolution/tree_model.py):
    TimeTreeModel.update_leaf_heights   (bound method of a real TimeTreeModel built from JSON)
    initialize_dates_from_taxa          (on the real dendropy tree produced by parse_tree / setup_indexes)
    setup_dates                         (dates parsed from taxon names  name_<date>)
    heights_from_branch_lengths         (dates + newick branch lengths -> internal heights)

Symbolic inputs
    d0..d{n-1} : NUM   date of taxon t_i.  C06D_MODE=float: NUM = float, any real number in [0, DMAX]
                       (CrossHair's real-number model of float, see chk/c06_dates_xh.py; it coincides with
                       float64 arithmetic whenever the dates are multiples of 0.25, 1/365.25-free grids etc.
                       that float64 adds/subtracts exactly).  C06D_MODE=int: NUM = int, dates are Python
                       ints 0..DMAX as they come out of a JSON file (2000, 2003, ...)
    k : int            which newick string (tip order x ordered shape) the tree was parsed from
    b0..b3 : float     branch lengths of the newick tree, reals in [0, BMAX] (heights_from_branch_lengths)
    e0..e2 : int       index into NAME_VALUES, the date string written into the taxon name (setup_dates)
Concrete: the parse of the enumerated newick strings (dendropy, parse_tree, setup_indexes, TimeTreeModel
constructor) happens once at import with the real code, outside the symbolic execution.

C boundary stub (only when C06D_ACTIVE=1, i.e. inside the CrossHair subprocess): the name `torch` in the
tree_model module namespace is a proxy whose `tensor(x)` returns the Python list x unchanged and whose
`empty(n)` returns [None]*n; everything else is forwarded to the real torch.

Every function has a `_twin` with the same precondition and body and a post that must be REFUTED
(reachability / non-vacuity).  Only `Exception` is caught anywhere in this file (in fact nothing is).
"""
from __future__ import annotations

import os as _os

ACTIVE = _os.environ.get('C06D_ACTIVE') == '1'
MODE = _os.environ.get('C06D_MODE', 'float')
NUM = float if MODE == 'float' else int
DMAX = 1000000
BMAX = 1000


def name_values(tier):
    """setup_dates: the date strings that may follow the last '_' of a taxon name (symbolic index per taxon)"""
    return ['0', '1.5', '2000'] if tier == 'quick' else ['0', '0.0', '1.5', '2000', '2000.25']


NAME_VALUES = name_values(_os.environ.get('C06D_TIER', 'quick'))
KLO = int(_os.environ.get('C06D_KLO', '0'))
KHI = int(_os.environ.get('C06D_KHI', '1000000'))
TIER = _os.environ.get('C06D_TIER', 'quick')
EPS = 1.0e-6  # default of heights_from_branch_lengths
BL3 = [0.0, 2.5, 1.0e-7]  # fixed newick lengths 2..4 (post-order) of the hfb3 condition: below eps, above eps


# ------------------------------------------------------------------ enumerated newick strings
def _shapes(labels):
    """all ordered binary shapes over the given left-to-right leaf sequence (nested tuples)"""
    if len(labels) == 1:
        return [labels[0]]
    out = []
    for i in range(1, len(labels)):
        for a in _shapes(labels[:i]):
            for b in _shapes(labels[i:]):
                out.append((a, b))
    return out


def _perms(xs):
    if len(xs) <= 1:
        return [list(xs)]
    out = []
    for i in range(len(xs)):
        for p in _perms(xs[:i] + xs[i + 1:]):
            out.append([xs[i]] + p)
    return out


def ordered_trees(n):
    """every (tip order, ordered shape) pair: n! * Catalan(n-1) nested tuples of taxon positions
    (12 for n = 3, 120 for n = 4); index 0 is the caterpillar (t0,(t1,(t2..))) in Taxa order"""
    out = []
    for p in _perms(list(range(n))):
        out.extend(_shapes(p))
    return out


def newick_of(t, names=None, lengths=None):
    """lengths: optional list consumed in post-order (one per non-root node)"""
    it = iter(lengths) if lengths is not None else None

    def rec(x, root):
        if isinstance(x, tuple):
            s = '(' + rec(x[0], False) + ',' + rec(x[1], False) + ')'
        else:
            s = names[x] if names else f't{x}'
        if it is not None and not root:
            s += ':' + repr(float(next(it)))
        return s

    return rec(t, True) + ';'


def selection(n, tier):
    """indices into ordered_trees(n) that form the range of the symbolic choice k"""
    ts = ordered_trees(n)
    if n <= 3 or tier == 'all':
        return list(range(len(ts)))
    if tier == 'thorough':
        # n = 4: every one of the 4! tip orders (ordered shape rotating with the order) plus all 5 ordered
        # shapes for the Taxa order and for the reversed order: 32 of the 120 pairs
        return sorted(set([5 * p + (p % 5) for p in range(24)] + list(range(5)) + list(range(115, 120))))
    # quick, n = 4: Taxa order and 7 other tip orders spread over the 5 ordered shapes
    return [0, 7, 31, 44, 58, 73, 96, 119]


TREES = {n: [ordered_trees(n)[i] for i in selection(n, TIER)] for n in (3, 4)}


def taxa_spec(n, dates=None, names=None):
    return {'id': 'taxa', 'type': 'Taxa',
            'taxa': [{'id': (names[i] if names else f't{i}'), 'type': 'Taxon',
                      'attributes': {'date': (dates[i] if dates is not None else 0.0)}} for i in range(n)]}


def tree_spec(t, n, dates=None, postorder=False, lengths=None, names=None):
    js = {'id': 'tree', 'type': 'TimeTreeModel', 'newick': newick_of(t, names, lengths),
          'internal_heights': {'id': 'tree.heights', 'type': 'Parameter', 'tensor': [1.0 + i for i in range(n - 1)]},
          'taxa': taxa_spec(n, dates, names)}
    if postorder:
        js['use_postorder_indices'] = True
    if lengths is not None:
        js['keep_branch_lengths'] = True
    return js


def build_model(t, n, dates=None, postorder=False, lengths=None):
    """the real TimeTreeModel through the real JSON path (process_object -> TimeTreeModel.from_json)"""
    import torchtree.evolution.taxa  # noqa: F401  (class registration)
    import torchtree.evolution.tree_model  # noqa: F401
    from torchtree.core.utils import process_object

    return process_object(tree_spec(t, n, dates, postorder, lengths), {})


# ------------------------------------------------------------------ set-up inside the CrossHair subprocess
MODELS = {}  # (n, use_postorder_indices) -> list of real TimeTreeModel, one per enumerated newick
LEAVES = {}  # same keys -> per model: [(position of the tip's taxon in Taxa, dendropy leaf node)] in leaf_node_iter order
TM = None


class _TorchProxy:
    """stands in for the name `torch` inside torchtree.evolution.tree_model during symbolic execution"""

    def __init__(self, real):
        self._real = real

    def tensor(self, data, *a, **kw):
        return data

    def empty(self, n, *a, **kw):
        return [None] * n

    def __getattr__(self, name):
        return getattr(self._real, name)


def _activate():
    global TM
    import torch
    import torchtree.evolution.tree_model as tm

    torch.set_default_dtype(torch.float64)
    TM = tm
    for n in (3, 4):
        for po in (False, True):
            MODELS[(n, po)] = [build_model(t, n, None, po) for t in TREES[n]]
            LEAVES[(n, po)] = [[(int(node.taxon.label[1:]), node) for node in m.tree.leaf_node_iter()] for m in MODELS[(n, po)]]
    tm.torch = _TorchProxy(torch)


if ACTIVE:
    _activate()


# ------------------------------------------------------------------ domain / oracle (independent of the code under analysis)
def dom(*d) -> bool:
    for x in d:
        if not (0 <= x <= DMAX):
            return False
    return True


def bdom(*b) -> bool:
    for x in b:
        if not (0 <= x <= BMAX):
            return False
    return True


def edom(*e) -> bool:
    for x in e:
        if not (0 <= x < len(NAME_VALUES)):
            return False
    return True


def kdom(k, n) -> bool:
    return 0 <= k < len(TREES[n]) and KLO <= k < KHI


def lo_hi(d):
    lo = hi = d[0]
    for x in d[1:]:
        if x < lo:
            lo = x
        if hi < x:
            hi = x
    return lo, hi


def is_ages(*d) -> bool:
    """documented convention (`time starts at 0`): the smallest date is 0"""
    return lo_hi(d)[0] == 0


def oracle(d):
    """documented convention: min(date) == 0 -> the dates are ages (= heights);
    otherwise calendar time -> height = most recent date - date"""
    lo, hi = lo_hi(d)
    if lo == 0:
        return list(d)
    return [hi - x for x in d]


# ------------------------------------------------------------------ posts (also used for the concrete replays)
def p_nonneg_zero(h) -> bool:
    """(1) no negative height; the most recent sample sits at height exactly 0"""
    some_zero = False
    for x in h:
        if not (x >= 0):
            return False
        if x == 0:
            some_zero = True
    return some_zero


def p_equal(h, want) -> bool:
    if len(h) != len(want):
        return False
    for a, b in zip(h, want):
        if not (a == b):
            return False
    return True


def p_order(d, h) -> bool:
    """(2) calendar dates: later date <=> smaller height; ages: order kept; ties <=> ties"""
    ages = lo_hi(d)[0] == 0
    n = len(d)
    if len(h) != n:
        return False
    for i in range(n):
        for j in range(n):
            if i == j:
                continue
            if (d[i] == d[j]) != (h[i] == h[j]):
                return False
            if ages:
                if (d[i] < d[j]) != (h[i] < h[j]):
                    return False
            else:
                if (d[i] < d[j]) != (h[i] > h[j]):
                    return False
    return True


def p_tips(d, res, need_index=True) -> bool:
    """(3)+(4) res = (sampling_times as produced by update_leaf_heights, rows (taxon position, node.index,
    node.date) as left by initialize_dates_from_taxa).  For every tip: sampling_times[node.index] - what every
    consumer of the tree model reads for that tip - equals node.date (the two routines agree) and equals the
    height the convention gives to the tip's OWN taxon; with need_index also node.index == position in Taxa."""
    heights, rows = res
    want = oracle(d)
    if len(rows) != len(d) or len(heights) != len(d):
        return False
    for pos, idx, date in rows:
        if need_index and idx != pos:
            return False
        if not (heights[idx] == date):
            return False
        if not (date == want[pos]):
            return False
    return True


def p_agree(res) -> bool:
    """(4) alone, for the replay classification: node.date == sampling_times[node.index]"""
    heights, rows = res
    for pos, idx, date in rows:
        if not (heights[idx] == date):
            return False
    return True


def p_own(d, res) -> bool:
    """(3) alone, for the replay classification: sampling_times[node.index] == height of the tip's own taxon"""
    heights, rows = res
    want = oracle(d)
    for pos, idx, date in rows:
        if not (heights[idx] == want[pos]):
            return False
    return True


def p_all_zero(res) -> bool:
    heights, rows = res
    for x in heights:
        if not (x == 0):
            return False
    for pos, idx, date in rows:
        if not (date == 0):
            return False
    return True


def p_named(d, res) -> bool:
    """setup_dates: rows = (position, node.date, node.original_date); oldest = max - min"""
    oldest, rows = res
    want = oracle(d)
    lo, hi = lo_hi(d)
    if not (oldest == hi - lo):
        return False
    if len(rows) != len(d):
        return False
    for pos, date, orig in rows:
        if not (date == want[pos]) or not (orig == d[pos]):
            return False
    return True


def p_hfb(t, d, b, res, tol=0.0) -> bool:
    """heights_from_branch_lengths: res = internal heights in index order n..2n-2 (post-order numbering of
    setup_indexes), b = newick lengths in post-order.  Every parent is strictly older than each child
    (tips at oracle(d)), and its height is the smallest one that is `max(eps, newick length)` above each
    child."""
    n = len(d)
    if len(res) != n - 1:
        return False
    want = oracle(d)
    st = {'next': n, 'j': 0, 'ok': True}

    def rec(x, root):
        if isinstance(x, tuple):
            kids = [rec(x[0], False), rec(x[1], False)]
            mine = res[st['next'] - n]
            st['next'] += 1
            best = None
            for hc, lc in kids:
                step = lc if lc > EPS else EPS
                if not (mine > hc):
                    st['ok'] = False
                cand = hc + step
                if best is None or best < cand:
                    best = cand
            if tol == 0.0:
                if not (mine == best):
                    st['ok'] = False
            elif not (abs(mine - best) <= tol):
                st['ok'] = False
            h = mine
        else:
            h = want[x]
        if root:
            return (h, None)
        ln = b[st['j']]
        st['j'] += 1
        return (h, ln)

    rec(t, True)
    return st['ok']


def hetero(h) -> bool:
    """used by the twins: at least two different values"""
    for x in h:
        if x != h[0]:
            return True
    return False


def col(rows, j):
    return [r[j] for r in rows]


# ------------------------------------------------------------------ bodies
def _set_dates(m, d):
    for i, x in enumerate(d):
        m._taxa[i]['date'] = x


def upd(d, k=0, po=False):
    """real TimeTreeModel.update_leaf_heights on the real model number k"""
    m = MODELS[(len(d), po)][k]
    _set_dates(m, d)
    m.sampling_times = None
    m.update_leaf_heights()
    out = m.sampling_times
    m.sampling_times = None
    return list(out)


def init(d, k, po=False):
    """real initialize_dates_from_taxa on the real parsed tree number k"""
    m = MODELS[(len(d), po)][k]
    leaves = LEAVES[(len(d), po)][k]
    _set_dates(m, d)
    for pos, node in leaves:
        node.date = None
    TM.initialize_dates_from_taxa(m.tree, m._taxa)
    return [(pos, node.index, node.date) for pos, node in leaves]


def both(d, k, po=False):
    return (upd(d, k, po), init(d, k, po))


NAMES = [[f't{i}_{v}' for v in NAME_VALUES] for i in range(4)]


def name_dates(e):
    return [float(NAME_VALUES[i]) for i in e]


def named(e, k):
    """real setup_dates(tree, heterochronous=True) on tree k whose tips are renamed t<i>_<NAME_VALUES[e_i]>"""
    m = MODELS[(len(e), False)][k]
    leaves = LEAVES[(len(e), False)][k]
    try:
        for pos, node in leaves:
            node.taxon.label = NAMES[pos][e[pos]]
        oldest = TM.setup_dates(m.tree, True)
        rows = [(pos, node.date, node.original_date) for pos, node in leaves]
    finally:
        for pos, node in leaves:
            node.taxon.label = 't' + str(pos)
    return (oldest, rows)


def hfb(d, b, k):
    """real initialize_dates_from_taxa + heights_from_branch_lengths on tree k with newick lengths b (post-order)"""
    m = MODELS[(len(d), False)][k]
    _set_dates(m, d)
    TM.initialize_dates_from_taxa(m.tree, m._taxa)
    j = 0
    for node in m.tree.postorder_node_iter():
        if node.parent_node is not None:
            node.edge_length = b[j]
            j += 1
    return list(TM.heights_from_branch_lengths(m.tree))


# ================================================================== conditions, 3 taxa
def nonneg3(d0: NUM, d1: NUM, d2: NUM):
    """
    (1) heights >= 0 and some tip at height exactly 0, both conventions.
    pre: dom(d0, d1, d2)
    post: p_nonneg_zero(__return__)
    """
    return upd([d0, d1, d2])


def nonneg3_twin(d0: NUM, d1: NUM, d2: NUM):
    """
    pre: dom(d0, d1, d2)
    post: not hetero(__return__)
    """
    return upd([d0, d1, d2])


def ages3(d0: NUM, d1: NUM, d2: NUM):
    """
    (2) smallest date 0: the dates are the heights.
    pre: dom(d0, d1, d2) and is_ages(d0, d1, d2)
    post: p_equal(__return__, [d0, d1, d2])
    """
    return upd([d0, d1, d2])


def ages3_twin(d0: NUM, d1: NUM, d2: NUM):
    """
    pre: dom(d0, d1, d2) and is_ages(d0, d1, d2)
    post: not hetero(__return__)
    """
    return upd([d0, d1, d2])


def calendar3(d0: NUM, d1: NUM, d2: NUM):
    """
    (2) smallest date > 0: height = most recent date - date.
    pre: dom(d0, d1, d2) and not is_ages(d0, d1, d2)
    post: p_equal(__return__, oracle([d0, d1, d2]))
    """
    return upd([d0, d1, d2])


def calendar3_twin(d0: NUM, d1: NUM, d2: NUM):
    """
    pre: dom(d0, d1, d2) and not is_ages(d0, d1, d2)
    post: not hetero(__return__)
    """
    return upd([d0, d1, d2])


def order3(d0: NUM, d1: NUM, d2: NUM):
    """
    (2) order reversal (calendar) / order kept (ages); ties in dates <=> ties in heights.
    pre: dom(d0, d1, d2)
    post: p_order([d0, d1, d2], __return__)
    """
    return upd([d0, d1, d2])


def order3_twin(d0: NUM, d1: NUM, d2: NUM):
    """
    pre: dom(d0, d1, d2)
    post: not hetero(__return__)
    """
    return upd([d0, d1, d2])


def conv3(d0: NUM, d1: NUM, d2: NUM):
    """
    (1)+(2) in one exploration: heights == convention oracle, >= 0 with a zero, order / ties reflected.
    pre: dom(d0, d1, d2)
    post: p_equal(__return__, oracle([d0, d1, d2])) and p_nonneg_zero(__return__) and p_order([d0, d1, d2], __return__)
    """
    return upd([d0, d1, d2])


def conv3_twin(d0: NUM, d1: NUM, d2: NUM):
    """
    pre: dom(d0, d1, d2)
    post: not hetero(__return__)
    """
    return upd([d0, d1, d2])


def tips3(d0: NUM, d1: NUM, d2: NUM, k: int):
    """
    (3)+(4) tip of taxon i: node.index == i, node.date == sampling_times[i] == height of taxon i, for every enumerated newick order.
    pre: kdom(k, 3) and dom(d0, d1, d2)
    post: p_tips([d0, d1, d2], __return__)
    """
    return both([d0, d1, d2], k)


def tips3_twin(d0: NUM, d1: NUM, d2: NUM, k: int):
    """
    pre: kdom(k, 3) and dom(d0, d1, d2)
    post: not (k >= KLO and hetero(__return__[0]))
    """
    return both([d0, d1, d2], k)


def postorder3(d0: NUM, d1: NUM, d2: NUM, k: int):
    """
    (3)+(4) with the parse option use_postorder_indices=True: the tip still sits at the height of its own taxon.
    pre: kdom(k, 3) and dom(d0, d1, d2)
    post: p_tips([d0, d1, d2], __return__, False)
    """
    return both([d0, d1, d2], k, True)


def postorder3_twin(d0: NUM, d1: NUM, d2: NUM, k: int):
    """
    pre: kdom(k, 3) and dom(d0, d1, d2)
    post: not (k >= KLO and hetero(__return__[0]))
    """
    return both([d0, d1, d2], k, True)


def iso3(c: NUM, k: int):
    """
    (5) isochronous calendar dates (all equal, non-zero, e.g. 2000): every height is 0.
    pre: kdom(k, 3) and 0 < c <= DMAX
    post: p_all_zero(__return__)
    """
    return both([c, c, c], k)


def iso3_twin(c: NUM, k: int):
    """
    pre: kdom(k, 3) and 0 < c <= DMAX
    post: not (c == 2000 and k >= KLO and len(__return__[1]) == 3)
    """
    return both([c, c, c], k)


def shift3(d0: NUM, d1: NUM, d2: NUM, s: NUM):
    """
    (5) calendar dates: only date differences matter (same heights after shifting every date by s > 0).
    pre: dom(d0, d1, d2) and not is_ages(d0, d1, d2) and 0 < s <= DMAX
    post: p_equal(__return__[0], __return__[1])
    """
    return (upd([d0, d1, d2]), upd([d0 + s, d1 + s, d2 + s]))


def shift3_twin(d0: NUM, d1: NUM, d2: NUM, s: NUM):
    """
    pre: dom(d0, d1, d2) and not is_ages(d0, d1, d2) and 0 < s <= DMAX
    post: not hetero(__return__[1])
    """
    return (upd([d0, d1, d2]), upd([d0 + s, d1 + s, d2 + s]))


def named3(e0: int, e1: int, e2: int, k: int):
    """
    setup_dates: dates written in the taxon names t<i>_<date> (date = NAME_VALUES[e_i]); same convention, oldest = max - min.
    pre: kdom(k, 3) and edom(e0, e1, e2)
    post: p_named(name_dates([e0, e1, e2]), __return__)
    """
    return named([e0, e1, e2], k)


def named3_twin(e0: int, e1: int, e2: int, k: int):
    """
    pre: kdom(k, 3) and edom(e0, e1, e2)
    post: not (k >= KLO and __return__[0] > 0 and hetero(col(__return__[1], 1)))
    """
    return named([e0, e1, e2], k)


def hfb3(d0: NUM, d1: NUM, d2: NUM, b0: float, k: int):
    """
    heights_from_branch_lengths (dates + newick lengths -> internal heights): parents strictly older than
    children, tips at their sampling time; symbolic dates, one symbolic and three fixed newick lengths.
    pre: kdom(k, 3) and dom(d0, d1, d2) and bdom(b0)
    post: p_hfb(TREES[3][k], [d0, d1, d2], [b0] + BL3, __return__)
    """
    return hfb([d0, d1, d2], [b0] + BL3, k)


def hfb3_twin(d0: NUM, d1: NUM, d2: NUM, b0: float, k: int):
    """
    pre: kdom(k, 3) and dom(d0, d1, d2) and bdom(b0)
    post: not (__return__[1] > 3 and d0 > d1 > d2 > 0 and b0 > 1)
    """
    return hfb([d0, d1, d2], [b0] + BL3, k)


# ================================================================== conditions, 4 taxa
def nonneg4(d0: NUM, d1: NUM, d2: NUM, d3: NUM):
    """
    (1) heights >= 0 and some tip at height exactly 0, both conventions.
    pre: dom(d0, d1, d2, d3)
    post: p_nonneg_zero(__return__)
    """
    return upd([d0, d1, d2, d3])


def nonneg4_twin(d0: NUM, d1: NUM, d2: NUM, d3: NUM):
    """
    pre: dom(d0, d1, d2, d3)
    post: not hetero(__return__)
    """
    return upd([d0, d1, d2, d3])


def ages4(d0: NUM, d1: NUM, d2: NUM, d3: NUM):
    """
    (2) smallest date 0: the dates are the heights.
    pre: dom(d0, d1, d2, d3) and is_ages(d0, d1, d2, d3)
    post: p_equal(__return__, [d0, d1, d2, d3])
    """
    return upd([d0, d1, d2, d3])


def ages4_twin(d0: NUM, d1: NUM, d2: NUM, d3: NUM):
    """
    pre: dom(d0, d1, d2, d3) and is_ages(d0, d1, d2, d3)
    post: not hetero(__return__)
    """
    return upd([d0, d1, d2, d3])


def calendar4(d0: NUM, d1: NUM, d2: NUM, d3: NUM):
    """
    (2) smallest date > 0: height = most recent date - date.
    pre: dom(d0, d1, d2, d3) and not is_ages(d0, d1, d2, d3)
    post: p_equal(__return__, oracle([d0, d1, d2, d3]))
    """
    return upd([d0, d1, d2, d3])


def calendar4_twin(d0: NUM, d1: NUM, d2: NUM, d3: NUM):
    """
    pre: dom(d0, d1, d2, d3) and not is_ages(d0, d1, d2, d3)
    post: not hetero(__return__)
    """
    return upd([d0, d1, d2, d3])


def order4(d0: NUM, d1: NUM, d2: NUM, d3: NUM):
    """
    (2) order reversal (calendar) / order kept (ages); ties in dates <=> ties in heights.
    pre: dom(d0, d1, d2, d3)
    post: p_order([d0, d1, d2, d3], __return__)
    """
    return upd([d0, d1, d2, d3])


def order4_twin(d0: NUM, d1: NUM, d2: NUM, d3: NUM):
    """
    pre: dom(d0, d1, d2, d3)
    post: not hetero(__return__)
    """
    return upd([d0, d1, d2, d3])


def conv4(d0: NUM, d1: NUM, d2: NUM, d3: NUM):
    """
    (1)+(2) in one exploration: heights == convention oracle, >= 0 with a zero, order / ties reflected.
    pre: dom(d0, d1, d2, d3)
    post: p_equal(__return__, oracle([d0, d1, d2, d3])) and p_nonneg_zero(__return__) and p_order([d0, d1, d2, d3], __return__)
    """
    return upd([d0, d1, d2, d3])


def conv4_twin(d0: NUM, d1: NUM, d2: NUM, d3: NUM):
    """
    pre: dom(d0, d1, d2, d3)
    post: not hetero(__return__)
    """
    return upd([d0, d1, d2, d3])


def tips4(d0: NUM, d1: NUM, d2: NUM, d3: NUM, k: int):
    """
    (3)+(4) tip of taxon i: node.index == i, node.date == sampling_times[i] == height of taxon i, for every enumerated newick order.
    pre: kdom(k, 4) and dom(d0, d1, d2, d3)
    post: p_tips([d0, d1, d2, d3], __return__)
    """
    return both([d0, d1, d2, d3], k)


def tips4_twin(d0: NUM, d1: NUM, d2: NUM, d3: NUM, k: int):
    """
    pre: kdom(k, 4) and dom(d0, d1, d2, d3)
    post: not (k >= KLO and hetero(__return__[0]))
    """
    return both([d0, d1, d2, d3], k)


def postorder4(d0: NUM, d1: NUM, d2: NUM, d3: NUM, k: int):
    """
    (3)+(4) with the parse option use_postorder_indices=True: the tip still sits at the height of its own taxon.
    pre: kdom(k, 4) and dom(d0, d1, d2, d3)
    post: p_tips([d0, d1, d2, d3], __return__, False)
    """
    return both([d0, d1, d2, d3], k, True)


def postorder4_twin(d0: NUM, d1: NUM, d2: NUM, d3: NUM, k: int):
    """
    pre: kdom(k, 4) and dom(d0, d1, d2, d3)
    post: not (k >= KLO and hetero(__return__[0]))
    """
    return both([d0, d1, d2, d3], k, True)


def iso4(c: NUM, k: int):
    """
    (5) isochronous calendar dates (all equal, non-zero, e.g. 2000): every height is 0.
    pre: kdom(k, 4) and 0 < c <= DMAX
    post: p_all_zero(__return__)
    """
    return both([c, c, c, c], k)


def iso4_twin(c: NUM, k: int):
    """
    pre: kdom(k, 4) and 0 < c <= DMAX
    post: not (c == 2000 and k >= KLO and len(__return__[1]) == 4)
    """
    return both([c, c, c, c], k)


def shift4(d0: NUM, d1: NUM, d2: NUM, d3: NUM, s: NUM):
    """
    (5) calendar dates: only date differences matter (same heights after shifting every date by s > 0).
    pre: dom(d0, d1, d2, d3) and not is_ages(d0, d1, d2, d3) and 0 < s <= DMAX
    post: p_equal(__return__[0], __return__[1])
    """
    return (upd([d0, d1, d2, d3]), upd([d0 + s, d1 + s, d2 + s, d3 + s]))


def shift4_twin(d0: NUM, d1: NUM, d2: NUM, d3: NUM, s: NUM):
    """
    pre: dom(d0, d1, d2, d3) and not is_ages(d0, d1, d2, d3) and 0 < s <= DMAX
    post: not hetero(__return__[1])
    """
    return (upd([d0, d1, d2, d3]), upd([d0 + s, d1 + s, d2 + s, d3 + s]))
