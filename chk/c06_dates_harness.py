"""C06 / sampling dates -> leaf heights: CrossHair (PEP316) harnesses.

Executed symbolically (the real code of /repo/torchtree/evolution/tree_model.py):
    TimeTreeModel.update_leaf_heights   (bound method of a real TimeTreeModel built from JSON)
    initialize_dates_from_taxa          (on the real dendropy tree produced by parse_tree/setup_indexes)
    setup_dates                         (dates parsed from taxon names  name_<date>)
    heights_from_branch_lengths         (dates + newick branch lengths -> internal heights)

Symbolic inputs
    q0..q{n-1} : int   date of taxon t_i is  q_i * STEP.  C06D_MODE=quarter: STEP = 0.25 (a float: every
                       multiple of 0.25 in [0, 1e6], real arithmetic = float64 arithmetic there),
                       C06D_MODE=int: STEP = 1 (dates are Python ints as they come out of a JSON file: 2000)
    k : int            which newick string (tip order x shape) the tree was parsed from
    b0..           : int   branch lengths of the newick tree, b_j * 0.25 (heights_from_branch_lengths only)
Concrete: the parse of the enumerated newick strings (dendropy, parse_tree, setup_indexes, TimeTreeModel
constructor) happens once at import with the real code, outside the symbolic execution.

C boundary stub (only when C06D_ACTIVE=1, i.e. inside the CrossHair subprocess): the name `torch` in the
tree_model module namespace is a proxy whose `tensor(x)` returns the Python list x unchanged and whose
`empty(n)` returns [None]*n; everything else is forwarded to the real torch.

Every function has a `_twin` with the same precondition and body and a post that must be REFUTED
(reachability / non-vacuity).  Only `Exception` is caught anywhere in this file.
"""
from __future__ import annotations

import os as _os

ACTIVE = _os.environ.get('C06D_ACTIVE') == '1'
MODE = _os.environ.get('C06D_MODE', 'quarter')
STEP = 0.25 if MODE == 'quarter' else 1
QMAX = 4_000_000 if MODE == 'quarter' else 1_000_000  # dates <= 1e6
BSTEP = 0.25
BMAX = 400  # branch lengths <= 100
NAME_DATE_MAX = int(_os.environ.get('C06D_NAMEMAX', '3'))  # setup_dates: dates 0..NAME_DATE_MAX written in the names
KLO = int(_os.environ.get('C06D_KLO', '0'))
KHI = int(_os.environ.get('C06D_KHI', '1000000'))
EPS = 1.0e-6


# ------------------------------------------------------------------ enumerated newick strings
def _shapes(labels):
    """all ordered binary shapes over the given left-to-right leaf sequence (nested tuples)"""
    if len(labels) == 1:
        return [labels[0]]
    out = []
    for i in range(1, len(labels)):
        for a in _shapes(labels[:i]):
            for b in _shapes(labels[i:]):
                out.append((a, b))
    return out


def _perms(xs):
    if len(xs) <= 1:
        return [list(xs)]
    out = []
    for i in range(len(xs)):
        for p in _perms(xs[:i] + xs[i + 1:]):
            out.append([xs[i]] + p)
    return out


def ordered_trees(n):
    """every (tip order, ordered shape) pair: n! * Catalan(n-1) nested tuples of taxon positions"""
    out = []
    for p in _perms(list(range(n))):
        out.extend(_shapes(p))
    return out


def tree_leaves(t):
    if isinstance(t, tuple):
        return tree_leaves(t[0]) + tree_leaves(t[1])
    return [t]


def newick_of(t, names=None, lengths=None):
    """lengths: optional list consumed in post-order (one per non-root node)"""
    it = iter(lengths) if lengths is not None else None

    def rec(x, root):
        if isinstance(x, tuple):
            s = '(' + rec(x[0], False) + ',' + rec(x[1], False) + ')'
        else:
            s = names[x] if names else f't{x}'
        if it is not None and not root:
            s += ':' + repr(float(next(it)))
        return s

    return rec(t, True) + ';'


def selection(n, tier):
    """indices into ordered_trees(n) used as the range of the symbolic choice k"""
    ts = ordered_trees(n)
    if n <= 3 or tier == 'thorough':
        return list(range(len(ts)))
    # quick, n = 4: identity order and 7 other tip orders spread over the 5 shapes
    want = [0, 7, 31, 44, 58, 73, 96, 119]
    return [i for i in want if i < len(ts)]


TIER = _os.environ.get('C06D_TIER', 'quick')
TREES = {n: [ordered_trees(n)[i] for i in selection(n, TIER)] for n in (3, 4)}


def taxa_spec(n, dates=None, names=None):
    return {'id': 'taxa', 'type': 'Taxa',
            'taxa': [{'id': (names[i] if names else f't{i}'), 'type': 'Taxon',
                      'attributes': {'date': (dates[i] if dates is not None else 0.0)}} for i in range(n)]}


def tree_spec(t, n, dates=None, postorder=False, lengths=None, names=None):
    js = {'id': 'tree', 'type': 'TimeTreeModel', 'newick': newick_of(t, names, lengths),
          'internal_heights': {'id': 'tree.heights', 'type': 'Parameter', 'tensor': [1.0 + i for i in range(n - 1)]},
          'taxa': taxa_spec(n, dates, names)}
    if postorder:
        js['use_postorder_indices'] = True
    if lengths is not None:
        js['keep_branch_lengths'] = True
    return js


def build_model(t, n, dates=None, postorder=False, lengths=None):
    """the real TimeTreeModel through the real JSON path"""
    import torchtree.evolution.taxa  # noqa: F401  (class registration)
    import torchtree.evolution.tree_model  # noqa: F401
    from torchtree.core.utils import process_object

    return process_object(tree_spec(t, n, dates, postorder, lengths), {})


# ------------------------------------------------------------------ set-up inside the CrossHair subprocess
MODELS = {}  # (n, postorder) -> list of real TimeTreeModel, one per enumerated newick
NAMED = {}  # n -> list of (dendropy tree with leaves named t<i>_<date>, label table)
TM = None


class _TorchProxy:
    """stands in for the name `torch` inside torchtree.evolution.tree_model during symbolic execution"""

    def __init__(self, real):
        self._real = real

    def tensor(self, data, *a, **kw):
        return data

    def empty(self, n, *a, **kw):
        return [None] * n

    def __getattr__(self, name):
        return getattr(self._real, name)


def _activate():
    global TM
    import torch
    import torchtree.evolution.tree_model as tm

    torch.set_default_dtype(torch.float64)
    TM = tm
    for n in (3, 4):
        for po in (False, True):
            MODELS[(n, po)] = [build_model(t, n, None, po) for t in TREES[n]]
    tm.torch = _TorchProxy(torch)


if ACTIVE:
    _activate()


# ------------------------------------------------------------------ domain / oracle (independent of the code under analysis)
def dates_of(q):
    return [x * STEP for x in q]


def dom(*q) -> bool:
    for x in q:
        if not (0 <= x <= QMAX):
            return False
    return True


def kdom(k, n) -> bool:
    return 0 <= k < len(TREES[n]) and KLO <= k < KHI


def lo_hi(d):
    lo = hi = d[0]
    for x in d[1:]:
        if x < lo:
            lo = x
        if hi < x:
            hi = x
    return lo, hi


def is_ages(*q) -> bool:
    """documented convention: `time starts at 0` when the smallest date is 0"""
    return lo_hi(q)[0] == 0


def oracle(d):
    """documented convention: min(date) == 0 -> the dates are ages (= heights);
    otherwise calendar time -> height = most recent date - date"""
    lo, hi = lo_hi(d)
    if lo == 0:
        return list(d)
    return [hi - x for x in d]


# ------------------------------------------------------------------ posts (also used for the concrete replays)
def p_nonneg_zero(h) -> bool:
    """(1) no negative height; the most recent sample sits at height exactly 0"""
    some_zero = False
    for x in h:
        if not (x >= 0):
            return False
        if x == 0:
            some_zero = True
    return some_zero


def p_equal(h, want) -> bool:
    if len(h) != len(want):
        return False
    for a, b in zip(h, want):
        if not (a == b):
            return False
    return True


def p_order(d, h) -> bool:
    """(2) calendar dates: later date <=> smaller height; ages: order kept; ties <=> ties"""
    ages = lo_hi(d)[0] == 0
    n = len(d)
    for i in range(n):
        for j in range(n):
            if i == j:
                continue
            if (d[i] == d[j]) != (h[i] == h[j]):
                return False
            if ages:
                if (d[i] < d[j]) != (h[i] < h[j]):
                    return False
            else:
                if (d[i] < d[j]) != (h[i] > h[j]):
                    return False
    return True


def p_position(d, rows) -> bool:
    """(3) rows = (position of the tip's taxon in Taxa, node.index, node.date): the tip of taxon i carries
    index i and the height the convention gives to taxon i, whatever the tip order in the newick string"""
    want = oracle(d)
    if len(rows) != len(d):
        return False
    for pos, idx, date in rows:
        if idx != pos:
            return False
        if not (date == want[pos]):
            return False
    return True


def p_tip_at_own_time(d, both) -> bool:
    """(3') heights[node.index] is what every consumer reads for that tip: it has to be the height of the
    tip's own taxon (no claim on which index a tip gets)"""
    heights, rows = both
    want = oracle(d)
    for pos, idx, date in rows:
        if not (heights[idx] == want[pos]):
            return False
        if not (date == want[pos]):
            return False
    return True


def p_agree(both) -> bool:
    """(4) update_leaf_heights and initialize_dates_from_taxa agree: node.date == leaf_heights[node.index]"""
    heights, rows = both
    if len(rows) != len(heights):
        return False
    for pos, idx, date in rows:
        if not (heights[idx] == date):
            return False
    return True


def p_all_zero(both) -> bool:
    heights, rows = both
    for x in heights:
        if not (x == 0):
            return False
    for pos, idx, date in rows:
        if not (date == 0):
            return False
    return True


def p_named(d, res) -> bool:
    """setup_dates: rows = (position, node.date, node.original_date); oldest = max - min"""
    oldest, rows = res
    want = oracle(d)
    lo, hi = lo_hi(d)
    if not (oldest == hi - lo):
        return False
    for pos, date, orig in rows:
        if not (date == want[pos]) or not (orig == d[pos]):
            return False
    return True


def p_hfb(t, d, b, res) -> bool:
    """heights_from_branch_lengths: res = internal heights in index order n..2n-2.  Every parent is strictly
    older than each child, tips sit at oracle(d), and the height is the smallest one compatible with
    `at least max(eps, newick length) above each child`."""
    n = len(d)
    if len(res) != n - 1:
        return False
    want = oracle(d)
    pos = [0]
    nxt = [n]
    ok = [True]
    # same post-order numbering as setup_indexes: internal nodes n, n+1, ... in post-order; lengths b in post-order
    lengths = iter(b)

    def rec(x, root):
        if isinstance(x, tuple):
            hs = [rec(x[0], False), rec(x[1], False)]
            idx = nxt[0]
            nxt[0] += 1
            mine = res[idx - n]
            best = None
            for (hc, lc) in hs:
                step = lc if lc > EPS else EPS
                if not (mine > hc):
                    ok[0] = False
                if not (mine >= hc + step):
                    ok[0] = False
                if best is None or best < hc + step:
                    best = hc + step
            if not (mine == best):
                ok[0] = False
            h = mine
        else:
            h = want[x]
        ln = None if root else next(lengths)
        return (h, ln) if not root else (h, 0)

    rec(t, True)
    return ok[0]


def hetero(h) -> bool:
    """used by the twins: at least two different heights"""
    for x in h:
        if x != h[0]:
            return True
    return False


# ------------------------------------------------------------------ bodies
def _set_dates(m, d):
    for i, x in enumerate(d):
        m._taxa[i]['date'] = x


def upd(q, k=0, po=False):
    """real TimeTreeModel.update_leaf_heights on the real model number k"""
    d = dates_of(q)
    m = MODELS[(len(q), po)][k]
    _set_dates(m, d)
    m.sampling_times = None
    m.update_leaf_heights()
    out = m.sampling_times
    m.sampling_times = None
    return list(out)


def init(q, k, po=False):
    """real initialize_dates_from_taxa on the real parsed tree number k"""
    d = dates_of(q)
    m = MODELS[(len(q), po)][k]
    _set_dates(m, d)
    for node in m.tree.leaf_node_iter():
        node.date = None
    TM.initialize_dates_from_taxa(m.tree, m._taxa)
    rows = []
    for node in m.tree.leaf_node_iter():
        rows.append((int(node.taxon.label[1:]), node.index, node.date))
    return rows


def both(q, k, po=False):
    return (upd(q, k, po), init(q, k, po))


def named(e, k):
    """real setup_dates(tree, heterochronous=True) on tree k whose tips are renamed t<i>_<e_i>"""
    n = len(e)
    m = MODELS[(n, False)][k]
    old = []
    for node in m.tree.leaf_node_iter():
        old.append((node.taxon, node.taxon.label))
    try:
        for taxon, label in old:
            i = int(label[1:])
            taxon.label = 't' + str(i) + '_' + str(e[i])
        oldest = TM.setup_dates(m.tree, True)
        rows = []
        for (taxon, label), node in zip(old, m.tree.leaf_node_iter()):
            rows.append((int(label[1:]), node.date, node.original_date))
    finally:
        for taxon, label in old:
            taxon.label = label
    return (oldest, rows)


def hfb(q, b, k):
    """real initialize_dates_from_taxa + heights_from_branch_lengths on tree k with branch lengths b (post-order)"""
    n = len(q)
    d = dates_of(q)
    m = MODELS[(n, False)][k]
    _set_dates(m, d)
    TM.initialize_dates_from_taxa(m.tree, m._taxa)
    j = 0
    for node in m.tree.postorder_node_iter():
        if node.parent_node is not None:
            node.edge_length = b[j] * BSTEP
            j += 1
    return list(TM.heights_from_branch_lengths(m.tree))


def bdom(*b) -> bool:
    for x in b:
        if not (0 <= x <= BMAX):
            return False
    return True


def blens(*b):
    return [x * BSTEP for x in b]


def edom(*e) -> bool:
    for x in e:
        if not (0 <= x <= NAME_DATE_MAX):
            return False
    return True


# ================================================================== conditions, 3 taxa
def nonneg3(q0: int, q1: int, q2: int):
    """
    (1) heights >= 0 and some tip at height exactly 0, both conventions.
    pre: dom(q0, q1, q2)
    post: p_nonneg_zero(__return__)
    """
    return upd([q0, q1, q2])


def nonneg3_twin(q0: int, q1: int, q2: int):
    """
    pre: dom(q0, q1, q2)
    post: not hetero(__return__)
    """
    return upd([q0, q1, q2])


def ages3(q0: int, q1: int, q2: int):
    """
    (2) smallest date 0: the dates are the heights.
    pre: dom(q0, q1, q2) and is_ages(q0, q1, q2)
    post: p_equal(__return__, dates_of([q0, q1, q2]))
    """
    return upd([q0, q1, q2])


def ages3_twin(q0: int, q1: int, q2: int):
    """
    pre: dom(q0, q1, q2) and is_ages(q0, q1, q2)
    post: not hetero(__return__)
    """
    return upd([q0, q1, q2])


def calendar3(q0: int, q1: int, q2: int):
    """
    (2) smallest date > 0: height = most recent date - date.
    pre: dom(q0, q1, q2) and not is_ages(q0, q1, q2)
    post: p_equal(__return__, oracle(dates_of([q0, q1, q2])))
    """
    return upd([q0, q1, q2])


def calendar3_twin(q0: int, q1: int, q2: int):
    """
    pre: dom(q0, q1, q2) and not is_ages(q0, q1, q2)
    post: not hetero(__return__)
    """
    return upd([q0, q1, q2])


def order3(q0: int, q1: int, q2: int):
    """
    (2) order reversal (calendar) / order kept (ages); ties in dates <=> ties in heights.
    pre: dom(q0, q1, q2)
    post: p_order(dates_of([q0, q1, q2]), __return__)
    """
    return upd([q0, q1, q2])


def order3_twin(q0: int, q1: int, q2: int):
    """
    pre: dom(q0, q1, q2)
    post: not hetero(__return__)
    """
    return upd([q0, q1, q2])


def position3(q0: int, q1: int, q2: int, k: int):
    """
    (3) tip of taxon i: node.index == i and node.date == height of taxon i, for every enumerated newick order.
    pre: dom(q0, q1, q2) and kdom(k, 3)
    post: p_position(dates_of([q0, q1, q2]), __return__)
    """
    return init([q0, q1, q2], k)


def position3_twin(q0: int, q1: int, q2: int, k: int):
    """
    pre: dom(q0, q1, q2) and kdom(k, 3)
    post: not (k > KLO and hetero([r[2] for r in __return__]))
    """
    return init([q0, q1, q2], k)


def agree3(q0: int, q1: int, q2: int, k: int):
    """
    (3)+(4) sampling_times[node.index] == node.date == height of the tip's own taxon.
    pre: dom(q0, q1, q2) and kdom(k, 3)
    post: p_agree(__return__) and p_tip_at_own_time(dates_of([q0, q1, q2]), __return__)
    """
    return both([q0, q1, q2], k)


def agree3_twin(q0: int, q1: int, q2: int, k: int):
    """
    pre: dom(q0, q1, q2) and kdom(k, 3)
    post: not (k > KLO and hetero(__return__[0]))
    """
    return both([q0, q1, q2], k)


def postorder3(q0: int, q1: int, q2: int, k: int):
    """
    (3) with the parse option use_postorder_indices=True: the tip still sits at the height of its own taxon.
    pre: dom(q0, q1, q2) and kdom(k, 3)
    post: p_agree(__return__) and p_tip_at_own_time(dates_of([q0, q1, q2]), __return__)
    """
    return both([q0, q1, q2], k, True)


def postorder3_twin(q0: int, q1: int, q2: int, k: int):
    """
    pre: dom(q0, q1, q2) and kdom(k, 3)
    post: not (k > KLO and hetero(__return__[0]))
    """
    return both([q0, q1, q2], k, True)


def iso3(c: int, k: int):
    """
    (5) isochronous calendar dates (all equal, non-zero, e.g. 2000): every height is 0.
    pre: 1 <= c <= QMAX and kdom(k, 3)
    post: p_all_zero(__return__)
    """
    return both([c, c, c], k)


def iso3_twin(c: int, k: int):
    """
    pre: 1 <= c <= QMAX and kdom(k, 3)
    post: not (c == 8000 and k > 0 and len(__return__[1]) == 3)
    """
    return both([c, c, c], k)


def shift3(q0: int, q1: int, q2: int, s: int):
    """
    (5) calendar dates: only date differences matter (same heights after shifting every date by s > 0).
    pre: dom(q0, q1, q2) and not is_ages(q0, q1, q2) and 1 <= s <= QMAX
    post: p_equal(__return__[0], __return__[1])
    """
    return (upd([q0, q1, q2]), upd([q0 + s, q1 + s, q2 + s]))


def shift3_twin(q0: int, q1: int, q2: int, s: int):
    """
    pre: dom(q0, q1, q2) and not is_ages(q0, q1, q2) and 1 <= s <= QMAX
    post: not hetero(__return__[1])
    """
    return (upd([q0, q1, q2]), upd([q0 + s, q1 + s, q2 + s]))


def named3(e0: int, e1: int, e2: int, k: int):
    """
    setup_dates: dates written in the taxon names t<i>_<date>; same convention, oldest = max - min.
    pre: edom(e0, e1, e2) and kdom(k, 3)
    post: p_named([float(e0), float(e1), float(e2)], __return__)
    """
    return named([e0, e1, e2], k)


def named3_twin(e0: int, e1: int, e2: int, k: int):
    """
    pre: edom(e0, e1, e2) and kdom(k, 3)
    post: not (k > KLO and __return__[0] == 2.0 and hetero([r[1] for r in __return__[1]]))
    """
    return named([e0, e1, e2], k)


def hfb3(q0: int, q1: int, q2: int, b0: int, b1: int, b2: int, b3: int, k: int):
    """
    heights_from_branch_lengths: parents strictly older than children, tips at their sampling time.
    pre: dom(q0, q1, q2) and bdom(b0, b1, b2, b3) and kdom(k, 3)
    post: p_hfb(TREES[3][k], oracle(dates_of([q0, q1, q2])), blens(b0, b1, b2, b3), __return__)
    """
    return hfb([q0, q1, q2], [b0, b1, b2, b3], k)


def hfb3_twin(q0: int, q1: int, q2: int, b0: int, b1: int, b2: int, b3: int, k: int):
    """
    pre: dom(q0, q1, q2) and bdom(b0, b1, b2, b3) and kdom(k, 3)
    post: not (k > KLO and __return__[1] > 3 and q0 > q1 > q2 > 0)
    """
    return hfb([q0, q1, q2], [b0, b1, b2, b3], k)


# ================================================================== conditions, 4 taxa
def nonneg4(q0: int, q1: int, q2: int, q3: int):
    """
    pre: dom(q0, q1, q2, q3)
    post: p_nonneg_zero(__return__)
    """
    return upd([q0, q1, q2, q3])


def nonneg4_twin(q0: int, q1: int, q2: int, q3: int):
    """
    pre: dom(q0, q1, q2, q3)
    post: not hetero(__return__)
    """
    return upd([q0, q1, q2, q3])


def ages4(q0: int, q1: int, q2: int, q3: int):
    """
    pre: dom(q0, q1, q2, q3) and is_ages(q0, q1, q2, q3)
    post: p_equal(__return__, dates_of([q0, q1, q2, q3]))
    """
    return upd([q0, q1, q2, q3])


def ages4_twin(q0: int, q1: int, q2: int, q3: int):
    """
    pre: dom(q0, q1, q2, q3) and is_ages(q0, q1, q2, q3)
    post: not hetero(__return__)
    """
    return upd([q0, q1, q2, q3])


def calendar4(q0: int, q1: int, q2: int, q3: int):
    """
    pre: dom(q0, q1, q2, q3) and not is_ages(q0, q1, q2, q3)
    post: p_equal(__return__, oracle(dates_of([q0, q1, q2, q3])))
    """
    return upd([q0, q1, q2, q3])


def calendar4_twin(q0: int, q1: int, q2: int, q3: int):
    """
    pre: dom(q0, q1, q2, q3) and not is_ages(q0, q1, q2, q3)
    post: not hetero(__return__)
    """
    return upd([q0, q1, q2, q3])


def order4(q0: int, q1: int, q2: int, q3: int):
    """
    pre: dom(q0, q1, q2, q3)
    post: p_order(dates_of([q0, q1, q2, q3]), __return__)
    """
    return upd([q0, q1, q2, q3])


def order4_twin(q0: int, q1: int, q2: int, q3: int):
    """
    pre: dom(q0, q1, q2, q3)
    post: not hetero(__return__)
    """
    return upd([q0, q1, q2, q3])


def position4(q0: int, q1: int, q2: int, q3: int, k: int):
    """
    pre: dom(q0, q1, q2, q3) and kdom(k, 4)
    post: p_position(dates_of([q0, q1, q2, q3]), __return__)
    """
    return init([q0, q1, q2, q3], k)


def position4_twin(q0: int, q1: int, q2: int, q3: int, k: int):
    """
    pre: dom(q0, q1, q2, q3) and kdom(k, 4)
    post: not (k > KLO and hetero([r[2] for r in __return__]))
    """
    return init([q0, q1, q2, q3], k)


def agree4(q0: int, q1: int, q2: int, q3: int, k: int):
    """
    pre: dom(q0, q1, q2, q3) and kdom(k, 4)
    post: p_agree(__return__) and p_tip_at_own_time(dates_of([q0, q1, q2, q3]), __return__)
    """
    return both([q0, q1, q2, q3], k)


def agree4_twin(q0: int, q1: int, q2: int, q3: int, k: int):
    """
    pre: dom(q0, q1, q2, q3) and kdom(k, 4)
    post: not (k > KLO and hetero(__return__[0]))
    """
    return both([q0, q1, q2, q3], k)


def postorder4(q0: int, q1: int, q2: int, q3: int, k: int):
    """
    pre: dom(q0, q1, q2, q3) and kdom(k, 4)
    post: p_agree(__return__) and p_tip_at_own_time(dates_of([q0, q1, q2, q3]), __return__)
    """
    return both([q0, q1, q2, q3], k, True)


def postorder4_twin(q0: int, q1: int, q2: int, q3: int, k: int):
    """
    pre: dom(q0, q1, q2, q3) and kdom(k, 4)
    post: not (k > KLO and hetero(__return__[0]))
    """
    return both([q0, q1, q2, q3], k, True)


def iso4(c: int, k: int):
    """
    pre: 1 <= c <= QMAX and kdom(k, 4)
    post: p_all_zero(__return__)
    """
    return both([c, c, c, c], k)


def iso4_twin(c: int, k: int):
    """
    pre: 1 <= c <= QMAX and kdom(k, 4)
    post: not (c == 8000 and k > KLO and len(__return__[1]) == 4)
    """
    return both([c, c, c, c], k)


def shift4(q0: int, q1: int, q2: int, q3: int, s: int):
    """
    pre: dom(q0, q1, q2, q3) and not is_ages(q0, q1, q2, q3) and 1 <= s <= QMAX
    post: p_equal(__return__[0], __return__[1])
    """
    return (upd([q0, q1, q2, q3]), upd([q0 + s, q1 + s, q2 + s, q3 + s]))


def shift4_twin(q0: int, q1: int, q2: int, q3: int, s: int):
    """
    pre: dom(q0, q1, q2, q3) and not is_ages(q0, q1, q2, q3) and 1 <= s <= QMAX
    post: not hetero(__return__[1])
    """
    return (upd([q0, q1, q2, q3]), upd([q0 + s, q1 + s, q2 + s, q3 + s]))
