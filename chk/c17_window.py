"""C17 part 5 (symtorch engine): adaptation windows - a checkpoint written BEFORE, INSIDE or AFTER the window.

Objects: a real HMCOperator (LeapfrogIntegrator, diagonal mass matrix Parameter) carrying one of the adaptors
DualAveragingStepSize / AdaptiveStepSize (plain and use_acceptance_rate) / MassMatrixAdaptor, or all three, each built
with a FINITE window `start`, `end`.  Everything is symbolic: the window bounds, the call counter (so its position
relative to the window is decided by the path: regions, enumerated with blocking clauses and closed by a coverage
query), the integrator step size, the dual averaging state, the Welford estimator, the mass matrix, the parameter
values the mass matrix adaptor reads and the acceptance probability of the next iteration.

One run:  A (the uninterrupted object) holds the symbolic state;  its checkpoint state_dict() goes through
chk.c17_model.json_model (real ParameterEncoder / TensorDecoder; every non-constant float crossing the file becomes a
fresh variable r with the hypothesis r == saved value);  B is built from the same specification and restored with
the real HMCOperator.load_state_dict (integrator first, then the adaptors, as the real code orders them);  then BOTH
perform the next iteration's `tune(acceptance_prob, sample, accepted)` (= every adaptor's real `learn`).

Goals per region (SMT portfolio):
  restart   every run-state field of B (chk.c17_model.view: counters, integrator, dual averaging, estimator, mass
            matrix and its inverse) and B.state_dict() equal A's at the time of writing - whichever side of the
            window the counter is on;
  branches  B takes the decisions A takes in `learn` (its path conditions follow from A's and the file hypotheses);
  learn     after the next `learn` the integrator step size, the mass matrix / inverse mass matrix, every run-state
            field and state_dict() of B equal those of A;
  defined   denominators / log / sqrt arguments met on the way are in their domain.
The `math` modules of hmc/adaptation.py and ops/dual_averaging.py are replaced by SymMath (exp, log, sqrt, pow
uninterpreted: both objects apply them to arguments the hypotheses make equal).  Counterexamples are replayed on
plain Python numbers / tensors through json.dumps / json.loads with the real encoder and decoder.

MassMatrixAdaptor.learn takes its counter modulo update_frequency: there the call counter is a CONCRETE int
(every residue class, counters 0..5 with update_frequency 2 and restart_frequency 3) and the window bounds, the
sample count and all floats stay symbolic.
"""
from __future__ import annotations

import contextlib
import math

import torch

from chk import c17_model as M
from chk import c17_resume as R

DIM = 2
KINDS = ('DualAveragingStepSize', 'AdaptiveStepSize', 'AdaptiveStepSize[rate]', 'MassMatrixAdaptor', 'all')

# name -> witness; counters are real-relaxed integers (every integer point is covered; a counterexample is replayed
# with the rounded counters first)
BASE = {'eps': 0.23, 'p': 0.65, 'q0': 0.4, 'q1': -0.7, 'm0': 2.0, 'm1': 4.0}
INPUTS = {
    'DualAveragingStepSize': dict(BASE, c=3.0, s=2.0, e=6.0, n=2.0, x=-1.25, xb=-0.55, sb=0.125),
    'AdaptiveStepSize': dict(BASE, c=3.0, s=2.0, e=6.0, acc=2.0),
    'AdaptiveStepSize[rate]': dict(BASE, c=12.0, s=2.0, e=16.0, acc=5.0),
    'MassMatrixAdaptor': dict(BASE, s=2.0, e=6.0, ns=7.0, me0=0.35, me1=1.45, va0=0.27, va1=0.53),
    'all': dict(BASE, c=3.0, s=2.0, e=6.0, n=2.0, x=-1.25, xb=-0.55, sb=0.125, acc=2.0, ns=7.0, me0=0.35, me1=1.45,
                va0=0.27, va1=0.53),
}
COUNTERS = ('c', 's', 'e', 'n', 'acc', 'ns')


def domain(kind):
    def dom(d, V):
        out = [d.lt(0, V['eps']), d.le(0, V['p']), d.le(V['p'], 1), d.lt(0, V['m0']), d.lt(0, V['m1']), d.le(0, V['s']),
               d.le(0, V['e'])]
        for n in ('c', 'n', 'acc', 'ns'):
            if n in V:
                out.append(d.le(0, V[n]))
        for n in ('va0', 'va1'):
            if n in V:
                out.append(d.le(0, V[n]))
        return out

    return dom


# ------------------------------------------------------------------------------------------------ the objects
def build(kind, g, tensor, mma_counter=None):
    """g(name) -> value of the input (SymFloat / float); the specification is the same for A and B."""
    from torchtree.core.parameter import Parameter
    from torchtree.inference.hmc.adaptation import AdaptiveStepSize, DualAveragingStepSize, MassMatrixAdaptor
    from torchtree.inference.hmc.integrator import LeapfrogIntegrator
    from torchtree.inference.hmc.operator import HMCOperator

    integ = LeapfrogIntegrator('leap', 3, 0.1)
    mass = Parameter('mass', torch.ones(DIM))
    params = [Parameter('q', tensor([g('q0'), g('q1')]))]
    win = {'start': g('s'), 'end': g('e')}
    ads = []
    if kind in ('DualAveragingStepSize', 'all'):
        ads.append(DualAveragingStepSize('da', integ, mu=0.4, delta=0.8, **win))
    if kind in ('AdaptiveStepSize', 'AdaptiveStepSize[rate]', 'all'):
        ads.append(AdaptiveStepSize('ass', integ, 0.8, use_acceptance_rate=kind.endswith('[rate]'), **win))
    if kind in ('MassMatrixAdaptor', 'all'):
        ads.append(MassMatrixAdaptor('mma', params, mass, True, update_frequency=2, restart_frequency=3, **win))
    return HMCOperator('hmc', None, params, integ, mass, 1.0, 0.8, ads, acceptance_window_length=3)


def inject(op, kind, g, tensor, mma_counter):
    from torchtree.inference.hmc.adaptation import AdaptiveStepSize, DualAveragingStepSize

    op._adapt_count, op._accept, op._reject = 4, 3, 2
    op._accept_window.extend([1, 0])
    op._integrator.steps = 5
    op._integrator.step_size = g('eps')
    op._mass_matrix.tensor = tensor([g('m0'), g('m1')])
    for ad in op._adaptors:
        if isinstance(ad, DualAveragingStepSize):
            ad._call_counter = g('c')
            ad._dual_avg._counter = g('n')
            ad._dual_avg.x, ad._dual_avg.x_bar, ad._dual_avg.s_bar = g('x'), g('xb'), g('sb')
        elif isinstance(ad, AdaptiveStepSize):
            ad._call_counter = g('c')
            ad._accepted = g('acc')
        else:
            ad._call_counter = mma_counter
            e = ad.variance_estimator
            e.samples = g('ns')
            e._mean = tensor([g('me0'), g('me1')])
            e._variance = tensor([g('va0'), g('va1')])


def snapshot(op):
    """{path: value} of the run-state view + state_dict (tensors cloned: learn updates some of them in place)"""
    out = {}
    seen = {}
    for cls, path, owner, attr in M.view(op):
        key = f'{cls}.{path}'
        seen[key] = seen.get(key, 0) + 1
        v = getattr(owner, attr)
        out[f'{key}#{seen[key]}'] = v.detach().clone() if isinstance(v, torch.Tensor) else (
            list(v) if hasattr(v, 'popleft') else v)
    out['state_dict'] = M.json_model(op.state_dict(), M._ENC.default, M._DEC.object_hook)
    return out


@contextlib.contextmanager
def sym_math():
    import torchtree.inference.hmc.adaptation as AD
    import torchtree.ops.dual_averaging as DA
    from symtorch import SymMath

    saved = (AD.math, DA.math)
    AD.math = DA.math = SymMath()
    try:
        yield
    finally:
        AD.math, DA.math = saved


# ------------------------------------------------------------------------------------------- symbolic body
def make_body(kind, mma_counter, accepted):
    from symtorch.explore import Goal
    from symtorch.tensor import mkfloat

    def body(t, V, W):
        d = t.dag
        R.install_handlers()

        def g(name):
            return mkfloat(V[name])

        def tensor(vals):
            return torch.tensor(list(vals), dtype=torch.float64)

        hyps = []
        store = R.Store(t, hyps, 'file')
        with sym_math():
            a = build(kind, g, tensor)
            b = build(kind, g, tensor)
            inject(a, kind, g, tensor, mma_counter)
            before = snapshot(a)
            store.save('ck', a.state_dict())  # the checkpoint: every float crosses the file as a fresh variable
            n0 = len(t.pcs)
            a.tune(g('p'), 7, accepted)
            n1 = len(t.pcs)
            problems = []
            try:
                b.load_state_dict(M.json_model(store.files['ck'], M._ENC.default, M._DEC.object_hook))
            except Exception as e:
                problems.append(f'restart-raises:{type(e).__name__}:{e}')
            restored = snapshot(b)
            if not problems:
                b.tune(g('p'), 7, accepted)
            after_a, after_b = snapshot(a), snapshot(b)
        if n0:
            raise RuntimeError('path conditions before the first learn call')
        pcs_b = list(t.pcs[n1:])
        del t.pcs[n1:]  # the region is defined by A's decisions; B's are an obligation
        goals = []

        def group(label, x, y, sig):
            eqs = []
            for k in x:
                if k not in y:
                    problems.append(f'{sig}:{k}:missing')
                else:
                    R.compare(d, x[k], y[k], f'{sig}:{k}', eqs, problems)
            node = d.and_(*[e for _, e in eqs]) if eqs else d.TRUE
            goals.append(abstracted(f'{label} ({len(eqs)} symbolic entries)', node, sig, [p for p, _ in eqs]))

        def abstracted(label, node, sig, info=None):
            """first formulation: products / quotients / powers uninterpreted (chk.c17_resume.abstract_nonlinear: sound
            for proving - both objects apply the same operations to values the hypotheses make equal); alternative:
            exact real arithmetic"""
            if node == d.TRUE:
                return Goal(label, node, hyps=hyps, signature=sig, info=info)
            try:
                roots, comm = R.abstract_nonlinear(d, list(hyps) + [node])
            except ValueError:
                return Goal(label, node, hyps=hyps, signature=sig, info=info)
            return Goal(label, roots[-1], hyps=list(hyps) + roots[:-1] + comm, signature=sig, info=info, alts=[node])

        group('restart: the state of the restarted operator equals the written one', before, restored, 'restart')
        goals.append(abstracted('branches: the restarted adaptors take the decisions of the uninterrupted ones in learn',
                                d.and_(*pcs_b) if pcs_b else d.TRUE, 'branches'))
        group('learn: step size, mass matrices and state after the next learn call equal the uninterrupted ones',
              after_a, after_b, 'learn')
        obl = [d.not_(d.eq(x, 0)) for x in t.denominators]
        obl += [d.lt(0, x) if k == 'pos' else d.le(0, x) for k, x in t.domains]
        if obl:
            from symtorch.axioms import ground_axioms

            allok = d.and_(*obl)
            goals.append(Goal('defined: denominators non-zero, log / sqrt arguments in their domain', allok,
                              hyps=hyps + ground_axioms(d, [allok]), signature='defined'))
        body.problems = problems
        body.moved = any(not bool(d.vals[e]) for e in _moved(d, before, after_a))
        return goals

    body.problems = []
    body.moved = False
    return body


def _moved(d, before, after):
    """equalities 'learn changed nothing' (used as vacuity guard: in some region learn must move the state)"""
    eqs = []
    R.compare(d, before, after, 'moved', eqs, [])
    return [e for _, e in eqs]


# ------------------------------------------------------------------------------------------ concrete replay
def replay_case(kind, mma_counter, accepted, values):
    """Plain Python numbers / tensors, real json.  -> (reproduced, signature, detail)"""
    def attempt(vals):
        def g(name):
            return vals[name]

        def tensor(v):
            return torch.tensor([float(x) for x in v], dtype=torch.float64)

        a, b = build(kind, g, tensor), build(kind, g, tensor)
        inject(a, kind, g, tensor, mma_counter)
        before = snapshot(a)
        back = M.checkpoint_real(a.state_dict())
        p = torch.tensor(float(vals['p']), dtype=torch.float64)
        try:
            a.tune(p, 7, accepted)
        except Exception as e:
            return False, '', f'the uninterrupted object raises in learn: {e!r}'
        try:
            b.load_state_dict(back)
        except Exception as e:
            who = M._raiser_class(e, 'HMCOperator')
            return True, f'{who}.load_state_dict:raises-{type(e).__name__}[finite window]', repr(e)
        restored = snapshot(b)
        for k in before:
            dd = M.diff(before[k], restored.get(k), k)
            if dd:
                return True, f'window:{_field(dd)}-not-restored[{_side(kind, vals, mma_counter)}]', dd
        try:
            b.tune(p, 7, accepted)
        except Exception as e:
            return True, f'window:learn-raises-after-restart-{type(e).__name__}', repr(e)
        aa, bb = snapshot(a), snapshot(b)
        for k in aa:
            dd = _close(aa[k], bb.get(k), k)
            if dd:
                return True, f'window:{_field(dd)}-differs-after-next-learn[{_side(kind, vals, mma_counter)}]', \
                    f'{dd}: uninterrupted {_show(aa[k])} restarted {_show(bb.get(k))}'
        return False, '', 'restart state and next learn identical'

    base = dict(INPUTS[kind])
    base.update({k: float(v) for k, v in (values or {}).items() if k in base})
    old = torch.get_default_dtype()
    torch.set_default_dtype(torch.float64)  # what torchtree.main sets (the Welford estimator takes the default dtype)
    try:
        return _replay(kind, attempt, base)
    finally:
        torch.set_default_dtype(old)


def _replay(kind, attempt, base):
    rounded = {k: (float(max(0, round(v))) if k in COUNTERS else v) for k, v in base.items()}
    ints = {k: (int(v) if k in COUNTERS else v) for k, v in rounded.items()}
    last = (False, '', '')
    for vals in (ints, base):
        try:
            last = attempt(vals)
        except Exception as e:  # e.g. log of a non-positive step size in the counterexample
            last = (False, '', f'replay raised {e!r}')
        if last[0]:
            return last[0], last[1], last[2] + f' at {vals}'
    return last


def _field(dd):
    path = dd.rpartition(':')[0] if ':' in dd else dd
    path = path.split('#')[0]
    parts = [p for p in path.replace(']', '').split('[') if p and not p.isdigit()]
    return '.'.join(parts[-2:]) if path.startswith('state_dict') else path


def _side(kind, vals, mma_counter):
    c = mma_counter if kind == 'MassMatrixAdaptor' else vals.get('c', mma_counter)
    nxt = c + 1
    return ('before the window' if nxt < vals['s'] else 'after the window' if nxt > vals['e'] else 'inside the window')


def _show(x):
    return x.tolist() if isinstance(x, torch.Tensor) else x


def _close(a, b, path):
    """difference beyond rounding (both objects perform the same float operations, so they agree exactly)"""
    return M.diff(a, b, path)


# ------------------------------------------------------------------------------------------------ the task
BOUNDS_TEXT = (
    'symtorch: real HMCOperator + LeapfrogIntegrator + diagonal mass matrix (dim 2) with {kinds}; finite window '
    '[start, end] with symbolic bounds >= 0; symbolic (real-relaxed) call counter, dual averaging counter, accepted count, '
    'Welford sample count; symbolic step size > 0, dual averaging x / x_bar / s_bar, Welford mean / variance, mass matrix '
    '> 0, parameter values, acceptance probability in [0, 1]; accepted in {{False, True}}; MassMatrixAdaptor: concrete '
    'call counters {counters} (update_frequency 2, restart_frequency 3), everything else symbolic; regions (counter '
    'before / inside / after the window, update due or not, ...) enumerated with a coverage certificate; one checkpoint, '
    'one restart, one further learn call on both objects')


def describe(sig):
    if sig.startswith('window:') and '-not-restored' in sig:
        return ('adaptor with a finite adaptation window: after writing a checkpoint and restarting, a run-state field '
                '(integrator step size / mass matrix / adaptor state) is not the saved one - ' + sig.split('[')[-1].rstrip(']'))
    if sig.startswith('window:') and 'differs-after-next-learn' in sig:
        return ('adaptor with a finite adaptation window: the next learn call after a restart does not produce the values '
                'of the uninterrupted object - ' + sig.split('[')[-1].rstrip(']'))
    return sig


def window_task(task, tr):
    """task = ('window', kind, MassMatrixAdaptor call counters (tuple) or None, accepted, timeout)"""
    _, kind, counters, accepted, timeout = task
    for c in (counters if counters else (None,)):
        _window_task((task[0], kind, c, accepted, timeout), tr)


def _window_task(task, tr):
    import time

    from symtorch.explore import Explorer
    from torchtree.inference.hmc.adaptation import AdaptiveStepSize, DualAveragingStepSize, MassMatrixAdaptor
    from torchtree.inference.hmc.integrator import LeapfrogIntegrator
    from torchtree.inference.hmc.operator import HMCOperator
    from torchtree.inference.mcmc.operator import MCMCOperator
    from torchtree.ops.dual_averaging import DualAveraging
    from torchtree.ops.welford import WelfordVariance

    _, kind, mma_counter, accepted, timeout = task
    label = f'window[{kind}' + (f',counter={mma_counter}' if mma_counter is not None else '') + f',accepted={accepted}]'
    tr.fn(HMCOperator.tune, HMCOperator._state_dict, HMCOperator._load_state_dict, HMCOperator.update_mass_matrices,
          MCMCOperator.state_dict, MCMCOperator.load_state_dict, LeapfrogIntegrator.load_state_dict,
          DualAveragingStepSize.learn, DualAveragingStepSize._state_dict, DualAveragingStepSize.load_state_dict,
          DualAveraging.step, AdaptiveStepSize.learn, AdaptiveStepSize._state_dict, AdaptiveStepSize.load_state_dict,
          MassMatrixAdaptor.learn, MassMatrixAdaptor._state_dict, MassMatrixAdaptor.load_state_dict,
          WelfordVariance.add_sample, WelfordVariance.variance, M.json_model)
    tr.stubs |= {
        'window: the math modules of torchtree.inference.hmc.adaptation and torchtree.ops.dual_averaging -> SymMath '
        '(exp / log / sqrt / pow uninterpreted)',
        'window: the checkpoint passes through chk.c17_model.json_model (real ParameterEncoder.default / '
        'TensorDecoder.object_hook); every non-constant float crossing the file is a fresh variable constrained to the '
        'saved value',
    }
    tr.assumptions |= {
        'window: counters and window bounds are real-relaxed (the solver ranges over reals >= 0, which contains every '
        'integer point); a counterexample is replayed with the counters rounded to ints first',
        'window: the state of the uninterrupted object is arbitrary within the domain (not only states a run can reach)',
        'window: dense mass matrices are outside this clause (torch.inverse is a stub without congruence); their restart '
        'state is decided by the CrossHair case HMCOperator[dense]',
    }
    t0 = time.time()
    body = make_body(kind, mma_counter, accepted)
    inputs = dict(INPUTS[kind])
    moved = []

    def wrapped(t, V, W):
        goals = body(t, V, W)
        moved.append(body.moved)
        for p in body.problems:
            ok, sig, detail = replay_case(kind, mma_counter, accepted, W)
            tr.witness_runs += 1
            if ok:
                tr.violation(sig, f'{describe(sig)} [{label}; concrete difference on the symbolic run: {p}; real objects, '
                                  f'real json: {detail[:500]}]',
                             {'kind': 'window', 'adaptor': kind, 'counter': mma_counter, 'accepted': accepted,
                              'values': dict(W), 'signature': sig})
            else:
                tr.inconc(f'{label}: concrete difference on the symbolic run ({p}) did not reproduce on the real '
                          f'objects: {detail[:200]}')
        return [] if body.problems else goals

    with sym_math():
        ex = Explorer(inputs, domain(kind), wrapped, tr, max_regions=40, timeout=timeout, closure_timeout=timeout,
                      label=label, check_defined=False, parallel=True)
        try:
            out = ex.run()
        except Exception as e:
            import traceback

            tr.inconc(f'{label}: symbolic execution failed: {type(e).__name__}: {e} {traceback.format_exc()[-700:]}')
            return
    sigs = set()
    for gl, model, k, witness in out.failed:
        from symtorch.explore import _to_float

        vals = {a: _to_float(v) for a, v in model.items() if v is not None}
        done = False
        detail = ''
        for cand in (vals, witness):
            ok, sig, detail = replay_case(kind, mma_counter, accepted, cand)
            tr.witness_runs += 1
            if ok:
                if sig not in sigs:
                    sigs.add(sig)
                    tr.violation(sig, f'{describe(sig)} [{label}; solver counterexample for "{gl.label}" in region {k}; real '
                                      f'objects, real json: {detail[:500]}]',
                                 {'kind': 'window', 'adaptor': kind, 'counter': mma_counter, 'accepted': accepted,
                                  'values': cand, 'signature': sig})
                    tr.sample({'case': label, 'counterexample': cand, 'signature': sig, 'replayed_on_real_json': True})
                done = True
                break
        if not done:
            tr.inconc(f'{label}: solver counterexample for "{gl.label}" (region {k}) did not reproduce on the real objects '
                      f'({detail[:200]})')
    for lab, detail, witness in out.unknown:
        ok, sig, det = replay_case(kind, mma_counter, accepted, witness)
        tr.witness_runs += 1
        if ok:
            tr.violation(sig, f'{describe(sig)} [{label}; solver undecided ({lab}), the witness separates: {det[:500]}]',
                         {'kind': 'window', 'adaptor': kind, 'counter': mma_counter, 'accepted': accepted,
                          'values': dict(witness), 'signature': sig})
        else:
            tr.inconc(f'{label}: {lab} undecided ({detail[:200]})')
    if out.closed and not any(moved) and not out.failed:
        tr.inconc(f'{label}: learn changed nothing in any region (vacuous)')
    tr.sample({'case': label, 'regions': out.regions, 'closed': out.closed, 'proved': out.proved,
               'region_samples': out.region_samples[:2], 'seconds': round(time.time() - t0, 1)}, limit=2)
