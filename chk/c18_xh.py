"""C18: `python -m chk.c18_xh <crosshair args>` = `crosshair <args>` after torch/torchtree have been imported.

CrossHair's audit wall (kept switched on: it would flag any real file-system write attempted by the
code under analysis) also covers imports, and `import torch` spawns ldconfig / probes the temp dir.
Importing the target first keeps the wall intact for the analysis itself.
"""
import sys

if __name__ == '__main__':
    from chk.c18_model import target_module

    target_module()
    from crosshair.main import main

    sys.argv = ['crosshair'] + sys.argv[1:]
    main()
