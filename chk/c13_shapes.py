"""C13 specification shapes.  Each builder returns the list a JSON file would decode to; its arguments
are the (symbolic) strings.  Argument naming convention (drives the generated `pre:` lines):
  a..e   ids that are only defined            -> T.idstr   (any unicode string, length 1..MAXLEN)
  r, q   strings used as references            -> T.refstr  (additionally no '{')
  s, t   ids torchtree uses as attribute names -> T.smallstr (3-element domain, concretised by a case split)
  k      suffix of a `_` comment key           -> T.keydom  (5-element domain, concretised)
  v      free comment value                    -> T.anystr
  m      name of a key the object lacks        -> T.anystr and not one of id/type/need
`positions` (default: every argument except k, v, m) are the expressions whose equality pattern decides
the expected outcome; every set partition of the positions is one CrossHair condition.
Constant ids in a shape are 6 characters long (> MAXLEN), so no symbolic string can equal them.
"""
from __future__ import annotations

from chk import c13_target as T
from chk.c13_target import D, FT, J, N, NI, P, PICKY, PLATE_STAR, PLATE_VAR, SR, TAXA, TP, TPH

SHAPES = []


def shape(clause, tier='quick', positions=None, quick_codes=None, note=''):
    def deco(fn):
        fn.clause = clause
        fn.tier = tier
        fn.positions = positions
        fn.quick_codes = quick_codes  # None = all partitions in the quick tier
        fn.note = note
        SHAPES.append(fn)
        return fn

    return deco


# ---------------------------------------------------------------- tiny class: definitions only
@shape('b')
def sib2(a, b):
    return [N(a), N(b)]


@shape('b')
def nest2(a, b):
    return [N(a, x=N(b))]


@shape('b')
def nest3(a, b, c):
    return [N(a, x=N(b, x=N(c)))]


@shape('b')
def list3(a, b, c):
    return [N(a, children=[N(b), N(c)])]


@shape('b')
def toplist2(a, b):
    return [[N(a), N(b)]]


@shape('b', quick_codes=('0123', '0120', '0121', '0112', '0102', '0012', '0122'))
def cousins(a, b, c, d):
    return [N(a, x=N(b)), N(c, x=N(d))]


# ---------------------------------------------------------------- tiny class: references
@shape('a', quick_codes=('0120', '0123', '0121', '0122', '0010', '0012', '0102', '0112', '0000'))
def share_top(a, b, c, r):
    return [N(a), N(b, x=r), N(c, x=r)]


@shape('a', quick_codes=('0121', '0120', '0122', '0123', '0012', '0102', '0112', '0010'))
def share_nested(a, b, c, r):
    return [N(a, x=N(b)), N(c, x=r)]


@shape('a', quick_codes=('0120', '0121', '0122', '0123', '0010', '0110', '0100', '0112'))
def list_refs(a, b, c, r):
    return [N(a), N(b, children=[r, N(c), r])]


@shape('c', quick_codes=('0123', '0120', '0121', '0122', '0010', '0110'))
def deep_ref(a, b, c, r):
    return [N(a, x=N(b, x=N(c, x=r)))]


@shape('a', tier='thorough')
def two_refs(a, b, c, r, q):
    return [N(a), N(b), N(c, x=r, children=[q])]


# ---------------------------------------------------------------- real classes
@shape('b')
def tp2(a, b):
    return [TP(a, P(b))]


@shape('a', quick_codes=('0121', '0120', '0122', '0123', '0012', '0102', '0112', '0111'))
def tp_share(a, b, c, r):
    return [TP(a, P(b)), TP(c, r)]


@shape('a')
def dist_x(a, b, r):
    return [P(a), D(b, r)]


@shape('a', tier='thorough')
def dist_inline(a, b, c, r):
    return [D(a, P(b)), D(c, r)]


@shape('a', quick_codes=('0122', '0121', '0123', '0102', '0012', '0112', '0100', '0120'))
def dist_param(s, b, r, q):
    return [P(T.small(s)), D(b, r, rate=q)]


@shape('a', quick_codes=('0122', '0120', '0123', '0012', '0102', '0112', '0121'))
def joint4(a, b, s, r):
    return [P(a), J(b, [D(T.small(s), r), D('zzzzzz', r)])]


@shape('a')
def joint_ref(a, s, q):
    return [D(T.small(s), P(a)), J('jjjjjj', [q, q])]


# ---------------------------------------------------------------- comments and ignored objects
@shape('d', note='comment-key-kept')
def cm_key(a, b, k, v):
    return [N(a, **{T.ckey(k): v, 'x': N(b)})]


@shape('d', note='comment-key-kept:object-value')
def cm_obj(a, b, c, k):
    return [N(a, **{'x': N(b), T.ckey(k): N(c)})]


@shape('d', note='ignored-object-kept:top-level')
def ig_top(a, b, c):
    return [N(a), NI(b, True), N(c)]


@shape('d', note='ignored-object-kept:dict-value', quick_codes=('0121', '0123', '0120', '0122', '0012', '0102', '0112'))
def ig_child(a, b, c, r):
    return [N(a, x=NI(b, True)), N(c, x=r)]


@shape('d', note='ignored-object-kept:list')
def ig_list(a, b, c):
    return [N(a, children=[NI(b, True), N(c)])]


@shape('d', note='ignore-false-dropped')
def ig_false(a, b):
    return [N(a), NI(b, False)]


@shape('d', note='ignored-object-kept:truthy')
def ig_truthy(a, b):
    return [N(a), NI(b, 1)]


@shape('d', tier='thorough', note='ignored-object-kept:nested')
def ig_inner(a, b, c):
    return [N(a, x=N(b, children=[N(c, ignore=True, x='nowhere')]))]


# consecutive ignored objects / an ignored object followed by an object that itself needs cleaning
# (a remove_comments that deletes while iterating forward skips the element after each deletion)
@shape('d', note='ignored-object-kept:consecutive')
def ig_two(a, b, c):
    return [NI(a, True), NI(b, True), N(c)]


@shape('d', note='ignored-object-kept:consecutive')
def ig_two_list(a, b, c):
    return [N(a, children=[NI(b, True), NI(c, 1)])]


@shape('d', note='ignored-object-kept:consecutive',
       quick_codes=('0123', '0120', '0102', '0112', '0012', '0122', '0121'))
def ig_three(a, b, c, d):
    return [N(a), NI(b, True), NI(c, True), NI(d, True)]


@shape('d', note='comment-key-kept:after-ignored')
def ig_then_key(a, b, k, v):
    return [NI(a, True), N(b, **{T.ckey(k): v})]


@shape('d', note='comment-key-kept:after-ignored')
def ig_then_key_list(a, b, c, k, v):
    return [N(a, children=[NI(b, True), N(c, **{T.ckey(k): v})])]


@shape('d', note='nested-ignored-kept:after-ignored',
       quick_codes=('0123', '0120', '0102', '0112', '0012', '0122', '0121'))
def ig_then_nested(a, b, c, d):
    return [NI(a, True), N(b, x=NI(c, True), children=[NI(d, True)])]


# ---------------------------------------------------------------- plates
@shape('p', positions=("a + '0'", "a + '1'", 'b', 'r'),
       quick_codes=('0121', '0120', '0122', '0123', '0100', '0102'))
def pl_var(a, b, r):
    return [PLATE_VAR(a, lambda i: N(i)), N(b, x=r)]


@shape('p', tier='thorough', positions=("a + '0'", "a + '1'", 'b', 'r'))
def pl_star(a, b, r):
    return [PLATE_STAR(a, lambda i: N(i)), N(b, x=r)]


@shape('p', tier='thorough', positions=('a', "b + '0'", "b + '1'", 'c'))
def pl_children(a, b, c):
    return [N(a, children=[PLATE_VAR(b, lambda i: N(i)), N(c)])]


@shape('p', tier='thorough')
def pl_in_dict(a, b):
    return [N(a, x=PLATE_VAR(b, lambda i: N(i)))]


# ---------------------------------------------------------------- self-registering classes (clause 's')
# C13S puts itself into the registry under its own id after its `pre` child and before `x` / `children`
# (the pattern of the real FlexibleTimeTreeModel): with distinct ids the load succeeds, the registry entry is
# the returned object, a (transitively) nested reference to its id is that same instance; a nested object
# DEFINED with its id is rejected; a reference from `pre` (before the announcement) is dangling.
@shape('s')
def self_ref(a, r):
    return [SR(a, x=r)]


@shape('s')
def self_plain(a, b, r):
    return [SR(a), N(b, x=r)]


@shape('s')
def self_after(a, b):
    return [N(a), SR(b, x=N('cccccc'))]


@shape('s')
def self_child(a, b, r):
    return [SR(a, x=N(b, x=r))]


@shape('s')
def self_pre(a, b, r):
    return [SR(a, pre=N(b), x=r)]


@shape('s')
def self_pre_ref(a, b, r):
    return [N(a), SR(b, pre=r, x=N('cccccc'))]


@shape('s', quick_codes=('0123', '0120', '0121', '0122', '0012', '0100', '0110'))
def self_list(a, b, c, r):
    return [SR(a, children=[r, N(b), r]), N(c, x=r)]


@shape('s', quick_codes=('0123', '0120', '0121', '0122', '0012', '0101', '0111'))
def self_inner(a, b, c, r):
    return [N(a, x=SR(b, x=r)), N(c, x=r)]


@shape('s')
def self_self(a, b, r):
    return [SR(a, x=SR(b, x=r))]


@shape('s', tier='thorough')
def self_deep(a, b, c, r):
    return [SR(a, x=N(b, x=N(c, x=r)))]


@shape('s', tier='thorough')
def self_two_refs(a, b, c, r, q):
    return [SR(a, pre=N(b), x=N(c, x=r, children=[q]))]


@shape('s', tier='thorough')
def self_tp(a, b, c, r):
    return [SR(a, x=TP(b, P(c))), TP('tttttt', r)]


@shape('s', tier='thorough', note='comment-key-kept:self-registering')
def self_cm(a, r, k, v):
    return [SR(a, **{T.ckey(k): v, 'x': r})]


@shape('s', tier='thorough', positions=("a + '0'", "a + '1'", 'r'))
def self_plate(a, r):
    return [PLATE_VAR(a, lambda i: SR(i, x=r))]


# the real self-registering class: FlexibleTimeTreeModel (taxa before, internal_heights after it registers itself);
# its node-height transform refers back to the tree model by id
@shape('s', quick_codes=('0120', '0121', '0122', '0123', '0100', '0110', '0012', '0102'))
def ft_back(a, b, c, r):
    return [FT(a, TPH(b, r, P(c)))]


@shape('s')
def ft_heights(a, b):
    return [FT(a, P(b))]


@shape('s')
def ft_taxa(a, b):
    return [FT(a, P('hhhhhh'), taxa=TAXA(b))]


@shape('s', tier='thorough')
def ft_later(a, b, r):
    return [FT(a, P('hhhhhh')), N(b, x=r)]


# ---------------------------------------------------------------- from_json_safe error wrapping
@shape('e')
def picky2(a, b, m):
    return [N(a, x=PICKY(b, m))]


@shape('e')
def picky_top(a, m):
    return [PICKY(a, m)]


@shape('e', tier='thorough')
def wrap_depth(a, b, c, r):
    return [N(a), N(b, children=[N(c, x=TP('tttttt', r))])]


BY_NAME = {f.__name__: f for f in SHAPES}
